#!/usr/bin/env python3
"""Confirm a seeded change produced by a mutation sub-agent and run the property's check against it.
usage: eval_seeded.py <cXX> [--tier quick] [--name NAME]
Steps: (1) in the agent's worktree /tmp/mut/<cxx> (change applied): the unedited suite passes, the demo fails;
(2) with the change stashed the demo passes; (3) apply patch to /repo, run tools/check.py <CXX>, undo;
(4) store /verif/seeded/<NAME>/ {patch.diff, demo.*, meta.json}."""
import json, os, shutil, subprocess, sys, time
from pathlib import Path

pid = sys.argv[1].lower()
tier = sys.argv[sys.argv.index("--tier") + 1] if "--tier" in sys.argv else "quick"
name = sys.argv[sys.argv.index("--name") + 1] if "--name" in sys.argv else pid.upper()
src = sys.argv[sys.argv.index("--src") + 1] if "--src" in sys.argv else pid
wt, out = Path(f"/tmp/mut/{src}"), Path(f"/tmp/mut/{src}-out")
PY = "/venv/bin/python"

def run(cmd, cwd=None, env=None, timeout=3600):
    e = dict(os.environ); e.update(env or {})
    r = subprocess.run(cmd, cwd=cwd, env=e, text=True, stdout=subprocess.PIPE, stderr=subprocess.STDOUT, timeout=timeout, shell=isinstance(cmd, str))
    return r.returncode, r.stdout

demo = next((p for p in [out / "demo.py", out / "demo.sh"] if p.exists()), None)
patch = out / "patch.diff"
assert demo and patch.exists(), "agent output incomplete"
def run_demo():
    cmd = [PY, str(demo)] if demo.suffix == ".py" else ["bash", str(demo)]
    return run(cmd, cwd=wt, env={"PYTHONPATH": str(wt), "PYTHONHASHSEED": "0"})
res = {}
# make sure the worktree carries exactly the patch
run("git checkout -- . && git stash list >/dev/null", cwd=wt)
rc, o = run(["git", "apply", "--check", str(patch)], cwd=wt); assert rc == 0, "patch does not apply to HEAD: " + o
rc, o = run_demo(); res["demo_without_change"] = rc
run(["git", "apply", str(patch)], cwd=wt)
rc, o = run([PY, "-m", "pytest", "-q", "-p", "no:cacheprovider", "--timeout=900"], cwd=wt, env={"PYTHONPATH": str(wt)})
res["suite_with_change"] = o.strip().splitlines()[-1] if o.strip() else str(rc)
res["suite_rc"] = rc
rc, o = run_demo(); res["demo_with_change"] = rc; res["demo_output_tail"] = o.strip().splitlines()[-3:]
run("git checkout -- .", cwd=wt)
confirmed = res["suite_rc"] == 0 and res["demo_with_change"] != 0 and res["demo_without_change"] == 0
res["confirmed"] = confirmed
print(json.dumps(res, indent=1))
if not confirmed:
    sys.exit(2)
# run the check against /repo with the change applied
rc, o = run(["git", "-C", "/repo", "status", "--porcelain"]); assert o.strip() == "", "/repo is not clean"
rc, o = run(["git", "-C", "/repo", "apply", str(patch)]); assert rc == 0, o
t0 = time.time()
ev_file = Path(f"/verif/evidence/{pid.upper()}.json")
ev_saved = ev_file.read_text() if ev_file.exists() else None   # evidence must describe runs on the unchanged tree only
try:
    rc, o = run([PY, "/verif/tools/check.py", pid.upper(), "--tier", tier], cwd="/verif")
finally:
    run("git -C /repo checkout -- . && git -C /repo clean -fdq", cwd="/repo")
    if ev_saved is not None:
        ev_file.write_text(ev_saved)
lines = [l for l in o.splitlines() if l.startswith(("VIOLATION", "KNOWN-FINDING", "  ->"))]
viol = [l for l in lines if l.startswith("VIOLATION")]
print("check rc", rc, "in", round(time.time() - t0), "s"); print("\n".join(l[:400] for l in lines if not l.startswith("KNOWN")))
replay_text = None
for l in viol:
    p = l.split("replay=")[1].split()[0]
    if os.path.exists(p):
        replay_text = json.loads(open(p).read()); break
dest = Path(f"/verif/seeded/{name}"); dest.mkdir(parents=True, exist_ok=True)
shutil.copy(patch, dest / "patch.diff"); shutil.copy(demo, dest / demo.name)
for extra in out.iterdir():
    if extra.is_dir() and extra.name not in ("__pycache__",):
        shutil.copytree(extra, dest / extra.name, dirs_exist_ok=True, ignore=shutil.ignore_patterns("__pycache__"))
meta = json.loads((out / "meta.json").read_text()) if (out / "meta.json").exists() else {}
meta.update({"breaks_property": pid.upper(), "confirmation": res,
             "ran": f"git -C /repo apply seeded/{name}/patch.diff; tools/check.py {pid.upper()} --tier {tier}; git -C /repo checkout -- .",
             "check_exit_code": rc, "check_violation_lines": [l[:300] for l in viol],
             "detected": rc == 1 and bool(viol), "concrete_failing_input": bool(viol) and not all("no-failing-input-found" in l for l in viol),
             "replay_excerpt": {k: (str(v)[:400]) for k, v in (replay_text or {}).items() if k in ("key", "what", "query", "backend", "blocks", "difference", "broken")}})
(dest / "meta.json").write_text(json.dumps(meta, indent=1) + "\n")
print("stored", dest, "detected" if meta["detected"] else "MISSED")
