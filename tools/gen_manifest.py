#!/usr/bin/env python3
"""Writes MANIFEST.json from the table below (kept as code so that it stays valid and consistent)."""
import json
from pathlib import Path

V = Path(__file__).resolve().parents[1]
CHECKS = {
    "C15": dict(
        category="proof",
        text="Full functional correctness of generate_script_block proved in Coq for every finite block list (C15_ok, C15_err_sound, C15_err_complete, C15_merge, C15_merge_shape; closed under the global context) on a hand model tied to the code by an exhaustive-for-small-sizes plus random correspondence check of the extracted model against the real function and by end-to-end traces through the ATLAS executor and job-options template; an independent topological-order oracle on the implementation's output supplies the concrete failing input.",
        design_ref="5.15",
        note="Trusted: Coq kernel; hand model ScriptBlocks.v (dicts as one insertion-ordered association list); extraction (ExtrOcamlBasic, ExtrOcamlString), OCaml driver, S-expression codec; the correspondence is a differential test bounded by its generator; jinja2's for-loop rendering is validated on traces, not proved.",
        technique="Coq proof (induction over block list and loop passes) + model/implementation correspondence",
    ),
}
CHECKS["C12"] = dict(
    category="proof",
    text="The python-name -> (C++ name, header, return type) table, the README's documented list and the name-resolution environment are regenerated from /repo on every run; Coq proves by computation on that finite table that every documented name resolves (as find_known_functions resolves it) to a row calling its cmath namesake, including <cmath>, typed double and callable with query expressions (C12_all_documented), plus dict semantics for every table (C12_last_mapping_wins) and the refutation for remquo (known finding). End-to-end traces run every documented name through all three backends, standalone and inside arithmetic, and compare the emitted call with the model's row.",
    design_ref="5.12",
    note="Trusted: Coq kernel incl. vm_compute; the fail-closed translator mathtable.py (literal table rows, textual normal form of add_function_mapping and find_known_functions.visit_Call, README regex, builtins' __module__ from the interpreter); the hand-written <cmath> signature table; what each std:: function computes (C library). Traces are tests.",
    technique="Coq proof by computation over a table regenerated from source + end-to-end traces",
)
CHECKS["C16"] = dict(
    category="proof",
    text="The three runner.sh templates are parsed on every run by a fail-closed bash-subset translator (re-print self-test) into Gallina scripts interpreted by a total shell model (set -e, getopts, expansion, tests, abstract file system, tool table with a fault oracle). Coq proves for each script, for every argument list, every oracle nat->bool, every nonce, every environment and every world of the backend's family (never built / built with arbitrary leftovers and destination contents), every non-empty -d word and the -o words of Shell.dest_words: unknown flag -> exit 10 and no tool run, stray argument -> exit 1 (C16_flags_*); build tools iff not -r, job iff not -c, -d f the sole input, -o p the delivery place (C16_phases_*); a failing step -> exit != 0 and destinations unchanged (C16_fail_*, C16_nonzero_unchanged_*); exit 0 -> no failed step and this run's output at the destination (C16_ok_*); every invocation in every built world meets the specification (C16_histories_partial_*: closure of the family under runs is observed, not proved). Method: getopts loop = its summary (induction), a run depends on the oracle only up to its first failing step (mutual induction over the interpreter), tables evaluated by vm_compute with contents/words symbolic.",
    design_ref="5.16, 4.3, 4.4",
    note="Trusted: Coq kernel incl. vm_compute; translator shell.py; the hand-written bash model Shell.v, validated against real bash 5.2 running the unchanged scripts with stub tools in a chroot inside a private mount namespace (exit status, tool log and whole file tree compared after every invocation; flag sets x single failing steps x histories); the tool table as the meaning of a step (atomic failures reported by exit status); lexical paths; -o words from a finite alphabet; words with blanks/globs judged on bash only (defect c16:unquoted-input-word fixed by fixes/c16_quote_input_file.patch). Not covered: partial effects of crashing tools, xrdcp, closure of the built family in Coq.",
    technique="Coq proof by symbolic computation over regenerated scripts + induction over the shell interpreter (oracle collapse, getopts summary) + differential validation of the bash model against real bash",
)
NOT_YET = {}

def main():
    props = [json.loads(l) for l in (V / "properties.jsonl").read_text().splitlines() if l.strip()]
    checks = []
    na = []
    for p in props:
        pid = p["id"]
        if pid in CHECKS:
            c = CHECKS[pid]
            checks.append({
                "property_id": pid,
                "quick_cmd": f"/venv/bin/python tools/check.py {pid} --tier quick",
                "thorough_cmd": f"/venv/bin/python tools/check.py {pid} --tier thorough",
                "evidence_file": f"/verif/evidence/{pid}.json",
                "replay_cmd_template": f"/venv/bin/python tools/check.py {pid} --replay {{path}}",
                "engine": "coq-fv",
                "level_claimed": {"category": c["category"], "text": c["text"], "design_ref": c["design_ref"]},
                "level_note": c["note"],
                "technique": c["technique"],
            })
        else:
            na.append({"property_id": pid, "reason": NOT_YET.get(pid, "check not built yet in this development (planned in DESIGN.md section 5); not claimed until its model, theorems and tie exist")})
    m = {
        "version": 1,
        "setup_cmd": "/venv/bin/python tools/check.py setup",
        "hooks": {
            "guard": "FUNC_ADL_XAOD_VERIF",
            "enable": "no hook is compiled into /repo: the checks import the working tree directly (PYTHONPATH=/repo) and observe written packages and return values; the variable is set by tools/check.py for uniformity only",
            "baseline_off_cmd": "cd /repo && /venv/bin/python -m pytest -q -p no:cacheprovider --timeout=900",
            "source_commits": [],
            "add_only": True,
        },
        "engines": [{"name": "coq-fv", "path": "/verif/coq", "serves_properties": sorted(CHECKS), "kind_free_text": "Coq 8.16.1 development (models, proofs, regenerated artefacts) + extracted OCaml model + Python correspondence harness (tools/fv)"}],
        "checks": checks,
        "notes": "Every check rebuilds coq/gen from /repo, runs a full .vo build (make), re-checks Properties/<id>.v with Print Assumptions, then runs the correspondence of the hand models with the implementation. See DESIGN.md.",
        "not_applicable": na,
    }
    (V / "MANIFEST.json").write_text(json.dumps(m, indent=1) + "\n")

if __name__ == "__main__":
    main()
