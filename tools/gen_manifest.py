#!/usr/bin/env python3
"""Writes MANIFEST.json from the table below (kept as code so that it stays valid and consistent)."""
import json
from pathlib import Path

V = Path(__file__).resolve().parents[1]
CHECKS = {
    "C15": dict(
        category="proof",
        text="Full functional correctness of generate_script_block proved in Coq for every finite block list (C15_ok, C15_err_sound, C15_err_complete, C15_merge, C15_merge_shape; closed under the global context) on a hand model tied to the code by an exhaustive-for-small-sizes plus random correspondence check of the extracted model against the real function and by end-to-end traces through the ATLAS executor and job-options template; an independent topological-order oracle on the implementation's output supplies the concrete failing input.",
        design_ref="5.15",
        note="Trusted: Coq kernel; hand model ScriptBlocks.v (dicts as one insertion-ordered association list); extraction (ExtrOcamlBasic, ExtrOcamlString), OCaml driver, S-expression codec; the correspondence is a differential test bounded by its generator; jinja2's for-loop rendering is validated on traces, not proved.",
        technique="Coq proof (induction over block list and loop passes) + model/implementation correspondence",
    ),
}
CHECKS["C12"] = dict(
    category="proof",
    text="The python-name -> (C++ name, header, return type) table, the README's documented list and the name-resolution environment are regenerated from /repo on every run; Coq proves by computation on that finite table that every documented name resolves (as find_known_functions resolves it) to a row calling its cmath namesake, including <cmath>, typed double and callable with query expressions (C12_all_documented), plus dict semantics for every table (C12_last_mapping_wins) and the refutation for remquo (known finding). End-to-end traces run every documented name through all three backends, standalone and inside arithmetic, and compare the emitted call with the model's row.",
    design_ref="5.12",
    note="Trusted: Coq kernel incl. vm_compute; the fail-closed translator mathtable.py (literal table rows, textual normal form of add_function_mapping and find_known_functions.visit_Call, README regex, builtins' __module__ from the interpreter); the hand-written <cmath> signature table; what each std:: function computes (C library). Traces are tests.",
    technique="Coq proof by computation over a table regenerated from source + end-to-end traces",
)
CHECKS["C08"] = dict(
    category="proof",
    text="Partial. Proved in Coq over a hand model of the repository's own binding machinery (func_adl argument_stack as driven by visit_Call_Lambda / visit_Name / resolve_id, and the name-keyed rewriters cpp_ast_finder / find_known_functions): lexically alpha-equivalent queries (any renaming of lambda parameters, shadowing appearing or disappearing) resolve to the same nameless term whenever no lambda is applied directly to an unevaluated argument (C08_alpha_partial, C08_alpha_open); every consistent injective renaming leaves the resolved term unchanged for the whole model, dynamic scoping included (C08_rename, C08_rename_general); the rewriters commute with renamings that respect the table of rewritten names and keep the fragment (C08_rewrite_name_keyed, C08_rewrite_no_app, C08_pipeline_rename); anything computed from the resolved term inherits this (C08_translation_invariant). Full alpha-invariance is refuted for the faithful model (C08_alpha_refuted: dynamic scoping of visit_Call_Lambda; C08_known_function_param_refuted: rewriters ignore binding) and both witnesses are replayed on the implementation (known findings). Invariance under the qastle round trip, MetaData placement and hand fusion is NOT proved (third-party qastle / func_adl): it is tested differentially on generated queries over the three back ends, and reported as tests.",
    design_ref="5.8",
    note="Trusted: Coq kernel (vm_compute only in the two refutation witnesses and the Examples); the hand model Binding.v (names only: C++ statements, types, rep caching and node sharing are abstracted; a lambda that is not applied directly is modelled as applied to closed translator values); extraction + OCaml driver + S-expression codec; the correspondence (model-resolved term printed back as a query with unique names vs. the original query, whole pipeline, equal normalised packages) is a differential test bounded by its generator; the four variant comparisons are tests of third-party code. Known findings: direct-application capture, func_adl fusion capture, First() diagnostic quoting parameter names, parameters named like known functions / operators.",
    technique="Coq proof over a hand model (nameless resolution, environment-based alpha-equivalence) + black-box model correspondence + differential variant testing",
)
NOT_YET = {}

def main():
    props = [json.loads(l) for l in (V / "properties.jsonl").read_text().splitlines() if l.strip()]
    checks = []
    na = []
    for p in props:
        pid = p["id"]
        if pid in CHECKS:
            c = CHECKS[pid]
            checks.append({
                "property_id": pid,
                "quick_cmd": f"/venv/bin/python tools/check.py {pid} --tier quick",
                "thorough_cmd": f"/venv/bin/python tools/check.py {pid} --tier thorough",
                "evidence_file": f"/verif/evidence/{pid}.json",
                "replay_cmd_template": f"/venv/bin/python tools/check.py {pid} --replay {{path}}",
                "engine": "coq-fv",
                "level_claimed": {"category": c["category"], "text": c["text"], "design_ref": c["design_ref"]},
                "level_note": c["note"],
                "technique": c["technique"],
            })
        else:
            na.append({"property_id": pid, "reason": NOT_YET.get(pid, "check not built yet in this development (planned in DESIGN.md section 5); not claimed until its model, theorems and tie exist")})
    m = {
        "version": 1,
        "setup_cmd": "/venv/bin/python tools/check.py setup",
        "hooks": {
            "guard": "FUNC_ADL_XAOD_VERIF",
            "enable": "no hook is compiled into /repo: the checks import the working tree directly (PYTHONPATH=/repo) and observe written packages and return values; the variable is set by tools/check.py for uniformity only",
            "baseline_off_cmd": "cd /repo && /venv/bin/python -m pytest -q -p no:cacheprovider --timeout=900",
            "source_commits": [],
            "add_only": True,
        },
        "engines": [{"name": "coq-fv", "path": "/verif/coq", "serves_properties": sorted(CHECKS), "kind_free_text": "Coq 8.16.1 development (models, proofs, regenerated artefacts) + extracted OCaml model + Python correspondence harness (tools/fv)"}],
        "checks": checks,
        "notes": "Every check rebuilds coq/gen from /repo, runs a full .vo build (make), re-checks Properties/<id>.v with Print Assumptions, then runs the correspondence of the hand models with the implementation. See DESIGN.md.",
        "not_applicable": na,
    }
    (V / "MANIFEST.json").write_text(json.dumps(m, indent=1) + "\n")

if __name__ == "__main__":
    main()
