#!/usr/bin/env python3
"""Writes MANIFEST.json from the table below (kept as code so that it stays valid and consistent)."""
import json
from pathlib import Path

V = Path(__file__).resolve().parents[1]
CHECKS = {
    "C15": dict(
        category="proof",
        text="Full functional correctness of generate_script_block proved in Coq for every finite block list (C15_ok, C15_err_sound, C15_err_complete, C15_merge, C15_merge_shape; closed under the global context) on a hand model tied to the code by an exhaustive-for-small-sizes plus random correspondence check of the extracted model against the real function and by end-to-end traces through the ATLAS executor and job-options template; an independent topological-order oracle on the implementation's output supplies the concrete failing input.",
        design_ref="5.15",
        note="Trusted: Coq kernel; hand model ScriptBlocks.v (dicts as one insertion-ordered association list); extraction (ExtrOcamlBasic, ExtrOcamlString), OCaml driver, S-expression codec; the correspondence is a differential test bounded by its generator; jinja2's for-loop rendering is validated on traces, not proved.",
        technique="Coq proof (induction over block list and loop passes) + model/implementation correspondence",
    ),
}
CHECKS["C12"] = dict(
    category="proof",
    text="The python-name -> (C++ name, header, return type) table, the README's documented list and the name-resolution environment are regenerated from /repo on every run; Coq proves by computation on that finite table that every documented name resolves (as find_known_functions resolves it) to a row calling its cmath namesake, including <cmath>, typed double and callable with query expressions (C12_all_documented), plus dict semantics for every table (C12_last_mapping_wins) and the refutation for remquo (known finding). End-to-end traces run every documented name through all three backends, standalone and inside arithmetic, and compare the emitted call with the model's row.",
    design_ref="5.12",
    note="Trusted: Coq kernel incl. vm_compute; the fail-closed translator mathtable.py (literal table rows, textual normal form of add_function_mapping and find_known_functions.visit_Call, README regex, builtins' __module__ from the interpreter); the hand-written <cmath> signature table; what each std:: function computes (C library). Traces are tests.",
    technique="Coq proof by computation over a table regenerated from source + end-to-end traces",
)
CHECKS["C09"] = dict(
    category="proof",
    text="Fail-closed refusal proved in Coq on a kind-level hand model of the translator's visitor and the executor's top-level checks (KindModel.v): every documented unsupported construct (unknown binary/unary operator, comparison chain, slice, unimplemented Aggregate forms, any Python node class without a visitor, unknown function, bare lambda, unknown constant type) is 'always erroneous', and an always-erroneous construct makes translation return an error in EVERY strict context at any depth, for every registry, frame stack and fuel (C09_refuses_at_any_position, C09_no_package; conditional refusals for value-as-sequence, arithmetic on a sequence, column-count mismatch; C09_kwargs_ignored_refuted for the known finding). Tie: the extracted model and the implementation are run on the same ASTs (serialised after apply_ast_transformations) for valid generated queries and for a malformed stream of 30 graft classes at random positions on all three backends; verdicts and exception classes are compared; a grafted query the implementation accepts is the concrete failing input.",
    design_ref="5.9",
    note="Trusted: Coq kernel; hand model KindModel.v (kinds only - no scopes, no C++ text; lazily resolved lambda arguments mirrored with fuel, theorems hold for every fuel); AST/registry serialiser astser.py; extraction + OCaml driver; func_adl/qastle front end and metadata processing run before the modelled part (their refusals are observed, not modelled here); correspondence and graft stream are differential tests bounded by their generators. Known findings: keyword arguments dropped, raw object columns accepted.",
    technique="Coq proof (induction over strict contexts of a kind-level translator model) + model/implementation correspondence on valid and grafted queries",
)
CHECKS["C13"] = dict(
    category="proof",
    text="For an arbitrary floating type (no law assumed) Coq proves, over a hand model of visit_BinOp/visit_UnaryOp/visit_Compare/visit_IfExp/aggregate typing/set_var casts and operator tables regenerated from /repo, that the emitted C++ expression - evaluated with explicit integral promotion, usual arithmetic conversions, 32-bit ints and the std::pow overload rule - yields the value Python computes on the declared types and that Python's result type is the declared one: per operator (C13_binop_partial, C13_binop_inline, C13_pow, C13_unary_partial, C13_compare, C13_conditional), for whole nested expressions by induction (C13_expression), accumulator width (C13_acc_width, C13_aggregate_fold) and C13_int_stays_int. Partial exactly where the code is wrong or refuses, each with a refutation theorem and a known finding: float %, boolean operands, unary minus on a boolean, conditional declared double; int/int true division is refuted for the old emission and fixed. Tie: exhaustive operator x operand-kind table and random nested expressions through all three executors compared with the extracted model; independent oracle: the emitted expressions compiled with g++ and compared with the Python interpreter's own arithmetic.",
    design_ref="5.13",
    note="Trusted: Coq kernel; hand models in Arith.v of the translator (tied by correspondence), of C++ expression evaluation (validated against g++ in every run) and of Python's operators on declared types (validated against the interpreter); the printer's full parenthesisation; optables.py; floating-point operations are abstract (both sides use the same ones; float arithmetic = binary64 result rounded once). Side conditions: operands carry their declared types, ints fit 32 bits, divisor non-zero, % on non-negative ints.",
    technique="Coq proof over an abstract floating type (case analysis per operator and operand types, induction over expressions and folds) + regenerated tables + model/implementation correspondence + g++/Python differential oracle",
)
CHECKS["C11"] = dict(
    category="proof",
    text="Coq proves, for every list of identifier names, every argument text and every line, that the one-pass substitution of cpp_ast.replace_whole_words (Python re.sub with an ordered alternation between word boundaries and a function replacement, modelled incl. the empty-match rule) equals the property's specification: split the line into maximal word / non-word runs, map the runs that are formal names through the argument map simultaneously, concatenate (subst_is_simultaneous, C11_tokens_are_maximal_runs, C11_tokenwise, C11_other_text_unaltered); that a call site accepted by build_CPPCodeValue binds every parameter and the method object, puts the substituted lines in their own block ending in `result_var = result;`, declares the result variable with the declared value/collection type in the enclosing scope and adds the include files (C11_call_site); that wrong arity or call style is rejected with ValueError and nothing else is (C11_rejects, C11_accepts); freshness of the result variable per function (C11_result_var_fresh_partial) and its refutation across functions whose name ends in a digit (C11_result_var_fresh_refuted, known finding); and that the former per-name loop with the argument text as re template violates the property (C11_sequential_refuted, C11_template_refuted). Tied to the code by correspondence of the extracted model with Python re, with build_CPPCodeValue + process_ast_node run on the real generated_code, with cpp_ast_finder, and by end-to-end traces through the three executors (metadata functions, DeltaR, getAttributeFloat/VectorFloat; nested and repeated calls); an independent tokenise-and-map oracle on the emitted blocks supplies the failing query.",
    design_ref="5.11",
    note="Trusted: Coq kernel; hand model WordSubst.v (re.sub scan for the two pattern shapes, re replacement templates, cpp_ast.py, unique_name, arbitrary_statement, set_var, block.emit); Python's re itself; ASCII word characters; extraction, OCaml driver, S-expression codec; the stub visitor of the function-level correspondence (argument text is an arbitrary string in the theorems); parse_type/terminal rendering (C10). cpp_ast_finder is modelled and differentially tested, not the subject of a theorem. Correspondence and traces are tests bounded by their generators.",
    technique="Coq proof (strong induction over the line by leading runs; refinement of a regex scan to a tokeniser) + model/implementation correspondence + end-to-end traces",
)
CHECKS["C17"] = dict(
    category="proof",
    text="Local docker execution (LocalDataset.__init__, execute_result_async, _extract_result_TTree and the three backend subclasses) is modelled as a pure function of file list, constructor arguments, environment, metadata, translator outcome and a scripted container; Coq proves for every file list / metadata list / chunk list that a missing file, no file, files from two directories or a refused query raise before any docker.run call (C17_precheck, C17_translation_error), that otherwise docker.run is called exactly once with the image named by the last docker metadata entry else image:tag, command /scripts/<runner>, the package at /scripts (ro) and /results (rw), the absolute data directory at /data/ (ro) plus the backend's cache volumes, and filelist.txt = /data/<name> per file in order (C17_call, C17_image), that a DockerException at the call or after any chunk, a missing result file or output directory give an exception and success gives exactly [out_dir/ANALYSIS.root] (C17_outcome), and conversely that a path is returned only after one complete successful run (C17_no_result_unless_success). The model is tied to the code by running the real classes of all three backends against a vendored stand-in python_on_whales on generated scenarios; an independent oracle evaluates the property text on the recorded call, the files the container saw and the return value. Removal of the temporary directory is tested on every path, not proved.",
    design_ref="5.17",
    note="Trusted: Coq kernel; hand model LocalDataset.v (package generation abstract, pathlib parent/name split and path equality as given, log text not modelled); the stand-in python_on_whales (tools/stubs) reproduces the documented streaming behaviour of docker.run and docker's rule that a relative volume source is a volume name; extraction, OCaml driver, S-expression codec; the correspondence is a differential test bounded by its generator; tempfile.TemporaryDirectory's cleanup is a library contract checked by listing the temp root after every run.",
    technique="Coq proof (induction over file / metadata / chunk lists) + model/implementation correspondence with a stand-in docker client + property oracle on recorded calls",
)
CHECKS["C10"] = dict(
    category="proof",
    text="Coq theorems over a hand model of the declared-type machinery, for all type strings, pointer depths (nat) and deref counts (Z): parse_type is characterised completely (C10_parse_type_spec/_decomposition/_total/_roundtrip); the member-access text is '.', '->' or k times '(*..)' then '->' for total indirection d (C10_access_spec) and, in a pointer model with built-in pointers and classes overloading * and ->, is well typed exactly when the receiver is d-fold indirect and dereferences d times (C10_access_typed, C10_access_typed_declared, C10_well_typed_access_counts); after any metadata list the lookup is the last declaration, absent -> (double, 0) with one warning, numeric receiver -> error (C10_registry, C10_declared_value/_collection); calls/attributes render access+name and carry the looked-up type over all chains (C10_call_use, C10_attribute_use, C10_chain_invariant, C10_warnings_only_for_undeclared); collections are iterated/indexed with their element type (C10_collection_iterated/_indexed); enum values render ns1::..::nsk::v and resolve through the namespace registry (C10_enum_*); columns carry the declared (tree) type (C10_column_*, C10_declared_types_flow); one refutation recorded as known finding (C10_pointer_column_store_refuted). All closed under the global context. Tie: function-level and end-to-end correspondence of the extracted model with the real code on exhaustive grids and random declarations/chains through all three executors (loop headers, stored expression, declared column type, logged warnings, exception class).",
    design_ref="5.10",
    note="Trusted: Coq kernel; hand model CppTypesModel.v (dict-of-dict as association list, namespace tree as list of enum definitions, ASCII type names); the pointer-type model of C++ member access (validated by g++ -fsyntax-only on classes generated from the same declarations in the thorough tier); extraction + OCaml driver + S-expression codec; the correspondence is a differential test bounded by its generators; an independent text oracle (parser + dereference counting against the declarations) supplies failing inputs. Not covered: collections handed over behind two or more pointers (outside the property's declared space; one dereference is emitted), data members declared as collections (visit_Attribute never yields a collection representation), const-qualified value elements.",
    technique="Coq proof (induction over strings, metadata lists and call chains; small typed pointer model) + model/implementation correspondence + g++ syntax check",
)
CHECKS["C07"] = dict(
    category="proof",
    text="The state a process carries from one query to the next (method-type registry, enum/namespace registry, name counter, per-executor job-script / inject blocks, registered and found extended metadata, the shared default-argument dict) and the wrapper flow apply_ast_transformations -> write_cpp_files -> reset are modelled as a state machine around a universally quantified translator. Coq proves for every finite history, every backend mixture and every stage at which a query may raise that each handled query ends in the default state (C07_every_handle_ends_clean), and from it that for a process serving one backend the probe's package-or-error and found metadata equal, up to the numbering of generated names, those of the probe as first query of a fresh process (C07_independent_partial; the full statement is refuted for mixed backends, C07_independent_refuted = known finding). Four refutation theorems show the wrapper before the fix commit violated the property and that each part of the fix is needed. Histories are run against the real code in fresh interpreters; the probe is compared with the same probe in another fresh interpreter (concrete failing input) and every operation's registries with the extracted model.",
    design_ref="5.7",
    note="Trusted: Coq kernel (vm_compute only in witness lemmas); hand model ExecState.v; the translator is abstract and assumed to depend on the name counter only by renaming (explicit premise); completeness of the state inventory is tested, not proved - a new global in /repo is caught only by the differential histories; extraction, OCaml driver, S-expression codec; the correspondence reads (never writes) the registries and executor attributes; python_on_whales is stubbed to import DockerImageSpecification.",
    technique="Coq proof (state-machine invariant by case analysis on the raising stage, lifted over fold_left) + differential histories in fresh interpreters",
)
CHECKS["C05"] = dict(
    category="proof",
    text="Coq-defined static analysis event_local of the emitted per-event program (no expression reads a class member; abstract interpretation of member levels clean/set/guarded-by-a-local-flag/unknown with joins and loop invariants; every booked column set before each Fill, every vector member cleared on every non-faulting path) with a soundness theorem over ALL events, member states left by earlier events and event lists: run_job equals the per-event job (rows per event, abort position and fault), hence permutation and split invariance (event_local_sound, C05_job_per_event, C05_rows_per_event, C05_abort_prefix, C05_permutation, C05_split; refutations for a missing clear, a column assigned only inside a loop, and the known terminal-after-SelectMany shape). The extracted checker runs on the program the implementation emits for every generated query on all three backends, next to a reference-free search (one job vs. each event alone, permutations, doubled list, split) that yields the concrete failing event list.",
    design_ref="5.5",
    note="Proved: quantifiers over events, histories, event lists. Sampled: the quantifier over queries (translation validation of the emitted program; counts and feature histogram in the evidence). Trusted: Coq kernel; Cpp/Exec.v as the model of the emitted C++ subset; the fail-closed parser of the emitted text (re-print compared with the emitted lines); user C++ blocks and math functions as functions of their arguments; extraction and the OCaml driver.",
    technique="verified static checker (relational two-run proof by mutual induction) + translation validation + differential multi-context execution",
)
CHECKS["C14"] = dict(
    category="proof",
    text="The InjectCodeBlock field list, the _ib_fetch properties, the info[...] wiring of write_cpp_files, the file lists of the three executors and every template they render (mini-Jinja parse) are regenerated from /repo on every run. Coq proves for every configuration that a template with a slot renders as (text before) ++ (query's own items) ++ (every line of the field, kept blocks in order, lines in order, each wrapped by the static text of the loop body, verbatim) ++ (text after), and that nothing else in the package depends on those lines (regions_generic); by computation on the regenerated value that every dataclass field has exactly one such slot in the ATLAS package at its documented place and that both CMS backends have the body-include slot (C14_all_fields_have_slot, C14_regions, C14_cms_body_includes); and for the hand model of process_metadata that the kept blocks are the first block of each name in order iff same-name blocks are identical, that a conflict, an unknown field or a missing name is ValueError and nothing else is (C14_dedup, C14_dedup_once, C14_dedup_conflict, C14_unknown_field, C14_error_class). The extracted model is compared, whole package, with what the three real executors write for generated metadata lists; an independent oracle of the property text checks the implementation's files by hand-written anchors.",
    design_ref="5.14",
    note="Trusted: Coq kernel incl. vm_compute; the fail-closed translator templates.py (mini-Jinja parser self-tested against jinja2, Python ast of the dataclass / executor wiring / backend executors; normal forms of _ib_fetch, _copy_template_file and the render loop compared textually); jinja2's insertion semantics (hand model, validated by the whole-package comparison on lines containing template syntax, quotes, backslashes, <>&, non-ASCII, newlines); the hand-written documented-place table; extraction and the OCaml driver. The correspondence and the oracle are tests bounded by the generator. Metadata values other than str / list of str are out of scope.",
    technique="Coq proof (generic lemmas over the template AST + computation over artefacts regenerated from source) + differential whole-package comparison + anchor-based oracle",
)
CHECKS["C02"] = dict(
    category="proof",
    text="Coq proves, for ALL programs of the C++-subset IR, all events, all member states and all event sequences, that the static checkers are sound for the execution semantics: well_scoped (every occurrence refers to a member, an enclosing block's declaration made earlier, or an enclosing loop variable) excludes every stuck-on-unbound-name outcome of run_event/run_job; unique_decls (NoDup of members, block declarations and loop variables) implies that at every program position no binding is shadowed (lookup returns the unique declaration); types_ok excludes push_back/clear on a non-vector and % with a floating operand; refutation witnesses by computation for use-outside-block, read-before-declaration, duplicate member, % on double. The for-all-queries part is SAMPLED (translation validation): the extracted checkers run on the program parsed, with a printed-back round trip, from what the current translator emits for generated queries (all feature classes, three backends); completeness of the file set, the 0o755 mode, residual template directives, the slot/file tie and booking lines are runtime facts that are tested; in the thorough tier g++ -fsyntax-only against a stand-in data model generated from the declared universe is the independent oracle of 'compilable' and validates the checkers (agreement counts in the evidence).",
    design_ref="5.2",
    note="Level: proof of checker soundness + translation validation of sampled queries (not a proof about the translator). Trusted: Coq kernel; Cpp/IR.v + Cpp/Exec.v as the meaning of the emitted subset; the fail-closed emitted-text parser (every program is re-printed by the extracted printer and compared with the emitted lines); extraction + OCaml driver; qgen generator bounds; g++ 12 and the generated stand-in headers (the real ATLAS/CMS headers are absent: 'as declared'). types_ok_sound assumes events respect the declared method types (ev_ok). The generic template-rendering theorem is C14's.",
    technique="Coq proof (mutual induction over stmt/block/stmts with a static-scope/dynamic-frames invariant) + verified-checker translation validation + g++ oracle",
)
CHECKS["C04"] = dict(
    category="proof",
    text="Coq theorems over the translator's lowering schemas (Gallina functions mirroring visit_BoolOp, visit_IfExp, call_Where, call_First, visit_Subscript and the isNonnull guard) in the big-step semantics of the emitted C++ subset, each for ALL sub-fragments (operand blocks, arms, guarded code, guard expressions) x all events x all states: once an and/or result is absorbing none of the remaining operand blocks runs (n operands, by induction), otherwise exactly the next one does; exactly the taken arm of a conditional runs and leaves its value as a double; a false Where predicate executes nothing of what follows; the First fragment faults iff no element passes its guards and otherwise behaves exactly as one run of the body on the first passing element; at() faults iff the index is out of range; a call through a null link faults and is not evaluated under a false non-null flag. The for-all-QUERIES part is sampled: extracted Coq recognisers check, for every generated query on three backends, that each bool_op/if_else_result/is_first/is_non_null variable of the emitted program is an instance of its schema, and the Coq-defined executor is run against the query's reference semantics on events designed to trigger or not trigger each fault.",
    design_ref="5.4",
    note="Proved: schema theorems (all sub-fragments/events/states), closed under the global context. Sampled, not proved: that every accepted query is lowered to schema instances (recognisers + differential on generated queries; counts and feature histogram in the evidence). Trusted: Exec.v as the model of the C++ subset, the fail-closed parser of the emitted text (round trip checked per case), extraction, the Python reference semantics (eager), the stand-in for nullable links and for the injected isNonnull block. Known findings: First/Count after a non-top-level SelectMany; First bound in a tuple and used only under a false guard (job lazier than the eager query). cms_miniaod's differential needs the two C06 repairs (skipped with a note otherwise; recognisers still run).",
    technique="Coq schema theorems + extracted recognisers (translation validation) + differential execution on fault-designed events",
)
NOT_YET = {}

def main():
    props = [json.loads(l) for l in (V / "properties.jsonl").read_text().splitlines() if l.strip()]
    checks = []
    na = []
    for p in props:
        pid = p["id"]
        if pid in CHECKS:
            c = CHECKS[pid]
            checks.append({
                "property_id": pid,
                "quick_cmd": f"/venv/bin/python tools/check.py {pid} --tier quick",
                "thorough_cmd": f"/venv/bin/python tools/check.py {pid} --tier thorough",
                "evidence_file": f"/verif/evidence/{pid}.json",
                "replay_cmd_template": f"/venv/bin/python tools/check.py {pid} --replay {{path}}",
                "engine": "coq-fv",
                "level_claimed": {"category": c["category"], "text": c["text"], "design_ref": c["design_ref"]},
                "level_note": c["note"],
                "technique": c["technique"],
            })
        else:
            na.append({"property_id": pid, "reason": NOT_YET.get(pid, "check not built yet in this development (planned in DESIGN.md section 5); not claimed until its model, theorems and tie exist")})
    m = {
        "version": 1,
        "setup_cmd": "/venv/bin/python tools/check.py setup",
        "hooks": {
            "guard": "FUNC_ADL_XAOD_VERIF",
            "enable": "no hook is compiled into /repo: the checks import the working tree directly (PYTHONPATH=/repo) and observe written packages and return values; the variable is set by tools/check.py for uniformity only",
            "baseline_off_cmd": "cd /repo && /venv/bin/python -m pytest -q -p no:cacheprovider --timeout=900",
            "source_commits": [],
            "add_only": True,
        },
        "engines": [{"name": "coq-fv", "path": "/verif/coq", "serves_properties": sorted(CHECKS), "kind_free_text": "Coq 8.16.1 development (models, proofs, regenerated artefacts) + extracted OCaml model + Python correspondence harness (tools/fv)"}],
        "checks": checks,
        "notes": "Every check rebuilds coq/gen from /repo, runs a full .vo build (make), re-checks Properties/<id>.v with Print Assumptions, then runs the correspondence of the hand models with the implementation. See DESIGN.md.",
        "not_applicable": na,
    }
    (V / "MANIFEST.json").write_text(json.dumps(m, indent=1) + "\n")

if __name__ == "__main__":
    main()
