#!/usr/bin/env python3
"""Writes MANIFEST.json from the table below (kept as code so that it stays valid and consistent)."""
import json
from pathlib import Path

V = Path(__file__).resolve().parents[1]
CHECKS = {
    "C15": dict(
        category="proof",
        text="Full functional correctness of generate_script_block proved in Coq for every finite block list (C15_ok, C15_err_sound, C15_err_complete, C15_merge, C15_merge_shape; closed under the global context) on a hand model tied to the code by an exhaustive-for-small-sizes plus random correspondence check of the extracted model against the real function and by end-to-end traces through the ATLAS executor and job-options template; an independent topological-order oracle on the implementation's output supplies the concrete failing input.",
        design_ref="5.15",
        note="Trusted: Coq kernel; hand model ScriptBlocks.v (dicts as one insertion-ordered association list); extraction (ExtrOcamlBasic, ExtrOcamlString), OCaml driver, S-expression codec; the correspondence is a differential test bounded by its generator; jinja2's for-loop rendering is validated on traces, not proved.",
        technique="Coq proof (induction over block list and loop passes) + model/implementation correspondence",
    ),
}
CHECKS["C12"] = dict(
    category="proof",
    text="The python-name -> (C++ name, header, return type) table, the README's documented list and the name-resolution environment are regenerated from /repo on every run; Coq proves by computation on that finite table that every documented name resolves (as find_known_functions resolves it) to a row calling its cmath namesake, including <cmath>, typed double and callable with query expressions (C12_all_documented), plus dict semantics for every table (C12_last_mapping_wins) and the refutation for remquo (known finding). End-to-end traces run every documented name through all three backends, standalone and inside arithmetic, and compare the emitted call with the model's row.",
    design_ref="5.12",
    note="Trusted: Coq kernel incl. vm_compute; the fail-closed translator mathtable.py (literal table rows, textual normal form of add_function_mapping and find_known_functions.visit_Call, README regex, builtins' __module__ from the interpreter); the hand-written <cmath> signature table; what each std:: function computes (C library). Traces are tests.",
    technique="Coq proof by computation over a table regenerated from source + end-to-end traces",
)
CHECKS["C04"] = dict(
    category="proof",
    text="Coq theorems over the translator's lowering schemas (Gallina functions mirroring visit_BoolOp, visit_IfExp, call_Where, call_First, visit_Subscript and the isNonnull guard) in the big-step semantics of the emitted C++ subset, each for ALL sub-fragments (operand blocks, arms, guarded code, guard expressions) x all events x all states: once an and/or result is absorbing none of the remaining operand blocks runs (n operands, by induction), otherwise exactly the next one does; exactly the taken arm of a conditional runs and leaves its value as a double; a false Where predicate executes nothing of what follows; the First fragment faults iff no element passes its guards and otherwise behaves exactly as one run of the body on the first passing element; at() faults iff the index is out of range; a call through a null link faults and is not evaluated under a false non-null flag. The for-all-QUERIES part is sampled: extracted Coq recognisers check, for every generated query on three backends, that each bool_op/if_else_result/is_first/is_non_null variable of the emitted program is an instance of its schema, and the Coq-defined executor is run against the query's reference semantics on events designed to trigger or not trigger each fault.",
    design_ref="5.4",
    note="Proved: schema theorems (all sub-fragments/events/states), closed under the global context. Sampled, not proved: that every accepted query is lowered to schema instances (recognisers + differential on generated queries; counts and feature histogram in the evidence). Trusted: Exec.v as the model of the C++ subset, the fail-closed parser of the emitted text (round trip checked per case), extraction, the Python reference semantics (eager), the stand-in for nullable links and for the injected isNonnull block. Known findings: First/Count after a non-top-level SelectMany; First bound in a tuple and used only under a false guard (job lazier than the eager query). cms_miniaod's differential needs the two C06 repairs (skipped with a note otherwise; recognisers still run).",
    technique="Coq schema theorems + extracted recognisers (translation validation) + differential execution on fault-designed events",
)
NOT_YET = {}

def main():
    props = [json.loads(l) for l in (V / "properties.jsonl").read_text().splitlines() if l.strip()]
    checks = []
    na = []
    for p in props:
        pid = p["id"]
        if pid in CHECKS:
            c = CHECKS[pid]
            checks.append({
                "property_id": pid,
                "quick_cmd": f"/venv/bin/python tools/check.py {pid} --tier quick",
                "thorough_cmd": f"/venv/bin/python tools/check.py {pid} --tier thorough",
                "evidence_file": f"/verif/evidence/{pid}.json",
                "replay_cmd_template": f"/venv/bin/python tools/check.py {pid} --replay {{path}}",
                "engine": "coq-fv",
                "level_claimed": {"category": c["category"], "text": c["text"], "design_ref": c["design_ref"]},
                "level_note": c["note"],
                "technique": c["technique"],
            })
        else:
            na.append({"property_id": pid, "reason": NOT_YET.get(pid, "check not built yet in this development (planned in DESIGN.md section 5); not claimed until its model, theorems and tie exist")})
    m = {
        "version": 1,
        "setup_cmd": "/venv/bin/python tools/check.py setup",
        "hooks": {
            "guard": "FUNC_ADL_XAOD_VERIF",
            "enable": "no hook is compiled into /repo: the checks import the working tree directly (PYTHONPATH=/repo) and observe written packages and return values; the variable is set by tools/check.py for uniformity only",
            "baseline_off_cmd": "cd /repo && /venv/bin/python -m pytest -q -p no:cacheprovider --timeout=900",
            "source_commits": [],
            "add_only": True,
        },
        "engines": [{"name": "coq-fv", "path": "/verif/coq", "serves_properties": sorted(CHECKS), "kind_free_text": "Coq 8.16.1 development (models, proofs, regenerated artefacts) + extracted OCaml model + Python correspondence harness (tools/fv)"}],
        "checks": checks,
        "notes": "Every check rebuilds coq/gen from /repo, runs a full .vo build (make), re-checks Properties/<id>.v with Print Assumptions, then runs the correspondence of the hand models with the implementation. See DESIGN.md.",
        "not_applicable": na,
    }
    (V / "MANIFEST.json").write_text(json.dumps(m, indent=1) + "\n")

if __name__ == "__main__":
    main()
