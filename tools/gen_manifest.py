#!/usr/bin/env python3
"""Writes MANIFEST.json from the table below (kept as code so that it stays valid and consistent)."""
import json
from pathlib import Path

V = Path(__file__).resolve().parents[1]
CHECKS = {
    "C15": dict(
        category="proof",
        text="Full functional correctness of generate_script_block proved in Coq for every finite block list (C15_ok, C15_err_sound, C15_err_complete, C15_merge, C15_merge_shape; closed under the global context) on a hand model tied to the code by an exhaustive-for-small-sizes plus random correspondence check of the extracted model against the real function and by end-to-end traces through the ATLAS executor and job-options template; an independent topological-order oracle on the implementation's output supplies the concrete failing input.",
        design_ref="5.15",
        note="Trusted: Coq kernel; hand model ScriptBlocks.v (dicts as one insertion-ordered association list); extraction (ExtrOcamlBasic, ExtrOcamlString), OCaml driver, S-expression codec; the correspondence is a differential test bounded by its generator; jinja2's for-loop rendering is validated on traces, not proved.",
        technique="Coq proof (induction over block list and loop passes) + model/implementation correspondence",
    ),
}
CHECKS["C12"] = dict(
    category="proof",
    text="The python-name -> (C++ name, header, return type) table, the README's documented list and the name-resolution environment are regenerated from /repo on every run; Coq proves by computation on that finite table that every documented name resolves (as find_known_functions resolves it) to a row calling its cmath namesake, including <cmath>, typed double and callable with query expressions (C12_all_documented), plus dict semantics for every table (C12_last_mapping_wins) and the refutation for remquo (known finding). End-to-end traces run every documented name through all three backends, standalone and inside arithmetic, and compare the emitted call with the model's row.",
    design_ref="5.12",
    note="Trusted: Coq kernel incl. vm_compute; the fail-closed translator mathtable.py (literal table rows, textual normal form of add_function_mapping and find_known_functions.visit_Call, README regex, builtins' __module__ from the interpreter); the hand-written <cmath> signature table; what each std:: function computes (C library). Traces are tests.",
    technique="Coq proof by computation over a table regenerated from source + end-to-end traces",
)
CHECKS["C03"] = dict(
    category="proof",
    text="Schema: for every backend, terminal form (dict | tuple | list | bare | AsROOTTTree with any names), column list and name-counter value, Coq proves on a hand model of get_as_ROOT / call_ResultTTree / get_ttree_type / unique_name / class_declaration_code / book_*_ttree.emit that the booked branch names are exactly the names the final expression gives, in order, each column typed by its element type (value | vector | vector of vectors; structures refused) and declared as a class member, the tree is <prefix>_tree or the given one, the descriptor is (ANALYSIS.root, tree), a column/label count mismatch is RuntimeError (C03_schema, C03_mismatch, C03_types, ...); class variables are proved pairwise distinct for names not ending in a digit and refuted in general (known finding). Storage: a Coq-defined checker fill_consistent on the IR parsed from the emitted code is proved sound over the Exec semantics for all programs, events, member states and event sequences (every row has one entry per branch of the member's declared shape, Fill reads exactly the scoped column variables, vector columns are empty right after each Fill) and is run on the program the implementation emits for every generated query (queries are sampled). Output file: the constants of the three runner.sh, ATestRun_eljob.py, analyzer_cfg.py, copy_root_tree.C and the translator's file-name literal are regenerated on every run and Coq proves by computation that the descriptor's file is the one each backend's runner delivers.",
    design_ref="5.3",
    note="Trusted: Coq kernel incl. vm_compute; hand model TreeSchema.v tied to the code by a differential correspondence (booking lines, class declarations, descriptor, exception class) over structured terminal forms x column kinds x name lists x 3 backends and random queries; the input abstraction (column representation, name counter read off the first branch variable); IR/Exec stand-in C++ semantics and the fail-closed parser (round-trip checked); fail-closed regex translator outfile.py and the modelled meaning of the EventLoop / TFileService / cp naming; expression typing (int, /, conditional, comparison) is decided by an independent Python oracle on generated queries, not by a theorem; extraction and OCaml driver. ROOT itself is not run.",
    technique="Coq proof (schema theorems by induction over column lists; verified checker with soundness by mutual structural induction over the IR; computation on regenerated constants) + translation validation of the emitted program + model/implementation correspondence",
)
NOT_YET = {}

def main():
    props = [json.loads(l) for l in (V / "properties.jsonl").read_text().splitlines() if l.strip()]
    checks = []
    na = []
    for p in props:
        pid = p["id"]
        if pid in CHECKS:
            c = CHECKS[pid]
            checks.append({
                "property_id": pid,
                "quick_cmd": f"/venv/bin/python tools/check.py {pid} --tier quick",
                "thorough_cmd": f"/venv/bin/python tools/check.py {pid} --tier thorough",
                "evidence_file": f"/verif/evidence/{pid}.json",
                "replay_cmd_template": f"/venv/bin/python tools/check.py {pid} --replay {{path}}",
                "engine": "coq-fv",
                "level_claimed": {"category": c["category"], "text": c["text"], "design_ref": c["design_ref"]},
                "level_note": c["note"],
                "technique": c["technique"],
            })
        else:
            na.append({"property_id": pid, "reason": NOT_YET.get(pid, "check not built yet in this development (planned in DESIGN.md section 5); not claimed until its model, theorems and tie exist")})
    m = {
        "version": 1,
        "setup_cmd": "/venv/bin/python tools/check.py setup",
        "hooks": {
            "guard": "FUNC_ADL_XAOD_VERIF",
            "enable": "no hook is compiled into /repo: the checks import the working tree directly (PYTHONPATH=/repo) and observe written packages and return values; the variable is set by tools/check.py for uniformity only",
            "baseline_off_cmd": "cd /repo && /venv/bin/python -m pytest -q -p no:cacheprovider --timeout=900",
            "source_commits": [],
            "add_only": True,
        },
        "engines": [{"name": "coq-fv", "path": "/verif/coq", "serves_properties": sorted(CHECKS), "kind_free_text": "Coq 8.16.1 development (models, proofs, regenerated artefacts) + extracted OCaml model + Python correspondence harness (tools/fv)"}],
        "checks": checks,
        "notes": "Every check rebuilds coq/gen from /repo, runs a full .vo build (make), re-checks Properties/<id>.v with Print Assumptions, then runs the correspondence of the hand models with the implementation. See DESIGN.md.",
        "not_applicable": na,
    }
    (V / "MANIFEST.json").write_text(json.dumps(m, indent=1) + "\n")

if __name__ == "__main__":
    main()
