#!/usr/bin/env python3
"""Writes MANIFEST.json from the table below (kept as code so that it stays valid and consistent)."""
import json
from pathlib import Path

V = Path(__file__).resolve().parents[1]
CHECKS = {
    "C15": dict(
        category="proof",
        text="Full functional correctness of generate_script_block proved in Coq for every finite block list (C15_ok, C15_err_sound, C15_err_complete, C15_merge, C15_merge_shape; closed under the global context) on a hand model tied to the code by an exhaustive-for-small-sizes plus random correspondence check of the extracted model against the real function and by end-to-end traces through the ATLAS executor and job-options template; an independent topological-order oracle on the implementation's output supplies the concrete failing input.",
        design_ref="5.15",
        note="Trusted: Coq kernel; hand model ScriptBlocks.v (dicts as one insertion-ordered association list); extraction (ExtrOcamlBasic, ExtrOcamlString), OCaml driver, S-expression codec; the correspondence is a differential test bounded by its generator; jinja2's for-loop rendering is validated on traces, not proved.",
        technique="Coq proof (induction over block list and loop passes) + model/implementation correspondence",
    ),
}
CHECKS["C12"] = dict(
    category="proof",
    text="The python-name -> (C++ name, header, return type) table, the README's documented list and the name-resolution environment are regenerated from /repo on every run; Coq proves by computation on that finite table that every documented name resolves (as find_known_functions resolves it) to a row calling its cmath namesake, including <cmath>, typed double and callable with query expressions (C12_all_documented), plus dict semantics for every table (C12_last_mapping_wins) and the refutation for remquo (known finding). End-to-end traces run every documented name through all three backends, standalone and inside arithmetic, and compare the emitted call with the model's row.",
    design_ref="5.12",
    note="Trusted: Coq kernel incl. vm_compute; the fail-closed translator mathtable.py (literal table rows, textual normal form of add_function_mapping and find_known_functions.visit_Call, README regex, builtins' __module__ from the interpreter); the hand-written <cmath> signature table; what each std:: function computes (C library). Traces are tests.",
    technique="Coq proof by computation over a table regenerated from source + end-to-end traces",
)
CHECKS["C14"] = dict(
    category="proof",
    text="The InjectCodeBlock field list, the _ib_fetch properties, the info[...] wiring of write_cpp_files, the file lists of the three executors and every template they render (mini-Jinja parse) are regenerated from /repo on every run. Coq proves for every configuration that a template with a slot renders as (text before) ++ (query's own items) ++ (every line of the field, kept blocks in order, lines in order, each wrapped by the static text of the loop body, verbatim) ++ (text after), and that nothing else in the package depends on those lines (regions_generic); by computation on the regenerated value that every dataclass field has exactly one such slot in the ATLAS package at its documented place and that both CMS backends have the body-include slot (C14_all_fields_have_slot, C14_regions, C14_cms_body_includes); and for the hand model of process_metadata that the kept blocks are the first block of each name in order iff same-name blocks are identical, that a conflict, an unknown field or a missing name is ValueError and nothing else is (C14_dedup, C14_dedup_once, C14_dedup_conflict, C14_unknown_field, C14_error_class). The extracted model is compared, whole package, with what the three real executors write for generated metadata lists; an independent oracle of the property text checks the implementation's files by hand-written anchors.",
    design_ref="5.14",
    note="Trusted: Coq kernel incl. vm_compute; the fail-closed translator templates.py (mini-Jinja parser self-tested against jinja2, Python ast of the dataclass / executor wiring / backend executors; normal forms of _ib_fetch, _copy_template_file and the render loop compared textually); jinja2's insertion semantics (hand model, validated by the whole-package comparison on lines containing template syntax, quotes, backslashes, <>&, non-ASCII, newlines); the hand-written documented-place table; extraction and the OCaml driver. The correspondence and the oracle are tests bounded by the generator. Metadata values other than str / list of str are out of scope.",
    technique="Coq proof (generic lemmas over the template AST + computation over artefacts regenerated from source) + differential whole-package comparison + anchor-based oracle",
)
NOT_YET = {}

def main():
    props = [json.loads(l) for l in (V / "properties.jsonl").read_text().splitlines() if l.strip()]
    checks = []
    na = []
    for p in props:
        pid = p["id"]
        if pid in CHECKS:
            c = CHECKS[pid]
            checks.append({
                "property_id": pid,
                "quick_cmd": f"/venv/bin/python tools/check.py {pid} --tier quick",
                "thorough_cmd": f"/venv/bin/python tools/check.py {pid} --tier thorough",
                "evidence_file": f"/verif/evidence/{pid}.json",
                "replay_cmd_template": f"/venv/bin/python tools/check.py {pid} --replay {{path}}",
                "engine": "coq-fv",
                "level_claimed": {"category": c["category"], "text": c["text"], "design_ref": c["design_ref"]},
                "level_note": c["note"],
                "technique": c["technique"],
            })
        else:
            na.append({"property_id": pid, "reason": NOT_YET.get(pid, "check not built yet in this development (planned in DESIGN.md section 5); not claimed until its model, theorems and tie exist")})
    m = {
        "version": 1,
        "setup_cmd": "/venv/bin/python tools/check.py setup",
        "hooks": {
            "guard": "FUNC_ADL_XAOD_VERIF",
            "enable": "no hook is compiled into /repo: the checks import the working tree directly (PYTHONPATH=/repo) and observe written packages and return values; the variable is set by tools/check.py for uniformity only",
            "baseline_off_cmd": "cd /repo && /venv/bin/python -m pytest -q -p no:cacheprovider --timeout=900",
            "source_commits": [],
            "add_only": True,
        },
        "engines": [{"name": "coq-fv", "path": "/verif/coq", "serves_properties": sorted(CHECKS), "kind_free_text": "Coq 8.16.1 development (models, proofs, regenerated artefacts) + extracted OCaml model + Python correspondence harness (tools/fv)"}],
        "checks": checks,
        "notes": "Every check rebuilds coq/gen from /repo, runs a full .vo build (make), re-checks Properties/<id>.v with Print Assumptions, then runs the correspondence of the hand models with the implementation. See DESIGN.md.",
        "not_applicable": na,
    }
    (V / "MANIFEST.json").write_text(json.dumps(m, indent=1) + "\n")

if __name__ == "__main__":
    main()
