#!/usr/bin/env python3
"""Writes MANIFEST.json from the table below (kept as code so that it stays valid and consistent)."""
import json
from pathlib import Path

V = Path(__file__).resolve().parents[1]
CHECKS = {
    "C15": dict(
        category="proof",
        text="Full functional correctness of generate_script_block proved in Coq for every finite block list (C15_ok, C15_err_sound, C15_err_complete, C15_merge, C15_merge_shape; closed under the global context) on a hand model tied to the code by an exhaustive-for-small-sizes plus random correspondence check of the extracted model against the real function and by end-to-end traces through the ATLAS executor and job-options template; an independent topological-order oracle on the implementation's output supplies the concrete failing input.",
        design_ref="5.15",
        note="Trusted: Coq kernel; hand model ScriptBlocks.v (dicts as one insertion-ordered association list); extraction (ExtrOcamlBasic, ExtrOcamlString), OCaml driver, S-expression codec; the correspondence is a differential test bounded by its generator; jinja2's for-loop rendering is validated on traces, not proved.",
        technique="Coq proof (induction over block list and loop passes) + model/implementation correspondence",
    ),
}
CHECKS["C12"] = dict(
    category="proof",
    text="The python-name -> (C++ name, header, return type) table, the README's documented list and the name-resolution environment are regenerated from /repo on every run; Coq proves by computation on that finite table that every documented name resolves (as find_known_functions resolves it) to a row calling its cmath namesake, including <cmath>, typed double and callable with query expressions (C12_all_documented), plus dict semantics for every table (C12_last_mapping_wins) and the refutation for remquo (known finding). End-to-end traces run every documented name through all three backends, standalone and inside arithmetic, and compare the emitted call with the model's row.",
    design_ref="5.12",
    note="Trusted: Coq kernel incl. vm_compute; the fail-closed translator mathtable.py (literal table rows, textual normal form of add_function_mapping and find_known_functions.visit_Call, README regex, builtins' __module__ from the interpreter); the hand-written <cmath> signature table; what each std:: function computes (C library). Traces are tests.",
    technique="Coq proof by computation over a table regenerated from source + end-to-end traces",
)
CHECKS["C07"] = dict(
    category="proof",
    text="The state a process carries from one query to the next (method-type registry, enum/namespace registry, name counter, per-executor job-script / inject blocks, registered and found extended metadata, the shared default-argument dict) and the wrapper flow apply_ast_transformations -> write_cpp_files -> reset are modelled as a state machine around a universally quantified translator. Coq proves for every finite history, every backend mixture and every stage at which a query may raise that each handled query ends in the default state (C07_every_handle_ends_clean), and from it that for a process serving one backend the probe's package-or-error and found metadata equal, up to the numbering of generated names, those of the probe as first query of a fresh process (C07_independent_partial; the full statement is refuted for mixed backends, C07_independent_refuted = known finding). Four refutation theorems show the wrapper before the fix commit violated the property and that each part of the fix is needed. Histories are run against the real code in fresh interpreters; the probe is compared with the same probe in another fresh interpreter (concrete failing input) and every operation's registries with the extracted model.",
    design_ref="5.7",
    note="Trusted: Coq kernel (vm_compute only in witness lemmas); hand model ExecState.v; the translator is abstract and assumed to depend on the name counter only by renaming (explicit premise); completeness of the state inventory is tested, not proved - a new global in /repo is caught only by the differential histories; extraction, OCaml driver, S-expression codec; the correspondence reads (never writes) the registries and executor attributes; python_on_whales is stubbed to import DockerImageSpecification.",
    technique="Coq proof (state-machine invariant by case analysis on the raising stage, lifted over fold_left) + differential histories in fresh interpreters",
)
NOT_YET = {}

def main():
    props = [json.loads(l) for l in (V / "properties.jsonl").read_text().splitlines() if l.strip()]
    checks = []
    na = []
    for p in props:
        pid = p["id"]
        if pid in CHECKS:
            c = CHECKS[pid]
            checks.append({
                "property_id": pid,
                "quick_cmd": f"/venv/bin/python tools/check.py {pid} --tier quick",
                "thorough_cmd": f"/venv/bin/python tools/check.py {pid} --tier thorough",
                "evidence_file": f"/verif/evidence/{pid}.json",
                "replay_cmd_template": f"/venv/bin/python tools/check.py {pid} --replay {{path}}",
                "engine": "coq-fv",
                "level_claimed": {"category": c["category"], "text": c["text"], "design_ref": c["design_ref"]},
                "level_note": c["note"],
                "technique": c["technique"],
            })
        else:
            na.append({"property_id": pid, "reason": NOT_YET.get(pid, "check not built yet in this development (planned in DESIGN.md section 5); not claimed until its model, theorems and tie exist")})
    m = {
        "version": 1,
        "setup_cmd": "/venv/bin/python tools/check.py setup",
        "hooks": {
            "guard": "FUNC_ADL_XAOD_VERIF",
            "enable": "no hook is compiled into /repo: the checks import the working tree directly (PYTHONPATH=/repo) and observe written packages and return values; the variable is set by tools/check.py for uniformity only",
            "baseline_off_cmd": "cd /repo && /venv/bin/python -m pytest -q -p no:cacheprovider --timeout=900",
            "source_commits": [],
            "add_only": True,
        },
        "engines": [{"name": "coq-fv", "path": "/verif/coq", "serves_properties": sorted(CHECKS), "kind_free_text": "Coq 8.16.1 development (models, proofs, regenerated artefacts) + extracted OCaml model + Python correspondence harness (tools/fv)"}],
        "checks": checks,
        "notes": "Every check rebuilds coq/gen from /repo, runs a full .vo build (make), re-checks Properties/<id>.v with Print Assumptions, then runs the correspondence of the hand models with the implementation. See DESIGN.md.",
        "not_applicable": na,
    }
    (V / "MANIFEST.json").write_text(json.dumps(m, indent=1) + "\n")

if __name__ == "__main__":
    main()
