#!/usr/bin/env python3
"""Writes MANIFEST.json from the table below (kept as code so that it stays valid and consistent)."""
import json
from pathlib import Path

V = Path(__file__).resolve().parents[1]
CHECKS = {
    "C15": dict(
        category="proof",
        text="Full functional correctness of generate_script_block proved in Coq for every finite block list (C15_ok, C15_err_sound, C15_err_complete, C15_merge, C15_merge_shape; closed under the global context) on a hand model tied to the code by an exhaustive-for-small-sizes plus random correspondence check of the extracted model against the real function and by end-to-end traces through the ATLAS executor and job-options template; an independent topological-order oracle on the implementation's output supplies the concrete failing input.",
        design_ref="5.15",
        note="Trusted: Coq kernel; hand model ScriptBlocks.v (dicts as one insertion-ordered association list); extraction (ExtrOcamlBasic, ExtrOcamlString), OCaml driver, S-expression codec; the correspondence is a differential test bounded by its generator; jinja2's for-loop rendering is validated on traces, not proved.",
        technique="Coq proof (induction over block list and loop passes) + model/implementation correspondence",
    ),
}
CHECKS["C12"] = dict(
    category="proof",
    text="The python-name -> (C++ name, header, return type) table, the README's documented list and the name-resolution environment are regenerated from /repo on every run; Coq proves by computation on that finite table that every documented name resolves (as find_known_functions resolves it) to a row calling its cmath namesake, including <cmath>, typed double and callable with query expressions (C12_all_documented), plus dict semantics for every table (C12_last_mapping_wins) and the refutation for remquo (known finding). End-to-end traces run every documented name through all three backends, standalone and inside arithmetic, and compare the emitted call with the model's row.",
    design_ref="5.12",
    note="Trusted: Coq kernel incl. vm_compute; the fail-closed translator mathtable.py (literal table rows, textual normal form of add_function_mapping and find_known_functions.visit_Call, README regex, builtins' __module__ from the interpreter); the hand-written <cmath> signature table; what each std:: function computes (C library). Traces are tests.",
    technique="Coq proof by computation over a table regenerated from source + end-to-end traces",
)
CHECKS["C02"] = dict(
    category="proof",
    text="Coq proves, for ALL programs of the C++-subset IR, all events, all member states and all event sequences, that the static checkers are sound for the execution semantics: well_scoped (every occurrence refers to a member, an enclosing block's declaration made earlier, or an enclosing loop variable) excludes every stuck-on-unbound-name outcome of run_event/run_job; unique_decls (NoDup of members, block declarations and loop variables) implies that at every program position no binding is shadowed (lookup returns the unique declaration); types_ok excludes push_back/clear on a non-vector and % with a floating operand; refutation witnesses by computation for use-outside-block, read-before-declaration, duplicate member, % on double. The for-all-queries part is SAMPLED (translation validation): the extracted checkers run on the program parsed, with a printed-back round trip, from what the current translator emits for generated queries (all feature classes, three backends); completeness of the file set, the 0o755 mode, residual template directives, the slot/file tie and booking lines are runtime facts that are tested; in the thorough tier g++ -fsyntax-only against a stand-in data model generated from the declared universe is the independent oracle of 'compilable' and validates the checkers (agreement counts in the evidence).",
    design_ref="5.2",
    note="Level: proof of checker soundness + translation validation of sampled queries (not a proof about the translator). Trusted: Coq kernel; Cpp/IR.v + Cpp/Exec.v as the meaning of the emitted subset; the fail-closed emitted-text parser (every program is re-printed by the extracted printer and compared with the emitted lines); extraction + OCaml driver; qgen generator bounds; g++ 12 and the generated stand-in headers (the real ATLAS/CMS headers are absent: 'as declared'). types_ok_sound assumes events respect the declared method types (ev_ok). The generic template-rendering theorem is C14's.",
    technique="Coq proof (mutual induction over stmt/block/stmts with a static-scope/dynamic-frames invariant) + verified-checker translation validation + g++ oracle",
)
NOT_YET = {}

def main():
    props = [json.loads(l) for l in (V / "properties.jsonl").read_text().splitlines() if l.strip()]
    checks = []
    na = []
    for p in props:
        pid = p["id"]
        if pid in CHECKS:
            c = CHECKS[pid]
            checks.append({
                "property_id": pid,
                "quick_cmd": f"/venv/bin/python tools/check.py {pid} --tier quick",
                "thorough_cmd": f"/venv/bin/python tools/check.py {pid} --tier thorough",
                "evidence_file": f"/verif/evidence/{pid}.json",
                "replay_cmd_template": f"/venv/bin/python tools/check.py {pid} --replay {{path}}",
                "engine": "coq-fv",
                "level_claimed": {"category": c["category"], "text": c["text"], "design_ref": c["design_ref"]},
                "level_note": c["note"],
                "technique": c["technique"],
            })
        else:
            na.append({"property_id": pid, "reason": NOT_YET.get(pid, "check not built yet in this development (planned in DESIGN.md section 5); not claimed until its model, theorems and tie exist")})
    m = {
        "version": 1,
        "setup_cmd": "/venv/bin/python tools/check.py setup",
        "hooks": {
            "guard": "FUNC_ADL_XAOD_VERIF",
            "enable": "no hook is compiled into /repo: the checks import the working tree directly (PYTHONPATH=/repo) and observe written packages and return values; the variable is set by tools/check.py for uniformity only",
            "baseline_off_cmd": "cd /repo && /venv/bin/python -m pytest -q -p no:cacheprovider --timeout=900",
            "source_commits": [],
            "add_only": True,
        },
        "engines": [{"name": "coq-fv", "path": "/verif/coq", "serves_properties": sorted(CHECKS), "kind_free_text": "Coq 8.16.1 development (models, proofs, regenerated artefacts) + extracted OCaml model + Python correspondence harness (tools/fv)"}],
        "checks": checks,
        "notes": "Every check rebuilds coq/gen from /repo, runs a full .vo build (make), re-checks Properties/<id>.v with Print Assumptions, then runs the correspondence of the hand models with the implementation. See DESIGN.md.",
        "not_applicable": na,
    }
    (V / "MANIFEST.json").write_text(json.dumps(m, indent=1) + "\n")

if __name__ == "__main__":
    main()
