#!/usr/bin/env python3
"""Writes MANIFEST.json from the table below (kept as code so that it stays valid and consistent)."""
import json
from pathlib import Path

V = Path(__file__).resolve().parents[1]
CHECKS = {
    "C15": dict(
        category="proof",
        text="Full functional correctness of generate_script_block proved in Coq for every finite block list (C15_ok, C15_err_sound, C15_err_complete, C15_merge, C15_merge_shape; closed under the global context) on a hand model tied to the code by an exhaustive-for-small-sizes plus random correspondence check of the extracted model against the real function and by end-to-end traces through the ATLAS executor and job-options template; an independent topological-order oracle on the implementation's output supplies the concrete failing input.",
        design_ref="5.15",
        note="Trusted: Coq kernel; hand model ScriptBlocks.v (dicts as one insertion-ordered association list); extraction (ExtrOcamlBasic, ExtrOcamlString), OCaml driver, S-expression codec; the correspondence is a differential test bounded by its generator; jinja2's for-loop rendering is validated on traces, not proved.",
        technique="Coq proof (induction over block list and loop passes) + model/implementation correspondence",
    ),
}
CHECKS["C12"] = dict(
    category="proof",
    text="The python-name -> (C++ name, header, return type) table, the README's documented list and the name-resolution environment are regenerated from /repo on every run; Coq proves by computation on that finite table that every documented name resolves (as find_known_functions resolves it) to a row calling its cmath namesake, including <cmath>, typed double and callable with query expressions (C12_all_documented), plus dict semantics for every table (C12_last_mapping_wins) and the refutation for remquo (known finding). End-to-end traces run every documented name through all three backends, standalone and inside arithmetic, and compare the emitted call with the model's row.",
    design_ref="5.12",
    note="Trusted: Coq kernel incl. vm_compute; the fail-closed translator mathtable.py (literal table rows, textual normal form of add_function_mapping and find_known_functions.visit_Call, README regex, builtins' __module__ from the interpreter); the hand-written <cmath> signature table; what each std:: function computes (C library). Traces are tests.",
    technique="Coq proof by computation over a table regenerated from source + end-to-end traces",
)
CHECKS["C06"] = dict(
    category="proof",
    text="The three collection tables, the container classes' type-string and token-type formats, the coders' line templates (f-strings as patterns with holes), the token allocation site, the metadata branches' allowed keys / constructed classes / backend names and the executors' backend checks are regenerated from /repo on every run. Coq proves for every specification of a backend (table row or produced by process_decl from a declaration), every bank string and every generated-code state: the substituted retrieval code is exactly the backend idiom for (container type, bank) (C06_idiom_atlas / _cms_aod / _cms_miniaod, C06_token_init_cms_miniaod, via a general theorem that whole-word substitution commutes with f-string instantiation); the result variable has the container type, is declared in the current block and assigned once; headers and libraries are requested de-duplicated with order kept; miniAOD tokens are one per use, pairwise distinct and assigned once in the booking code; singletons are values (iteration raises ValueError), collections are iterated with the declared element type and pointer depth; a declared collection replaces a built-in of its name; unexpected keys, element_type mismatch, missing keys, wrong arity / non-string argument and foreign-backend declarations are refused. The hand model is tied to the executors by a correspondence over every built-in collection x 22 bank strings x 3 backends x 6 query positions plus random (mostly valid, 22% malformed) metadata declarations, and an independent regex-level oracle of the property text on the rendered files yields the concrete failing input.",
    design_ref="5.6",
    note="Trusted: Coq kernel incl. vm_compute on the finite regenerated tables; the fail-closed translator collections.py; the hand model Collections.v (re.sub with \\b...\\b modelled as replacement of maximal ASCII word runs, validated against re.sub; unique_name as (base, counter)); extraction, OCaml driver, S-expression codec; the correspondence is a differential test bounded by its generator (bank alphabet [A-Za-z0-9_:.- ]; escaping is C18). func_adl's AST passes and what retrieve/getByLabel/getByToken do at run time are not modelled.",
    technique="Coq proof (induction over patterns, use lists and generated-code states; computation over regenerated tables) + model/implementation correspondence + property oracle on rendered packages",
)
NOT_YET = {}

def main():
    props = [json.loads(l) for l in (V / "properties.jsonl").read_text().splitlines() if l.strip()]
    checks = []
    na = []
    for p in props:
        pid = p["id"]
        if pid in CHECKS:
            c = CHECKS[pid]
            checks.append({
                "property_id": pid,
                "quick_cmd": f"/venv/bin/python tools/check.py {pid} --tier quick",
                "thorough_cmd": f"/venv/bin/python tools/check.py {pid} --tier thorough",
                "evidence_file": f"/verif/evidence/{pid}.json",
                "replay_cmd_template": f"/venv/bin/python tools/check.py {pid} --replay {{path}}",
                "engine": "coq-fv",
                "level_claimed": {"category": c["category"], "text": c["text"], "design_ref": c["design_ref"]},
                "level_note": c["note"],
                "technique": c["technique"],
            })
        else:
            na.append({"property_id": pid, "reason": NOT_YET.get(pid, "check not built yet in this development (planned in DESIGN.md section 5); not claimed until its model, theorems and tie exist")})
    m = {
        "version": 1,
        "setup_cmd": "/venv/bin/python tools/check.py setup",
        "hooks": {
            "guard": "FUNC_ADL_XAOD_VERIF",
            "enable": "no hook is compiled into /repo: the checks import the working tree directly (PYTHONPATH=/repo) and observe written packages and return values; the variable is set by tools/check.py for uniformity only",
            "baseline_off_cmd": "cd /repo && /venv/bin/python -m pytest -q -p no:cacheprovider --timeout=900",
            "source_commits": [],
            "add_only": True,
        },
        "engines": [{"name": "coq-fv", "path": "/verif/coq", "serves_properties": sorted(CHECKS), "kind_free_text": "Coq 8.16.1 development (models, proofs, regenerated artefacts) + extracted OCaml model + Python correspondence harness (tools/fv)"}],
        "checks": checks,
        "notes": "Every check rebuilds coq/gen from /repo, runs a full .vo build (make), re-checks Properties/<id>.v with Print Assumptions, then runs the correspondence of the hand models with the implementation. See DESIGN.md.",
        "not_applicable": na,
    }
    (V / "MANIFEST.json").write_text(json.dumps(m, indent=1) + "\n")

if __name__ == "__main__":
    main()
