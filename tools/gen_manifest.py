#!/usr/bin/env python3
"""Writes MANIFEST.json from the table below (kept as code so that it stays valid and consistent)."""
import json
from pathlib import Path

V = Path(__file__).resolve().parents[1]
CHECKS = {
    "C15": dict(
        category="proof",
        text="Full functional correctness of generate_script_block proved in Coq for every finite block list (C15_ok, C15_err_sound, C15_err_complete, C15_merge, C15_merge_shape; closed under the global context) on a hand model tied to the code by an exhaustive-for-small-sizes plus random correspondence check of the extracted model against the real function and by end-to-end traces through the ATLAS executor and job-options template; an independent topological-order oracle on the implementation's output supplies the concrete failing input.",
        design_ref="5.15",
        note="Trusted: Coq kernel; hand model ScriptBlocks.v (dicts as one insertion-ordered association list); extraction (ExtrOcamlBasic, ExtrOcamlString), OCaml driver, S-expression codec; the correspondence is a differential test bounded by its generator; jinja2's for-loop rendering is validated on traces, not proved.",
        technique="Coq proof (induction over block list and loop passes) + model/implementation correspondence",
    ),
}
CHECKS["C12"] = dict(
    category="proof",
    text="The python-name -> (C++ name, header, return type) table, the README's documented list and the name-resolution environment are regenerated from /repo on every run; Coq proves by computation on that finite table that every documented name resolves (as find_known_functions resolves it) to a row calling its cmath namesake, including <cmath>, typed double and callable with query expressions (C12_all_documented), plus dict semantics for every table (C12_last_mapping_wins) and the refutation for remquo (known finding). End-to-end traces run every documented name through all three backends, standalone and inside arithmetic, and compare the emitted call with the model's row.",
    design_ref="5.12",
    note="Trusted: Coq kernel incl. vm_compute; the fail-closed translator mathtable.py (literal table rows, textual normal form of add_function_mapping and find_known_functions.visit_Call, README regex, builtins' __module__ from the interpreter); the hand-written <cmath> signature table; what each std:: function computes (C library). Traces are tests.",
    technique="Coq proof by computation over a table regenerated from source + end-to-end traces",
)
CHECKS["C18"] = dict(
    category="proof",
    text="Coq defines the value of a C++ integer, floating, boolean and ordinary string literal as a total, fail-closed lexer (Model/CppLex.v: escape sequences, pp-number maximal munch, LP64 integer range) and a hand model of visit_Constant, cpp_string_literal, the argument substitution on the built-in retrieval/getAttribute lines and the booking/fill statements of the three back ends (Model/Consts.v). Proved for all inputs: every byte string is rendered as a literal that lexes back to exactly that string in any following context (C18_str, C18_str_in_context); every integer of magnitude < 2^63 is rendered as a decimal literal of exactly that value, larger ones raise (C18_int, C18_int32, C18_int_unrepresentable); booleans (C18_bool); every text in Python's float repr grammar is emitted unchanged and is exactly one C++ floating literal with the sign of the repr, inf/nan raise (C18_float, C18_float_nonfinite, C18_float_total); bank, attribute, column and tree names stand in one string literal at a fixed place of their line with the name as value and the fixed text after it (C18_names_*). Refutations kept: 64-bit integers keep the declared type int (known finding), and the pre-fix rendering of strings, inf and huge integers. The check plants generated constants at eight positions of a query on all three back ends, requires the model's line verbatim in the written file, and lexes the implementation's text with the extracted lexer as independent oracle (strings byte for byte, ints exactly, floats by exact-rational correctly-rounded conversion, declared column type).",
    design_ref="5.18",
    note="Trusted: Coq kernel (vm_compute only on closed template lines and Examples); CppLex.v as the meaning of C++ literals (UTF-8 byte-transparent, no trigraphs, LP64; suffixes/octal/hex/UCN refused); the hand model tied by a differential test; repr(float) round-trips and the compiler rounds a decimal literal to nearest (library facts); extraction + OCaml driver + S-expression codec. func_adl's own AST passes are not modelled (constants are planted in the final AST). Column names are also used to build a C++ identifier: that text is outside this property's projection (C02).",
    technique="Coq proof (induction over strings / decimal digits, grammar inclusion) + extracted verified lexer as oracle on the real pipeline",
)
NOT_YET = {}

def main():
    props = [json.loads(l) for l in (V / "properties.jsonl").read_text().splitlines() if l.strip()]
    checks = []
    na = []
    for p in props:
        pid = p["id"]
        if pid in CHECKS:
            c = CHECKS[pid]
            checks.append({
                "property_id": pid,
                "quick_cmd": f"/venv/bin/python tools/check.py {pid} --tier quick",
                "thorough_cmd": f"/venv/bin/python tools/check.py {pid} --tier thorough",
                "evidence_file": f"/verif/evidence/{pid}.json",
                "replay_cmd_template": f"/venv/bin/python tools/check.py {pid} --replay {{path}}",
                "engine": "coq-fv",
                "level_claimed": {"category": c["category"], "text": c["text"], "design_ref": c["design_ref"]},
                "level_note": c["note"],
                "technique": c["technique"],
            })
        else:
            na.append({"property_id": pid, "reason": NOT_YET.get(pid, "check not built yet in this development (planned in DESIGN.md section 5); not claimed until its model, theorems and tie exist")})
    m = {
        "version": 1,
        "setup_cmd": "/venv/bin/python tools/check.py setup",
        "hooks": {
            "guard": "FUNC_ADL_XAOD_VERIF",
            "enable": "no hook is compiled into /repo: the checks import the working tree directly (PYTHONPATH=/repo) and observe written packages and return values; the variable is set by tools/check.py for uniformity only",
            "baseline_off_cmd": "cd /repo && /venv/bin/python -m pytest -q -p no:cacheprovider --timeout=900",
            "source_commits": [],
            "add_only": True,
        },
        "engines": [{"name": "coq-fv", "path": "/verif/coq", "serves_properties": sorted(CHECKS), "kind_free_text": "Coq 8.16.1 development (models, proofs, regenerated artefacts) + extracted OCaml model + Python correspondence harness (tools/fv)"}],
        "checks": checks,
        "notes": "Every check rebuilds coq/gen from /repo, runs a full .vo build (make), re-checks Properties/<id>.v with Print Assumptions, then runs the correspondence of the hand models with the implementation. See DESIGN.md.",
        "not_applicable": na,
    }
    (V / "MANIFEST.json").write_text(json.dumps(m, indent=1) + "\n")

if __name__ == "__main__":
    main()
