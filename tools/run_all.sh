#!/bin/bash
# Runs setup and every registered quick check once; prints one line per check.
cd "$(dirname "$0")/.." || exit 1
T0=$(date +%s)
/venv/bin/python tools/check.py setup 2>&1 | tail -1
for p in $(python3 -c "import json;print(' '.join(c['property_id'] for c in json.load(open('MANIFEST.json'))['checks']))"); do
  t=$(date +%s)
  out=$(/venv/bin/python tools/check.py $p --tier ${1:-quick} 2>&1); rc=$?
  echo "$p rc=$rc $(( $(date +%s) - t ))s violations=$(echo "$out" | grep -c '^VIOLATION') known=$(echo "$out" | grep -c '^KNOWN-FINDING')"
  echo "$out" | grep -E '^VIOLATION|^  ->' | cut -c1-300
done
echo "total $(( $(date +%s) - T0 ))s"
