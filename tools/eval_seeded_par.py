#!/usr/bin/env python3
"""Confirm seeded changes produced by mutation sub-agents and run the checks against them, several at a time,
WITHOUT touching /repo: every evaluation uses the agent's scratch worktree (/tmp/mut/<src>, change applied) as
FV_REPO and a private copy of /verif (/tmp/vc/<src>) for the build, so evaluations do not disturb each other
or the evidence committed in /verif.

usage: eval_seeded_par.py [-j N] [--tier quick] SRC[:NAME[:PROP[,PROP2...]]] ...
   SRC   scratch id, e.g. c01c  (worktree /tmp/mut/c01c, agent output /tmp/mut/c01c-out)
   NAME  directory under /verif/seeded (default SRC upper-cased, e.g. C01c -> "C01c")
   PROP  properties whose checks are run (default: the one named by SRC)
Steps per SRC: (1) patch applies to HEAD; demo exits 0 without the change; with the change the unedited suite
passes and the demo exits non-zero; (2) checks run with FV_REPO=<worktree with change>; (3) /verif/seeded/<NAME>/
{patch.diff, demo.*, meta.json} written.  The first PROP is the one recorded as `checked_by`."""
import json
import os
import shutil
import subprocess
import sys
import time
from concurrent.futures import ThreadPoolExecutor
from pathlib import Path

PY = "/venv/bin/python"
V = Path(__file__).resolve().parents[1]
SNAP = Path("/tmp/vc/_snapshot")   # one copy of /verif taken when the tool starts: later edits in /verif do not disturb running evaluations


def run(cmd, cwd=None, env=None, timeout=5400):
    e = dict(os.environ)
    e.update(env or {})
    r = subprocess.run(cmd, cwd=cwd, env=e, text=True, stdout=subprocess.PIPE, stderr=subprocess.STDOUT, timeout=timeout, shell=isinstance(cmd, str))
    return r.returncode, r.stdout


def one(spec: str, tier: str):
    parts = spec.split(":")
    src = parts[0]
    name = parts[1] if len(parts) > 1 and parts[1] else src[:3].upper() + src[3:]
    props = parts[2].split(",") if len(parts) > 2 else [src[:3].upper()]
    wt, out = Path(f"/tmp/mut/{src}"), Path(f"/tmp/mut/{src}-out")
    demo = next((p for p in [out / "demo.py", out / "demo.sh"] if p.exists()), None)
    patch = out / "patch.diff"
    if not (demo and patch.exists()):
        return name, {"error": "agent output incomplete"}

    def run_demo():
        cmd = [PY, str(demo)] if demo.suffix == ".py" else ["bash", str(demo)]
        return run(cmd, cwd=wt, env={"PYTHONPATH": str(wt), "PYTHONHASHSEED": "0"})

    res = {}
    run("git checkout -- . && git clean -fdq", cwd=wt)
    rc, o = run(["git", "apply", "--check", str(patch)], cwd=wt)
    if rc != 0:
        return name, {"error": "patch does not apply to HEAD: " + o[:300]}
    rc, o = run_demo()
    res["demo_without_change"] = rc
    run(["git", "apply", str(patch)], cwd=wt)
    rc, o = run([PY, "-m", "pytest", "-q", "-p", "no:cacheprovider", "--timeout=900"], cwd=wt, env={"PYTHONPATH": str(wt)})
    res["suite_with_change"] = o.strip().splitlines()[-1] if o.strip() else str(rc)
    res["suite_rc"] = rc
    rc, o = run_demo()
    res["demo_with_change"] = rc
    res["demo_output_tail"] = o.strip().splitlines()[-3:]
    res["confirmed"] = res["suite_rc"] == 0 and res["demo_with_change"] != 0 and res["demo_without_change"] == 0
    if not res["confirmed"]:
        return name, {"error": "not confirmed", "confirmation": res}
    run("find . -name __pycache__ -prune -exec rm -rf {} +", cwd=wt)
    vc = Path(f"/tmp/vc/{src}")
    shutil.rmtree(vc, ignore_errors=True)
    vc.parent.mkdir(parents=True, exist_ok=True)
    run(f"cp -a {SNAP} {vc}")
    results = {}
    for prop in props:
        t0 = time.time()
        rc, o = run([PY, str(vc / "tools/check.py"), prop, "--tier", tier], cwd=vc, env={"FV_REPO": str(wt), "FV_ENV": "", "PYTHONHASHSEED": ""})
        lines = [l for l in o.splitlines() if l.startswith(("VIOLATION", "KNOWN-FINDING", "  ->"))]
        viol = [l for l in lines if l.startswith("VIOLATION")]
        replay = None
        for l in viol:
            p = l.split("replay=")[1].split()[0]
            if os.path.exists(p):
                try:
                    replay = json.loads(open(p).read())
                except Exception:  # noqa: BLE001
                    replay = None
                break
        results[prop] = {"rc": rc, "viol": viol, "arrows": [l for l in lines if l.startswith("  ->")][:4], "replay": replay, "wall_s": round(time.time() - t0), "tail": o.strip().splitlines()[-3:] if rc not in (0, 1) else []}
    shutil.rmtree(vc, ignore_errors=True)
    for prop in props:
        r = results[prop]
        nm = name if prop == props[0] else f"{name}_checked_by_{prop}"
        dest = V / "seeded" / nm
        dest.mkdir(parents=True, exist_ok=True)
        shutil.copy(patch, dest / "patch.diff")
        shutil.copy(demo, dest / demo.name)
        meta = json.loads((out / "meta.json").read_text()) if (out / "meta.json").exists() else {}
        viol = r["viol"]
        meta.update({"breaks_property": src[:3].upper(), "confirmation": res,
                     "ran": f"git -C /repo apply seeded/{nm}/patch.diff; tools/check.py {prop} --tier {tier}; git -C /repo checkout -- .   (evaluated on a scratch worktree carrying the patch, FV_REPO=<worktree>)",
                     "check_exit_code": r["rc"], "check_violation_lines": [l[:300] for l in viol],
                     "detected": r["rc"] == 1 and bool(viol),
                     "concrete_failing_input": bool(viol) and not all("no-failing-input-found" in l for l in viol),
                     "replay_excerpt": {k: (str(v)[:400]) for k, v in (r["replay"] or {}).items() if k in ("key", "what", "query", "backend", "blocks", "difference", "broken")}})
        (dest / "meta.json").write_text(json.dumps(meta, indent=1) + "\n")
    return name, {"confirmation": {k: res[k] for k in ("demo_without_change", "suite_with_change", "demo_with_change")},
                  "checks": {p: {"rc": r["rc"], "detected": r["rc"] == 1 and bool(r["viol"]), "wall_s": r["wall_s"], "arrows": [a[:200] for a in r["arrows"]], "tail": r["tail"]} for p, r in results.items()}}


def main():
    args = sys.argv[1:]
    j = 4
    tier = "quick"
    specs = []
    i = 0
    while i < len(args):
        if args[i] == "-j":
            j = int(args[i + 1]); i += 2
        elif args[i] == "--tier":
            tier = args[i + 1]; i += 2
        else:
            specs.append(args[i]); i += 1
    shutil.rmtree(SNAP, ignore_errors=True)
    SNAP.parent.mkdir(parents=True, exist_ok=True)
    run(f"cp -a {V} {SNAP} && rm -rf {SNAP}/.git {SNAP}/replays")
    with ThreadPoolExecutor(max_workers=j) as ex:
        for name, r in ex.map(lambda s: one(s, tier), specs):
            print(name, json.dumps(r, indent=1), flush=True)
    shutil.rmtree(SNAP, ignore_errors=True)


if __name__ == "__main__":
    main()
