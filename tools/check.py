#!/venv/bin/python
"""Entry point of every check:  check.py <Cxx> [--tier quick|thorough] [--replay FILE]"""
import argparse
import importlib
import os
import sys
import time
from pathlib import Path

HERE = Path(__file__).resolve().parent
REPO = os.environ.get("FV_REPO", "/repo")

# fixed interpreter environment: the implementation is always imported from the current working tree
if os.environ.get("PYTHONHASHSEED") != "0" or os.environ.get("FV_ENV") != "1":
    env = dict(os.environ)
    env["PYTHONHASHSEED"] = "0"
    env["FV_ENV"] = "1"
    env["PYTHONPATH"] = f"{REPO}:{HERE}"
    env["PYTHONDONTWRITEBYTECODE"] = "1"
    env["FUNC_ADL_XAOD_VERIF"] = "1"
    os.execve("/venv/bin/python", ["/venv/bin/python", str(Path(__file__).resolve())] + sys.argv[1:], env)

sys.path.insert(0, str(HERE))
sys.path.insert(0, REPO)

from fv import core  # noqa: E402


def main() -> int:
    ap = argparse.ArgumentParser()
    ap.add_argument("prop")
    ap.add_argument("--tier", default=os.environ.get("VERIF_TIER", "quick"), choices=["quick", "thorough"])
    ap.add_argument("--replay", default=None)
    ap.add_argument("--clean", action="store_true")
    args = ap.parse_args()
    if args.prop == "setup":
        b = core.ensure_build(clean=True)
        for f, e in b.failed.items():
            print(f"build: {f}: {e}")
        for f, e in b.gen_errors.items():
            print(f"translator: {f}: {e}")
        print(f"setup: {len(b.ok_files)} files built, model executable {'ok' if b.model_ok else 'MISSING'}, {b.wall_s:.0f}s")
        return 0 if b.model_ok and not b.failed else 1
    pid = args.prop.upper()
    seed = int(os.environ.get("VERIF_SEED", "0") or 0)
    t0 = time.time()
    mod = importlib.import_module(f"fv.props.{pid.lower()}")
    build = core.ensure_build(clean=args.clean or (args.tier == "thorough" and os.environ.get("FV_NO_CLEAN") != "1"))
    if args.replay:
        return mod.replay(args.replay, build)
    try:
        return mod.check(args.tier, seed, t0, build)
    except Exception as e:  # noqa: BLE001
        # The harness reads the implementation's own data structures (reps, specs, templates).  When the code under test has
        # changed so much that the harness cannot run to its end, the correspondence between model and implementation is
        # broken: the property is no longer shown to hold.  Reported as a violation without a failing input, never as a crash.
        import traceback

        tb = traceback.format_exc()
        last = [ln.strip() for ln in tb.strip().splitlines() if ln.strip()][-1]
        oc = core.Outcome()
        oc.rule = "the run stopped before it was complete: the harness could not interpret the implementation (see the replay file)"
        oc.violations.append(core.Violation(
            key=f"{pid.lower()}:harness-exception",
            what=f"the correspondence harness of {pid} stopped with {type(e).__name__}: {last[:200]}",
            no_failing_input=True,
            replay={"broken": f"correspondence harness of {pid} (tools/fv/props/{pid.lower()}.py) could not run against the current implementation",
                    "exception": type(e).__name__, "traceback": tb[-4000:], "searched": "the run did not get far enough to search for a failing input"}))
        ps = None
        try:
            ps = core.proof_status(getattr(mod, "PROP_FILE"), build)
        except Exception:  # noqa: BLE001
            ps = None
        return core.finish(pid, args.tier, seed, t0, ps, build, oc, list(getattr(mod, "TRUSTED", [])), list(getattr(mod, "ASSUME", [])))


if __name__ == "__main__":
    sys.exit(main())
