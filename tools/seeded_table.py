#!/usr/bin/env python3
"""Rewrites section 10.5 of DESIGN.md (between the markers) from seeded/*/meta.json."""
import glob, json, re
from pathlib import Path
V = Path(__file__).resolve().parents[1]
rows = []
for f in sorted(glob.glob(str(V / "seeded/*/meta.json"))):
    m = json.loads(Path(f).read_text()); d = f.split("/")[-2]
    chk = m.get("breaks_property", "?")
    ran = m.get("ran", "")
    mm = re.search(r"check\.py (C\d+)", ran)
    by = mm.group(1) if mm else chk
    key = (m.get("replay_excerpt") or {}).get("key", "")
    if m.get("detected"):
        how = ("VIOLATION with a concrete failing input" if m.get("concrete_failing_input") else "VIOLATION, no-failing-input-found (broken obligation / correspondence named)") + (f" (`{key}`)" if key else "")
    else:
        how = "**not detected**"
    rows.append(f"| `seeded/{d}` | {str(m.get('property', chk))} | {m.get('summary', '')[:170].replace('|', '/')} | {m.get('needs_to_manifest', '')[:150].replace('|', '/')} | {by} | {how} |")
table = ("| change | property | what it does | what it needs to manifest | check run | result |\n|---|---|---|---|---|---|\n" + "\n".join(rows) + "\n")
p = V / "DESIGN.md"; s = p.read_text()
a, b = "<!-- SEEDED-TABLE-BEGIN -->", "<!-- SEEDED-TABLE-END -->"
if a in s:
    s = s[: s.index(a) + len(a)] + "\n" + table + s[s.index(b):]
    p.write_text(s)
print(len(rows), "rows")
