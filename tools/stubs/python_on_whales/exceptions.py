"""Stand-in for python_on_whales.exceptions (only what func_adl_xAOD reads)."""
from typing import List, Optional


class DockerException(Exception):
    """Same constructor and attributes as the real class (python_on_whales 0.5x)."""

    def __init__(self, command_launched: List[str], return_code: int,
                 stdout: Optional[bytes] = None, stderr: Optional[bytes] = None):
        self.docker_command: List[str] = list(command_launched)
        self.return_code: int = return_code
        self.stdout: Optional[str] = None if stdout is None else stdout.decode()
        self.stderr: Optional[str] = None if stderr is None else stderr.decode()
        cmd = " ".join(str(c) for c in self.docker_command)
        super().__init__(f"The docker command executed was `{cmd}`.\nIt returned with code {return_code}\n")


class NoSuchImage(DockerException):
    pass


class NoSuchContainer(DockerException):
    pass
