"""Stand-in for the `python_on_whales` package, used only by the C17 check of the verification
framework.  It is never installed: tools/fv/props/c17.py puts tools/stubs on sys.path before it
imports func_adl_xAOD.common.local_dataset.

`docker.run(...)` records its arguments and plays a scripted container ("oracle"):

    docker.script = {
        "at_call": bool,          # raise DockerException from run() itself (daemon not reachable ...)
        "chunks": [(stream_type, content), ...],   # what run(stream=True) yields, in order
        "fail_after": k | None,   # raise DockerException from the generator after k chunks were yielded
        "result": bool,           # the container writes ANALYSIS.root into the volume mounted at /results
        "extras": [(name, bytes | None)]  # further files (None: a directory) the container leaves in /results
        "exit_code": int,
    }

With `stream=True` the real library returns a generator of `(source, bytes)` tuples, source being
"stdout" or "stderr", and raises DockerException from the generator when the container exits with a
non-zero status, after all output was delivered.  Without `stream` it returns the decoded output.
Every call is appended to `docker.calls` together with what the container saw in its volumes.
"""
from pathlib import Path
from typing import Any, Dict, List

from . import exceptions  # noqa: F401
from .exceptions import DockerException  # noqa: F401

__version__ = "0.0-fv-stub"

RESULT_NAME = "ANALYSIS.root"


class _Volume:
    def exists(self, name):  # pragma: no cover - the repository has this call commented out
        return True

    def create(self, name, *a, **k):  # pragma: no cover
        return name


class DockerClient:
    def __init__(self):
        self.volume = _Volume()
        self.reset()

    def reset(self, script: Dict[str, Any] = None):
        self.calls: List[Dict[str, Any]] = []
        self.script: Dict[str, Any] = script or {}
        self.generators_started = 0
        self.generators_finished = 0

    # -- the one entry point the repository uses ------------------------------------------
    def run(self, image, command=None, *args, **kwargs):
        script = self.script
        volumes = list(kwargs.get("volumes", []) or [])
        rec: Dict[str, Any] = {
            "image": image,
            "command": list(command) if command is not None else None,
            "extra_args": list(args),
            "volumes": [tuple(v) for v in volumes],
            "kwargs": {k: v for k, v in kwargs.items() if k != "volumes"},
            "seen": {},
        }
        # what the container would see in its mounted directories, at start
        for v in volumes:
            src, dst = v[0], v[1]
            if isinstance(src, Path) and src.is_dir():
                listing = {}
                for p in sorted(src.iterdir()):
                    if p.is_file():
                        try:
                            listing[p.name] = {"mode": p.stat().st_mode & 0o777, "text": p.read_text()[:100000]}
                        except (UnicodeDecodeError, OSError):
                            listing[p.name] = {"mode": p.stat().st_mode & 0o777, "text": None}
                rec["seen"][str(dst)] = {"dir_mode": src.stat().st_mode & 0o777, "files": listing}
        self.calls.append(rec)
        if script.get("at_call"):
            raise DockerException(["docker", "run", str(image)], int(script.get("exit_code", 125)))
        results_dirs = [v[0] for v in volumes if str(v[1]).rstrip("/") == "/results"]

        def play():
            self.generators_started += 1
            for d in results_dirs:
                if script.get("result"):
                    (Path(d) / RESULT_NAME).write_bytes(b"root-file-content")
                for name, content in script.get("extras", []):
                    if content is None:
                        (Path(d) / name).mkdir(exist_ok=True)
                    else:
                        (Path(d) / name).write_bytes(content)
            k = script.get("fail_after")
            for i, ch in enumerate(script.get("chunks", [])):
                if k is not None and i >= k:
                    break
                yield tuple(ch)
            if k is not None:
                raise DockerException(["docker", "run", str(image)], int(script.get("exit_code", 1)))
            self.generators_finished += 1

        if kwargs.get("stream"):
            return play()
        out = b""
        for _t, c in play():
            out += c if isinstance(c, bytes) else str(c).encode()
        return out.decode(errors="replace")


docker = DockerClient()
