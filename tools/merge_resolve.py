#!/usr/bin/env python3
"""Resolve the standard merge conflicts of builder branches (run in /verif during a conflicted merge)."""
import json, re, subprocess, sys
from pathlib import Path

def sh(*a): return subprocess.run(a, text=True, stdout=subprocess.PIPE, stderr=subprocess.STDOUT).stdout
def stage(n, path):
    r = subprocess.run(["git", "show", f":{n}:{path}"], text=True, stdout=subprocess.PIPE, stderr=subprocess.DEVNULL)
    return r.stdout if r.returncode == 0 else None

conf = [l[3:] for l in sh("git", "status", "--porcelain").splitlines() if l[:2] in ("UU", "AA", "DU", "UD", "AU", "UA")]
for path in conf:
    base, ours, theirs = stage(1, path), stage(2, path), stage(3, path)
    if path in ("coq/fvmodel.ml", "coq/fvmodel.mli"):
        sh("git", "rm", "-f", "--cached", path); Path(path).unlink(missing_ok=True); print("dropped", path); continue
    if path == "known_findings.json":
        a = json.loads(ours)["findings"]; b = json.loads(theirs)["findings"]
        seen = {(f["property"], f["key"]) for f in a}
        a += [f for f in b if (f["property"], f["key"]) not in seen]
        Path(path).write_text(json.dumps({"findings": a}, indent=1) + "\n")
    elif path == "coq/_CoqProject":
        o = ours.splitlines(); t = theirs.splitlines()
        new = [l for l in t if l not in o]
        i = o.index("Driver.v")
        Path(path).write_text("\n".join(o[:i] + new + o[i:]) + "\n")
    elif path == "coq/Driver.v":
        def parts(txt):
            imp = []
            for m in re.finditer(r"From FV Require (?:Import )?(.*?)\.\n", txt, re.S):
                imp += m.group(1).split()
            lines = re.findall(r"^\s+(?:if|else if) String\.eqb cmd .*$", txt, re.M)
            return imp, [re.sub(r"^\s+(?:else )?if", "", l) for l in lines]
        io, lo = parts(ours); it, lt = parts(theirs)
        imp = [x for x in io + [x for x in it if x not in io] if x != "Base.Prelude"]
        ls = lo + [x for x in lt if x not in lo]
        ls = [l.replace("audit math_env documented", "audit MathTable.math_env MathTable.documented") for l in ls]
        body = "".join(("  if" if i == 0 else "  else if") + l + "\n" for i, l in enumerate(ls))
        Path(path).write_text("(* Dispatch table of the extracted model executable: one command per modelled function.\n"
            "   Model modules are required, not imported: every reference below is qualified. *)\n"
            "From FV Require Import Base.Prelude.\nFrom FV Require " + " ".join(imp) + ".\n\nDefinition dispatch (cmd : string) (arg : sexp) : sexp :=\n" + body +
            '  else s_tag "unknown-command" [SAtom cmd].\n')
    elif path == "tools/gen_manifest.py":
        # both sides add CHECKS[...] blocks before NOT_YET: keep ours, append theirs' new blocks
        blocks = lambda txt: re.findall(r'^CHECKS\["C\d+"\] = dict\(.*?^\)\n', txt, re.S | re.M)
        bo = blocks(ours); bt = [b for b in blocks(theirs) if b[:14] not in [x[:14] for x in bo]]
        out = ours.replace("NOT_YET = {}", "".join(bt) + "NOT_YET = {}", 1)
        Path(path).write_text(out)
    elif path == "MANIFEST.json":
        Path(path).write_text(ours)
    elif path == ".gitignore":
        o = ours.splitlines(); Path(path).write_text("\n".join(o + [l for l in theirs.splitlines() if l not in o]) + "\n")
    elif path.startswith("evidence/") or path.startswith("design/"):
        Path(path).write_text(theirs)
    else:
        print("UNRESOLVED", path); continue
    sh("git", "add", path); print("resolved", path)
