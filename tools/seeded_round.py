#!/usr/bin/env python3
"""Prepare a round of seeded-change sub-agents: one scratch git worktree of /repo per property under /tmp/mut/<id><suffix>,
an output directory holding ONLY the property's JSON, and the prompt text (printed to /tmp/mut/<id><suffix>-out/PROMPT.txt).
Nothing from /verif other than the property text and one-line summaries of earlier seeded changes (so that a new change
differs in mechanism) is given to the agent.

usage: seeded_round.py SUFFIX [STEER-TEXT-FILE] [ID ...]     e.g. seeded_round.py f /tmp/steer.txt C01 C02"""
import json
import subprocess
import sys
from pathlib import Path

V = Path(__file__).resolve().parents[1]
TEMPLATE = (V / "tools" / "seeded_prompt.txt").read_text()


def main():
    suffix = sys.argv[1]
    steer = ""
    ids = []
    for a in sys.argv[2:]:
        if Path(a).exists():
            steer = Path(a).read_text().strip()
        else:
            ids.append(a)
    props = {}
    for l in (V / "properties.jsonl").read_text().splitlines():
        if l.strip():
            d = json.loads(l)
            props[d["id"]] = d
    for pid in ids or sorted(props):
        sid = pid.lower() + suffix
        wt, out = Path(f"/tmp/mut/{sid}"), Path(f"/tmp/mut/{sid}-out")
        out.mkdir(parents=True, exist_ok=True)
        if not wt.exists():
            subprocess.run(["git", "-C", "/repo", "worktree", "add", "-f", "-q", str(wt), "HEAD"], check=True)
        (out / "property.json").write_text(json.dumps(props[pid], indent=1))
        earlier = []
        for d in sorted((V / "seeded").glob(pid + "*")):
            if "_checked_by_" in d.name or not (d / "meta.json").exists():
                continue
            m = json.loads((d / "meta.json").read_text())
            earlier.append(f"   - {m.get('summary', '')[:420]}")
        text = TEMPLATE.replace("@ID@", sid).replace("@PID@", pid).replace("@EARLIER@", "\n".join(earlier) or "   (none)")
        if steer:
            text = text.replace("5. Prefer", "5. " + steer + "\n6. Prefer")
        (out / "PROMPT.txt").write_text(text)
        print(sid)


if __name__ == "__main__":
    main()
