"""C04 helpers: guard-shaped query templates (partial operations under and / or / conditional / Where),
events designed to trigger or not trigger each fault (empty collections, sequences empty only after their
filters, index = length-1 / length, null links), the reference semantics extended with isNonnull, and the
stand-in for the CMS isNonnull injected block.

Stand-in data model for a nullable link (edm::Ref-like):  obj.link()  is a method-table entry whose value is
["o", k] or ["null"]; a member call through a null link faults (Exec: FNullDeref - this is the poisoned
sentinel: ANY dereference of a null link is recorded as a fault of the event).  The non-dereferencing test
`(obj.link()).isNonnull()` of the injected block is the table entry  (obj, "link.isNonnull")  which the event
generator keeps consistent with the link's value."""
import ast
import random
import re
from fractions import Fraction
from typing import Any, Dict, List, Optional, Tuple

from . import qgen

LINK = "globalTrack"


# ------------------------------------------------------------------------------------------------
# isNonnull: reference side and executable stand-in for the injected block
# ------------------------------------------------------------------------------------------------
def _is_nonnull(x) -> bool:
    return not isinstance(x, qgen.NullObj)


class _Wrap(qgen._WrapConst):
    """As qgen's literal wrapping, but a literal subscript stays a Python int (tuples are indexed by it;
    the reference Seq lifts it itself)."""

    def visit_Subscript(self, node):
        node.value = self.visit(node.value)
        if not (isinstance(node.slice, ast.Constant) and isinstance(node.slice.value, int)):
            node.slice = self.visit(node.slice)
        return node


_COMPILED: Dict[str, Any] = {}


def reference_event(src: str, ev, uni: qgen.Universe):
    """qgen.reference_event with `isNonnull` in scope (same evaluation otherwise)."""
    code = _COMPILED.get(src)
    if code is None:
        tree = ast.fix_missing_locations(_Wrap().visit(ast.parse(src, mode="eval")))
        code = compile(tree, "<query>", "eval")
        _COMPILED[src] = code
    env = {
        "_K": qgen.N.lift,
        "ds": qgen._DS(qgen.Seq([qgen.EventObj(ev, uni)])),
        "Range": lambda a, b: qgen.Seq(qgen.N("i", i) for i in range(int(qgen.N.lift(a).v), int(qgen.N.lift(b).v))),
        "abs": abs,
        "isNonnull": _is_nonnull,
    }
    for m in qgen.MATH:
        env[m] = qgen._mathfun(m)
    try:
        r = eval(code, env)
        return ["rows", [qgen._row(x) for x in r.seq.items]]
    except qgen.RefFault as e:
        return ["fault", str(e)]
    except ZeroDivisionError:
        return ["fault", "div_zero"]


_NONNULL_LINE = re.compile(r"^auto result = \((?P<o>[A-Za-z_][A-Za-z0-9_]*)(?P<ar>\.|->)(?P<m>[A-Za-z_][A-Za-z0-9_]*)\(\)\)\.isNonnull\(\);$")


def standin_nonnull(prog) -> int:
    """Replace, in the parsed program (in place), every injected block of exactly the shape
         { auto result = (obj.link()).isNonnull();  flag = result; }
    by  flag = obj.<link.isNonnull>()  (a method-table lookup).  Any other user block stays opaque.
    Returns the number of blocks replaced."""
    n = 0

    def walk(b):
        nonlocal n
        for i, s in enumerate(b[2]):
            if s[0] == "user" and len(s[1]) == 1 and s[3]:
                m = _NONNULL_LINE.match(s[1][0])
                if m:
                    b[2][i] = ["set", s[3][0], [], ["meth", ["var", m.group("o")], m.group("ar") == "->", m.group("m") + ".isNonnull", []]]
                    n += 1
            elif s[0] == "for":
                walk(s[3])
            elif s[0] == "if":
                walk(s[2])
                for e in s[3]:
                    walk(e)
            elif s[0] == "block":
                walk(s[1])

    walk(prog[4])
    return n


def metadata(uni: qgen.Universe) -> List[Dict[str, Any]]:
    """The universe's metadata plus the link method (returns a pointer to an object of the same type)."""
    md = uni.metadata()
    for _, t in uni.colls.values():
        md.append({"metadata_type": "add_method_type_info", "type_string": t, "method_name": LINK, "return_type": t + "*"})
    return md


# ------------------------------------------------------------------------------------------------
# templates
# ------------------------------------------------------------------------------------------------
class T:
    def __init__(self, src: str, feat: List[str], uses: List[Tuple[str, str]]):
        self.src = src
        self.feat = set(feat)
        self.uses = uses


def templates(uni: qgen.Universe, rng: random.Random) -> List[T]:
    names = list(uni.colls)
    out: List[T] = []
    cms = uni.backend != "atlas"
    for ci, cname in enumerate(names[:2]):
        other = names[(ci + 1) % len(names)]
        bank = rng.choice(["b1", "b2"])
        C = f'e.{cname}("{bank}")'
        O = f'e.{other}("b1")'
        u1 = [(cname, bank)]
        u2 = u1 + [(other, "b1")]
        th = rng.choice(["1", "2.5", "30", "0"])
        meth = rng.choice(uni.dbl_methods)
        k = rng.choice([0, 1, 2, 3])

        def add(src, feat, uses=u1):
            out.append(T(src, feat, uses))

        # First: plain, after filters, after two filters
        add(f"ds.Select(lambda e: {C}.First().{meth}())", ["first"])
        add(f"ds.Select(lambda e: {C}.Where(lambda j: j.pt() > {th}).First().{meth}())", ["first", "where"])
        add(f"ds.Select(lambda e: {C}.Where(lambda j: j.pt() > {th}).Where(lambda j: j.isGood()).First().{meth}())", ["first", "where"])
        add(f"ds.Select(lambda e: {C}.Where(lambda j: j.pt() > {th} and j.isGood()).First().{meth}())", ["first", "where", "and"])
        add(f"ds.Select(lambda e: {C}.Select(lambda j: j.{meth}()).First())", ["first"])
        add(f"ds.Select(lambda e: {C}.Select(lambda j: j.{meth}()).Where(lambda x: x > {th}).First())", ["first", "where"])
        # First of a sequence whose element value is itself a First (of the element's own numbers, of another collection): every
        # outer element runs its inner First, the outer one captures the first element's
        add(f"ds.Select(lambda e: {C}.Select(lambda j: j.vals().First()).First())", ["first", "first_of_first"])
        add(f"ds.Select(lambda e: {C}.Select(lambda j: j.vals().First() * 2).First())", ["first", "first_of_first"])
        add(f"ds.Select(lambda e: {C}.Where(lambda j: j.pt() > {th}).Select(lambda j: {O}.First().{meth}() + j.{meth}()).First())", ["first", "first_of_first", "where"], u2)
        # a comparison chain whose later link holds a partial operation that the first link guards (refused by the unchanged
        # translator; if it is ever accepted it has to be as lazy as Python's)
        add(f"ds.Select(lambda e: 0 < {C}.Count() < {C}.First().pt())", ["first", "cmp_chain"])
        add(f"ds.Select(lambda e: {C}.Where(lambda j: 0 < j.vals().Count() < j.vals().First()).Count())", ["first", "cmp_chain", "where"])
        # First of the whole collection as an object, used twice
        add(f"ds.Select(lambda e: {C}.First()).Select(lambda f: f.pt() + f.eta())", ["first", "shared"])
        add(f'ds.Select(lambda e: ({C}.First().pt(), {C}.Count()))', ["first"])
        # behind an event-level Where
        add(f"ds.Where(lambda e: {C}.Count() > 0).Select(lambda e: {C}.First().{meth}())", ["first", "event_where"])
        add(f"ds.Where(lambda e: {C}.Where(lambda j: j.pt() > {th}).Count() > 0).Select(lambda e: {C}.Where(lambda j: j.pt() > {th}).First().{meth}())", ["first", "event_where", "where"])
        add(f"ds.Where(lambda e: {O}.Count() > 1).Select(lambda e: {C}.First().{meth}())", ["first", "event_where"], u2)
        # Count() > 0 and First() ...
        add(f"ds.Where(lambda e: {C}.Count() > 0 and {C}.First().pt() > {th}).Select(lambda e: {C}.Count())", ["first", "and", "guard"])
        add(f"ds.Where(lambda e: {C}.Count() == 0 or {C}.First().pt() > {th}).Select(lambda e: {C}.Count())", ["first", "or", "guard"])
        add(f"ds.Select(lambda e: {C}.Count() > 0 and {C}.First().pt() > {th})", ["first", "and", "guard"])
        add(f"ds.Where(lambda e: {C}.Count() > 0 and {C}.First().isGood() and {C}.First().pt() > {th}).Select(lambda e: {C}.First().eta())", ["first", "and", "guard", "and3"])
        add(f"ds.Where(lambda e: {C}.Count() == 0 or {C}.First().isGood() or {C}.First().pt() > {th}).Select(lambda e: {C}.Count())", ["first", "or", "guard", "or3"])
        add(f"ds.Where(lambda e: {C}.First().pt() > {th} and {O}.Count() > 0).Select(lambda e: {C}.Count())", ["first", "and", "first_in_operand1"], u2)
        add(f"ds.Where(lambda e: {C}.First().pt() > {th} and {O}.First().pt() > {th} and {O}.Count() > 1).Select(lambda e: {C}.Count())", ["first", "and", "first_in_operand1", "and3"], u2)
        # unguarded right operand that must fault when reached
        add(f"ds.Where(lambda e: {O}.Count() > 0 and {C}.First().pt() > {th}).Select(lambda e: {C}.Count())", ["first", "and"], u2)
        # conditional with First in one arm
        add(f"ds.Select(lambda e: {C}.First().{meth}() if {C}.Count() > 0 else -1.0)", ["first", "ifexp", "guard"])
        add(f"ds.Select(lambda e: -1.0 if {C}.Count() == 0 else {C}.First().{meth}())", ["first", "ifexp", "guard"])
        add(f"ds.Select(lambda e: {C}.First().pt() if {O}.Count() > 1 else {O}.Count() * 1.0)", ["first", "ifexp"], u2)
        add(f"ds.Select(lambda e: ({C}.First().pt() if {C}.First().eta() > 0 else 0.0) if {C}.Count() > 0 else -1.0)", ["first", "ifexp", "guard", "nested"])
        add(f"ds.Select(lambda e: 0.0 if {C}.Count() == 0 else ({C}.First().pt() if {C}.Count() > 1 and {C}.First().isGood() else 1.0))", ["first", "ifexp", "and", "guard", "nested"])
        add(f"ds.Select(lambda e: {C}.First().pt() if ({C}.Count() > 0 and ({O}.Count() == 0 or {O}.First().pt() > {th})) else -1.0)", ["first", "ifexp", "and", "or", "guard", "nested"], u2)
        # the sequence bound once and used in guard and guarded place (shared node)
        add(f"ds.Select(lambda e: {C}).Select(lambda js: js.First().{meth}() if js.Count() > 0 else -1.0)", ["first", "ifexp", "guard", "shared"])
        add(f"ds.Select(lambda e: {C}.Where(lambda j: j.pt() > {th})).Select(lambda js: js.First().{meth}() if js.Count() > 0 else -1.0)", ["first", "ifexp", "guard", "shared", "where"])
        add(f"ds.Select(lambda e: {C}).Where(lambda js: js.Count() > 0 and js.First().pt() > {th}).Select(lambda js: js.First().eta())", ["first", "and", "guard", "shared"])
        add(f"ds.Select(lambda e: {C}.First()).Select(lambda f: f.pt() if f.eta() > 0 else f.phi())", ["first", "ifexp", "shared"])
        add(f"ds.Select(lambda e: ({C}.First(), {O}.Count())).Select(lambda t: t[0].pt() if t[1] > 0 else -1.0)", ["first", "ifexp", "shared", "first_bound_then_guarded"], u2)
        # two First() over one already-looped sequence combined in one expression; the components of a tuple-valued First
        add(f"ds.Select(lambda e: {C}).Select(lambda js: js.First().pt() - js.First().eta())", ["first", "shared", "two_firsts_one_loop"])
        add(f"ds.Select(lambda e: {C}.Where(lambda j: j.pt() > {th})).Select(lambda js: (js.First().pt() + js.First().eta(), js.Count()))", ["first", "shared", "two_firsts_one_loop", "where"])
        add(f"ds.Select(lambda e: {C}.Where(lambda j: j.pt() > {th}).Select(lambda j: (j.pt(), j.eta())).First()).Select(lambda t: t[0] + t[1])", ["first", "shared", "two_firsts_one_loop", "where"])
        add(f"ds.Select(lambda e: {C}.Select(lambda j: (j.pt(), j.eta())).First()).Select(lambda t: (t[0], t[1]))", ["first", "shared", "two_firsts_one_loop"])
        # a First node used inside a guard and again outside it (rep cache)
        add(f"ds.Select(lambda e: ({C}, {C}.First())).Select(lambda t: (t[1].pt() if t[0].Count() > 0 else -1.0) + t[1].eta())", ["first", "ifexp", "shared", "first_reused_outside_guard"])
        add(f"ds.Select(lambda e: ({C}, {C}.First())).Select(lambda t: (t[1].pt() if t[0].Count() > 0 else -1.0, t[1].eta()))", ["first", "ifexp", "shared", "first_reused_outside_guard"])
        add(f"ds.Select(lambda e: ({C}, {C}.First())).Where(lambda t: t[0].Count() > 0 and t[1].pt() > {th}).Select(lambda t: t[1].eta())", ["first", "and", "shared", "first_bound_then_guarded"])
        add(f"ds.Select(lambda e: ({O}.Count(), {C}.First())).Select(lambda t: (t[1].pt() if t[0] > 0 else -1.0) + t[1].eta())", ["first", "ifexp", "shared", "first_reused_outside_guard"], u2)
        add(f"ds.Select(lambda e: ({O}.Count(), {C}.First())).Select(lambda t: (t[0] > 0 and t[1].pt() > {th}, t[1].eta()))", ["first", "and", "shared", "first_reused_outside_guard"], u2)
        add(f"ds.Select(lambda e: ({O}.Count(), {C}.First())).Where(lambda t: t[0] == 0 or t[1].pt() > {th}).Select(lambda t: t[1].eta())", ["first", "or", "shared", "first_reused_outside_guard"], u2)
        # First over a sequence produced in an outer loop
        add(f"ds.Select(lambda e: {C}.SelectMany(lambda j: j.vals()).First())", ["first", "first_after_selectmany"])
        add(f"ds.Select(lambda e: {C}.SelectMany(lambda j: j.vals()).Where(lambda v: v > {th}).First())", ["first", "first_after_selectmany", "where"])
        add(f"ds.Select(lambda e: {C}.SelectMany(lambda j: j.vals()).First() if {C}.SelectMany(lambda j: j.vals()).Count() > 0 else -1.0)", ["first", "first_after_selectmany", "ifexp", "guard"])
        add(f"ds.Select(lambda e: {C}.Select(lambda j: {O}.First().pt() + j.pt()))", ["first", "first_in_outer_loop"], u2)
        add(f"ds.Select(lambda e: {C}.Select(lambda j: {O}.First().pt() if {O}.Count() > 0 else j.pt()))", ["first", "first_in_outer_loop", "ifexp", "guard"], u2)
        add(f"ds.Select(lambda e: {C}.Where(lambda j: {O}.Count() > 0 and {O}.First().pt() > j.pt()).Count())", ["first", "first_in_outer_loop", "and", "guard"], u2)
        # per-object guards; First / index over a method-returned vector
        add(f"ds.Select(lambda e: {C}.Where(lambda j: j.isGood() and j.pt() > {th}).Select(lambda j: j.eta()))", ["and", "where"])
        add(f"ds.Select(lambda e: {C}.Where(lambda j: j.vals().Count() > 0 and j.vals().First() > {th}).Select(lambda j: j.pt()))", ["first", "and", "guard", "inner_first"])
        add(f"ds.Select(lambda e: {C}.Where(lambda j: j.vals().Count() == 0 or j.vals().First() > {th}).Count())", ["first", "or", "guard", "inner_first"])
        add(f"ds.Select(lambda e: {C}.Select(lambda j: j.vals().First() if j.vals().Count() > 0 else -1.0))", ["first", "ifexp", "guard", "inner_first"])
        add(f"ds.Select(lambda e: {C}.Select(lambda j: j.vals().First()))", ["first", "inner_first"])
        add(f"ds.Select(lambda e: {C}.Select(lambda j: j.vals().Where(lambda v: v > {th}).First()))", ["first", "inner_first", "where"])
        # a literal operand that decides an and / or AFTER a partial operation: the earlier operand is still evaluated (and
        # still fails when it is undefined); BEFORE it, the later operand is not evaluated at all
        add(f"ds.Select(lambda e: {C}.First().pt() > {th} and False)", ["first", "and", "literal_operand"])
        add(f"ds.Select(lambda e: {C}[{k}].pt() > {th} or True)", ["index", "event_index", "or", "literal_operand"])
        add(f"ds.Select(lambda e: False and {C}.First().pt() > {th})", ["first", "and", "literal_operand", "guard"])
        add(f"ds.Select(lambda e: True or {C}[{k}].pt() > {th})", ["index", "event_index", "or", "literal_operand", "guard"])
        add(f"ds.Where(lambda e: {C}.First().pt() > {th} or True).Select(lambda e: {C}.Count())", ["first", "or", "literal_operand", "event_where"])
        add(f"ds.Select(lambda e: {C}.Select(lambda j: j.vals()[{k}] > 0 and False))", ["index", "and", "literal_operand"])
        # a partial operation inside the filter BEFORE a First: once the first element is found the query asks nothing of
        # the elements after it
        add(f"ds.Select(lambda e: {C}.Where(lambda j: j.vals()[0] > {th}).First().{meth}())", ["first", "index", "where", "partial_filter_before_first"])
        add(f"ds.Select(lambda e: {C}.Where(lambda j: j.hits().First() > 0).First().{meth}())", ["first", "where", "inner_first", "partial_filter_before_first"])
        add(f"ds.Select(lambda e: {C}.Select(lambda j: j.vals()[{k}]))", ["index"])
        add(f"ds.Select(lambda e: {C}.Select(lambda j: j.hits()[{k}] + 1))", ["index"])
        # an index before the beginning is as undefined as one past the end (ElementAt semantics): never a substitute
        for neg in (1, 2):
            add(f"ds.Select(lambda e: {C}.Select(lambda j: j.vals()[-{neg}]))", ["index", "negative_index"])
            add(f"ds.Select(lambda e: {C}[-{neg}].pt())", ["index", "negative_index", "event_index"])
        add(f"ds.Select(lambda e: {C}[{k}].pt())", ["index", "event_index"])
        add(f"ds.Select(lambda e: {C}[{k}].pt() if {C}.Count() > {k} else -1.0)", ["index", "event_index", "ifexp", "guard"])
        add(f"ds.Select(lambda e: {C}.Select(lambda j: j.vals()[{k}] if j.vals().Count() > {k} else -1.0))", ["index", "ifexp", "guard"])
        add(f"ds.Select(lambda e: {C}.Where(lambda j: j.vals().Count() > {k} and j.vals()[{k}] > 0).Count())", ["index", "and", "guard"])
        add(f"ds.Select(lambda e: {C}.Where(lambda j: j.hits().Count() <= {k} or j.hits()[{k}] > 0).Select(lambda j: j.pt()))", ["index", "or", "guard"])
        add(f"ds.Select(lambda e: {C}.Where(lambda j: j.pt() > {th}).Select(lambda j: j.vals()[{k}]))", ["index", "where"])
        add(f"ds.Select(lambda e: {C}.First().vals()[{k}] if {C}.Count() > 0 and {C}.First().vals().Count() > {k} else -1.0)", ["index", "first", "ifexp", "and", "guard", "nested"])
        # links: unguarded dereference (faults on a null link) on every backend
        add(f"ds.Select(lambda e: {C}.Select(lambda m: m.{LINK}().pt()))", ["link"])
        add(f"ds.Select(lambda e: {C}.Where(lambda m: m.isGood()).Select(lambda m: m.{LINK}().pt()))", ["link", "where"])
        if cms:
            add(f"ds.Select(lambda e: {C}.Where(lambda m: isNonnull(m.{LINK}()) and m.{LINK}().pt() > {th}).Select(lambda m: m.pt()))", ["link", "nonnull", "and", "guard"])
            add(f"ds.Select(lambda e: {C}.Where(lambda m: isNonnull(m.{LINK}())).Select(lambda m: m.{LINK}().pt()))", ["link", "nonnull", "where", "guard"])
            add(f"ds.Select(lambda e: {C}.Select(lambda m: m.{LINK}().pt() if isNonnull(m.{LINK}()) else -1.0))", ["link", "nonnull", "ifexp", "guard"])
            add(f"ds.Select(lambda e: {C}.Where(lambda m: not isNonnull(m.{LINK}()) or m.{LINK}().pt() > {th}).Count())", ["link", "nonnull", "or", "guard"])
            add(f"ds.Select(lambda e: {C}.Where(lambda m: m.isGood() and isNonnull(m.{LINK}()) and m.{LINK}().eta() < {th}).Select(lambda m: m.{LINK}().pt()))", ["link", "nonnull", "and", "and3", "guard"])
            add(f"ds.Select(lambda e: {C}.Where(lambda m: isNonnull(m.{LINK}())).First().{LINK}().pt())", ["link", "nonnull", "first", "where"])
    return out


# ------------------------------------------------------------------------------------------------
# events
# ------------------------------------------------------------------------------------------------
MODES = ["empty", "single", "allfail", "allpass", "random", "random", "firstfails", "shortvecs", "nulls"]


def gen_event(rng: random.Random, uni: qgen.Universe, uses: List[Tuple[str, str]], mode: str):
    """An event of the given design.  allfail: every scalar at the bottom of the lattice (all `> th` filters
    reject, isGood false); allpass: top of the lattice; firstfails: the first object rejects, later ones pass;
    shortvecs: method-returned vectors of length 0/1 (index k = length-1 or length); nulls: most links null."""
    colls, meths = [], []
    oid = 0
    seen = set()
    D = qgen.LATTICE_D
    for name, bank in uses:
        if (name, bank) in seen:
            continue
        seen.add((name, bank))
        ct = uni.colls[name][0]
        if mode == "empty":
            n = 0
        elif mode == "single":
            n = 1
        elif mode in ("allfail", "allpass", "firstfails", "nulls"):
            n = rng.choice([1, 2, 3])
        else:
            n = rng.choice([0, 1, 2, 2, 3, 4])
        objs = list(range(oid, oid + n))
        oid += n
        colls.append([ct, bank, ["v"] + [["o", o] for o in objs]])
        for idx, o in enumerate(objs):
            low = mode == "allfail" or (mode == "firstfails" and idx == 0)
            high = mode == "allpass" or (mode == "firstfails" and idx > 0)
            for m in uni.dbl_methods:
                q = Fraction(-7, 2) if low else (Fraction(100) if high else rng.choice(D))
                meths.append([o, m, ["d", q.numerator, q.denominator]])
            meths.append([o, "nTrk", ["i", 0 if low else rng.choice(qgen.LATTICE_I)]])
            meths.append([o, "isGood", ["b", False if low else (True if high else rng.random() < 0.6)]])
            q = rng.choice(D)
            meths.append([o, "charge", ["d", q.numerator, q.denominator]])
            if mode == "shortvecs":
                nv, nh = rng.choice([0, 1, 1, 2]), rng.choice([0, 1, 1, 2])
            elif mode == "empty":
                nv = nh = 0
            else:
                nv, nh = rng.choice([0, 1, 2, 3, 4]), rng.choice([0, 1, 2, 3, 4])
            vs = [(Fraction(-7, 2) if low else (Fraction(100) if high else rng.choice(D))) for _ in range(nv)]
            meths.append([o, "vals", ["v"] + [["d", x.numerator, x.denominator] for x in vs]])
            meths.append([o, "hits", ["v"] + [["i", 0 if low else rng.choice(qgen.LATTICE_I)] for _ in range(nh)]])
            # the link
            p_null = 0.8 if mode == "nulls" else (0.0 if mode == "allpass" else 0.35)
            if rng.random() < p_null:
                meths.append([o, LINK, ["null"]])
                meths.append([o, LINK + ".isNonnull", ["b", False]])
            else:
                t = 1000 + o
                meths.append([o, LINK, ["o", t]])
                meths.append([o, LINK + ".isNonnull", ["b", True]])
                for m in uni.dbl_methods:
                    q = Fraction(-7, 2) if low else (Fraction(100) if high else rng.choice(D))
                    meths.append([t, m, ["d", q.numerator, q.denominator]])
    return {"colls": colls, "meths": meths}


def events_for(rng: random.Random, uni: qgen.Universe, uses, n_random: int = 2) -> List[Dict[str, Any]]:
    evs = [gen_event(rng, uni, uses, m) for m in ["empty", "single", "allfail", "allpass", "firstfails", "shortvecs", "nulls"]]
    evs += [gen_event(rng, uni, uses, "random") for _ in range(n_random)]
    return evs
