"""Runs the REAL runner.sh under the real bash with stub tools, in a chroot inside a private mount
namespace (C16).  Nothing of /repo is modified: the script text is copied unchanged to
<root>/scripts/runner.sh.

The stub tools implement the tool table of coq/Model/Shell.v (same preconditions, same effects, failure on
demand without effect); each stub invocation is one *step*: it takes the next step index from /ctl/step,
appends `idx<TAB>cwd<TAB>argv...` to /ctl/log and fails (exit 1, no effect) when its index is listed in
$FV_FAIL.  Sourced set-up files are stubs of the same kind.  coreutils used by the scripts (mkdir cp chmod
rm cat) are wrapped so that they are steps too and then exec the real binary.

Library use:   with Box() as box: results = box.run(script_text, scenarios)
Worker (inside `unshare --mount`):  python shellbox.py --worker <rootdir>   (JSON on stdin/stdout)
"""
import json
import os
import shutil
import subprocess
import sys
import tempfile
from pathlib import Path
from typing import Any, Dict, List

LIB = r'''# step accounting shared by every stub (sourced)
fv_step() {
  local idx
  idx=$(</ctl/step)
  echo $((idx+1)) > /ctl/step
  local line="$idx"$'\t'"$PWD"
  local a
  for a in "$@"; do line="$line"$'\t'"$a"; done
  printf '%s\n' "$line" >> /ctl/log
  FV_IDX=$idx
  case ",$FV_FAIL," in *",$idx,"*) return 1;; esac
  return 0
}
fv_status() { printf '%s\t%s\n' "$FV_IDX" "$1" >> /ctl/status; }
'''

WRAP = '''#!/bin/bash
. /stubs/_lib.sh
if fv_step {name} "$@"; then /usr/bin/{name} "$@"; rc=$?; else rc=1; fi
fv_status $rc
exit $rc
'''

FOOT = '''}
if [ $inj = 0 ]; then ( main "$@" ); rc=$?; else rc=1; fi
fv_status $rc
exit $rc
'''

STUBS = {
    "cmake": r'''#!/bin/bash
. /stubs/_lib.sh
fv_step cmake "$@"; inj=$?
main() {
[ $# = 1 ] || exit 1
[ -f "$1/CMakeLists.txt" ] || exit 1
[ -d x86_64 ] || /usr/bin/mkdir x86_64 || exit 1
printf '%s\n' '. /stubs/src_setup.sh' > x86_64/setup.sh
printf '%s\n' 'GEN cmake' > Makefile
''',
    "make": r'''#!/bin/bash
. /stubs/_lib.sh
fv_step make "$@"; inj=$?
main() {
[ $# = 0 ] || exit 1
[ -f Makefile ] || exit 1
printf '%s\n' 'GEN build' > built
''',
    "python": r'''#!/bin/bash
. /stubs/_lib.sh
fv_step python "$@"; inj=$?
main() {
[ $# = 2 ] || exit 1
[ -f "$1" ] || exit 1
case "$2" in --submission-dir=*) d=${2#--submission-dir=};; *) exit 1;; esac
[ -f built ] || exit 1
[ -f filelist.txt ] || exit 1
[ -e "$d" ] && exit 1
/usr/bin/mkdir "$d" || exit 1
/usr/bin/mkdir "$d/data-ANALYSIS" || exit 1
{ printf 'OUT %s\n' "$FV_NONCE"; /usr/bin/cat filelist.txt; } > "$d/data-ANALYSIS/ANALYSIS.root"
''',
    "sudo": r'''#!/bin/bash
. /stubs/_lib.sh
fv_step sudo "$@"; inj=$?
main() {
[ $# = 4 ] || exit 1
[ -e "$4" ] || exit 1
''',
    "mkedanlzr": r'''#!/bin/bash
. /stubs/_lib.sh
fv_step mkedanlzr "$@"; inj=$?
main() {
[ $# = 1 ] || exit 1
[ -e "$1" ] && exit 1
/usr/bin/mkdir "$1" "$1/src" "$1/plugins" "$1/python" || exit 1
''',
    "scram": r'''#!/bin/bash
. /stubs/_lib.sh
fv_step scram "$@"; inj=$?
main() {
[ -f src/Analyzer.cc ] || [ -f plugins/Analyzer.cc ] || exit 1
printf '%s\n' 'GEN build' > built
''',
    "cmsRun": r'''#!/bin/bash
. /stubs/_lib.sh
fv_step cmsRun "$@"; inj=$?
main() {
[ $# = 1 ] || exit 1
[ -f "$1" ] || exit 1
[ -f built ] || exit 1
[ -f filelist.txt ] || exit 1
[ -n "$CMS_OUTPUT_FILE" ] || exit 1
{ printf 'OUT %s\n' "$FV_NONCE"; /usr/bin/cat filelist.txt; } > "./$CMS_OUTPUT_FILE"
''',
    "root": r'''#!/bin/bash
. /stubs/_lib.sh
fv_step root "$@"; inj=$?
main() {
[ $# = 4 ] || exit 1
arg=$4
macro=${arg%%\(\"*}
rest=${arg#*\(\"}
[ "$rest" != "$arg" ] || exit 1
in=${rest%%\",\"*}
out=${rest#*\",\"}
[ "$out" != "$rest" ] || exit 1
case "$out" in *\"\)) out=${out%\"\)};; *) exit 1;; esac
[ -f "$macro" ] || exit 1
[ -f "$in" ] || exit 1
[ -d "$out" ] && exit 1
{ printf 'ROOT '; /usr/bin/cat "$in"; } > "$out" || exit 1
''',
    "xrdcp": r'''#!/bin/bash
. /stubs/_lib.sh
fv_step xrdcp "$@"; inj=$?
main() {
exit 1
''',
}

SOURCED = {
    "src_release.sh": ". /stubs/_lib.sh\nif fv_step source:release; then fv_status 0; else fv_status 1; return 1; fi\nexport AnalysisBaseExternals_PLATFORM=x86_64\n",
    "src_setup.sh": ". /stubs/_lib.sh\nif fv_step source:setup; then fv_status 0; else fv_status 1; return 1; fi\n",
    "src_entry.sh": ". /stubs/_lib.sh\nif fv_step source:entry; then fv_status 0; else fv_status 1; return 1; fi\nexport CVSROOT=cms\n",
}
WRAPPED = ["mkdir", "cp", "chmod", "rm", "cat"]

PKG_FILES = {
    "atlas_r21": ["query.h", "query.cxx", "ATestRun_eljob.py", "package_CMakeLists.txt"],
    "cms_r5": ["Analyzer.cc", "analyzer_cfg.py", "BuildFile.xml", "copy_root_tree.C"],
    "cms_r7": ["Analyzer.cc", "analyzer_cfg.py", "BuildFile.xml", "copy_root_tree.C"],
}
FILELIST = "/data/a.root\n"
SNAP_DIRS = ["scripts", "work", "results", "out2"]
BIND = ["bin", "usr", "lib", "lib64", "dev"]


def pkg_content(name: str) -> str:
    return f"PKG {name}\n"


# ------------------------------------------------------------------------------------------
# worker: runs inside the private mount namespace
# ------------------------------------------------------------------------------------------
def _write(p: Path, text: str, mode: int = 0o644):
    p.parent.mkdir(parents=True, exist_ok=True)
    p.write_text(text)
    p.chmod(mode)


def _setup_root(root: Path):
    for d in BIND:
        (root / d).mkdir(parents=True, exist_ok=True)
        src = Path("/") / d
        if src.exists():
            subprocess.run(["mount", "--bind", str(src), str(root / d)], check=True)
            if d != "dev":
                subprocess.run(["mount", "-o", "remount,bind,ro", str(root / d)], check=False)
    st = root / "stubs"
    _write(st / "_lib.sh", LIB)
    for n, t in STUBS.items():
        _write(st / n, t + FOOT, 0o755)
    for n in WRAPPED:
        _write(st / n, WRAP.format(name=n), 0o755)
    for n, t in SOURCED.items():
        _write(st / n, t)
    (root / "tmp").mkdir(exist_ok=True)


def _reset(root: Path, script: str, backend: str, cfg: Dict[str, Any]):
    for d in SNAP_DIRS + ["ctl", "home", "opt", "xaod_calibration_cache"]:
        shutil.rmtree(root / d, ignore_errors=True)
    for d in SNAP_DIRS + ["ctl"]:
        (root / d).mkdir()
    _write(root / "scripts" / "runner.sh", script, 0o755)
    for f in PKG_FILES[backend]:
        _write(root / "scripts" / f, pkg_content(f))
    loc = cfg.get("filelist", "dir")
    if loc in ("dir", "both"):
        _write(root / "scripts" / "filelist.txt", FILELIST)
    if loc in ("local", "both"):
        _write(root / "work" / "filelist.txt", FILELIST)
    if cfg.get("release_setup", True):
        _write(root / "home/atlas/release_setup.sh", ". /stubs/src_release.sh\n")
    if cfg.get("entrypoint", True):
        _write(root / "opt/cms/entrypoint.sh", ". /stubs/src_entry.sh\n")
    if cfg.get("calib", False):
        (root / "xaod_calibration_cache").mkdir()
    for path, content in cfg.get("stale", {}).items():
        _write(root / path.lstrip("/"), content)


def _snapshot(root: Path) -> Dict[str, Any]:
    snap: Dict[str, Any] = {}
    for d in SNAP_DIRS:
        base = root / d
        if not base.is_dir():
            continue
        snap["/" + d] = "D"
        for dp, dns, fns in os.walk(base):
            rel = "/" + str(Path(dp).relative_to(root))
            for n in dns:
                snap[f"{rel}/{n}"] = "D"
            for n in fns:
                p = Path(dp) / n
                if n == "runner.sh" and rel == "/scripts":
                    continue
                try:
                    snap[f"{rel}/{n}"] = "F" + p.read_text(errors="replace")
                except OSError as e:  # noqa: PERF203
                    snap[f"{rel}/{n}"] = f"?{e}"
    return snap


def _invoke(root: Path, inv: Dict[str, Any], cfg: Dict[str, Any]) -> Dict[str, Any]:
    (root / "ctl/step").write_text("0\n")
    (root / "ctl/log").write_text("")
    (root / "ctl/status").write_text("")
    env = {
        "PATH": "/stubs:/usr/bin:/bin",
        "FV_FAIL": ",".join(str(i) for i in inv.get("fail", [])),
        "FV_NONCE": inv["nonce"],
        "HOME": "/tmp",
    }
    if cfg.get("cvsroot", False):
        env["CVSROOT"] = "preset"

    def pre():
        os.chroot(str(root))
        os.chdir("/work")

    try:
        r = subprocess.run(["/scripts/runner.sh"] + list(inv["args"]), env=env, preexec_fn=pre, stdin=subprocess.DEVNULL,
                           stdout=subprocess.PIPE, stderr=subprocess.PIPE, timeout=60)
        code = r.returncode
        err = r.stderr.decode(errors="replace")[-400:]
    except subprocess.TimeoutExpired:
        code, err = -1, "timeout"
    log = []
    for ln in (root / "ctl/log").read_text().splitlines():
        parts = ln.split("\t")
        log.append([parts[1]] + parts[2:])
    status = [int(ln.split("\t")[1]) for ln in (root / "ctl/status").read_text().splitlines()]
    return {"exit": code, "log": log, "status": status, "fs": _snapshot(root), "stderr": err}


def worker(rootdir: str) -> int:
    root = Path(rootdir)
    _setup_root(root)
    job = json.loads(sys.stdin.read())
    out = []
    for sc in job["scenarios"]:
        _reset(root, job["script"], job["backend"], sc["config"])
        res = []
        for inv in sc["history"]:
            res.append(_invoke(root, inv, sc["config"]))
        out.append(res)
    sys.stdout.write(json.dumps(out))
    return 0


# ------------------------------------------------------------------------------------------
# library
# ------------------------------------------------------------------------------------------
class Box:
    """One scratch root directory; `run` executes a batch of scenarios inside one private mount namespace."""

    def __init__(self, tag: str = "c16"):
        self.base = Path(tempfile.mkdtemp(prefix=f"{tag}-box-", dir="/var/tmp"))

    def __enter__(self):
        return self

    def __exit__(self, *a):
        shutil.rmtree(self.base, ignore_errors=True)

    def run(self, script: str, backend: str, scenarios: List[Dict[str, Any]], slot: int = 0) -> List[List[Dict[str, Any]]]:
        root = self.base / f"root{slot}"
        root.mkdir(exist_ok=True)
        job = json.dumps({"script": script, "backend": backend, "scenarios": scenarios})
        r = subprocess.run(["unshare", "--mount", "--propagation", "private", sys.executable, str(Path(__file__).resolve()), "--worker", str(root)],
                           input=job, text=True, stdout=subprocess.PIPE, stderr=subprocess.PIPE, timeout=3600)
        if r.returncode != 0:
            raise RuntimeError(f"sandbox worker failed ({r.returncode}): {r.stderr[-800:]}")
        return json.loads(r.stdout)


def sandbox_available() -> str:
    """'' when unshare --mount + chroot work here, else the reason."""
    try:
        with Box("c16probe") as b:
            res = b.run("#!/bin/bash\nmkdir x\nexit 7\n", "cms_r5", [{"config": {}, "history": [{"args": [], "nonce": "n"}]}])
        if res[0][0]["exit"] != 7 or res[0][0]["log"] != [["/work", "mkdir", "x"]]:
            return f"probe script gave {res[0][0]}"
        return ""
    except Exception as e:  # noqa: BLE001
        return f"{type(e).__name__}: {e}"


if __name__ == "__main__":
    if len(sys.argv) == 3 and sys.argv[1] == "--worker":
        sys.exit(worker(sys.argv[2]))
    print(sandbox_available() or "sandbox ok")
