"""C07 worker: executes one scenario (a history of operations ending in the probe) against the real
implementation in THIS interpreter and prints what happened as JSON.  Started as a fresh subprocess per
scenario by c07.py, so "a fresh process" is a real one.

Scenario (JSON on stdin): {"ops": [op, ...]} where op is
  {"op": "create", "backend": b}
  {"op": "handle", "who": "new" | k, "backend": b, "docker": null | [kind, image], "md": [decl...],
   "body": key, "outdir": bool}
decl (abstract form shared with the Coq model, see c07.py: decl_to_model):
  ["method", type, method, return_type] ["enum", ns, name, [values]] ["inject", name, [includes]]
  ["job", name, [script], [deps]] ["collection", backend, name] ["cppfunction", name]
  ["ext", kind, image|null] ["bad", exception-class]
The wrapper flow of one handle is the one of local_dataset.execute_result_async:
  exe = <new or reused>; [exe.add_extended_md({kind: DockerImageSpecification(image)})];
  exe.write_cpp_files(exe.apply_ast_transformations(ast), dir); exe.extended_md(kind)
Internal objects are read (never written) to take the snapshots the model is compared with."""
import ast
import json
import logging
import re
import sys
import tempfile
import types
from pathlib import Path

BACKENDS = ["atlas", "cms_aod", "cms_miniaod"]

# ---- query sources -------------------------------------------------------------------------
COLL = {
    "atlas": ('e.Jets("AntiKt4EMTopoJets")', "xAOD::Jet"),
    "cms_aod": ('e.Muons("muons")', "reco::Muon"),
    "cms_miniaod": ('e.Muons("slimmedMuons")', "pat::Muon"),
}
# further built-in collections whose element type carries backend default method types
ALT = {
    "atlas": [('e.TruthParticles("TruthParticles")', "xAOD::TruthParticle")],
    "cms_aod": [('e.GsfElectrons("gsfElectrons")', "reco::GsfElectron"), ('e.Tracks("generalTracks")', "reco::Track")],
    "cms_miniaod": [('e.Electrons("slimmedElectrons")', "pat::Electron")],
}
BUILTIN = {"atlas": "Jets", "cms_aod": "Muons", "cms_miniaod": "Muons"}
DEFAULT_BODY = {
    "atlas": 'lambda e: e.TruthParticles("TruthParticles").Select(lambda p: p.prodVtx().x())',
    "cms_aod": 'lambda e: e.Muons("muons").Select(lambda m: m.isPFMuon())',
    "cms_miniaod": 'lambda e: e.Muons("slimmedMuons").Select(lambda m: m.isPFMuon())',
}


def body_source(backend: str, key: str) -> str:
    c, _ = COLL[backend]
    if key == "plain":
        return f"lambda e: {c}.Select(lambda j: j.pt())"
    if key == "undeclared":  # the type of foo() is whatever the method-type registry says (default: double + warning)
        return f"lambda e: {c}.Select(lambda j: j.foo())"
    if key == "declared":  # the column type is int only if THIS query's own add_method_type_info was processed
        return f"lambda e: {c}.Select(lambda j: j.bar())"
    if key == "undeclared2":
        return f"lambda e: {c}.Select(lambda j: j.bar() + j.foo())"
    if key.startswith("undeclared_alt"):  # undeclared method on a type that HAS backend defaults
        alts = ALT[backend]
        return f"lambda e: {alts[(int(key[-1]) - 1) % len(alts)][0]}.Select(lambda j: j.foo())"
    if key == "use_mycoll":  # a collection name that exists only if some metadata declared it
        return 'lambda e: e.MyColl("bank").Select(lambda j: j.pt())'
    if key == "default":  # relies on the backend's default method types
        return DEFAULT_BODY[backend]
    if key == "enum":  # resolvable only if the enum xAOD.Jet.Color is in the namespace registry
        return f"lambda e: {c}.Select(lambda j: j.pt() > xAOD.Jet.Color.Red)"
    if key == "fail_finder":  # collection call without its argument: raises inside cpp_ast_finder
        return f"lambda e: {c.split('(')[0]}().Select(lambda j: j.pt())"
    if key == "fail_write_op":  # unsupported operator: raises inside the visitor
        return f"lambda e: {c}.Select(lambda j: j.pt() @ 2)"
    if key in ("fail_extract", "fail_passes"):
        return f"lambda e: {c}.Select(lambda j: j.pt())"
    raise ValueError(key)


def collection_md(bk: str, name: str):
    if bk == "atlas":
        return {"metadata_type": "add_atlas_event_collection_info", "name": name, "include_files": ["xAODCaloEvent/CaloClusterContainer.h"],
                "container_type": "xAOD::CaloClusterContainer", "element_type": "xAOD::CaloCluster", "contains_collection": True}
    t = "add_cms_aod_event_collection_info" if bk == "cms_aod" else "add_cms_miniaod_event_collection_info"
    return {"metadata_type": t, "name": name, "include_files": ["DataFormats/X.h"], "container_type": "reco::XCollection",
            "element_type": "reco::X", "contains_collection": True, "element_pointer": False}


def decl_to_md(d):
    k = d[0]
    if k == "method":
        return {"metadata_type": "add_method_type_info", "type_string": d[1], "method_name": d[2], "return_type": d[3]}
    if k == "enum":
        return {"metadata_type": "define_enum", "namespace": d[1], "name": d[2], "values": list(d[3])}
    if k == "inject":
        return {"metadata_type": "inject_code", "name": d[1], "body_includes": list(d[2])}
    if k == "job":
        # depends_on is an optional key: a block without dependencies is sent without it
        return {"metadata_type": "add_job_script", "name": d[1], "script": list(d[2]), **({"depends_on": list(d[3])} if d[3] else {})}
    if k == "collection":
        return collection_md(d[1], d[2])
    if k == "cppfunction":
        return {"metadata_type": "add_cpp_function", "name": d[1], "include_files": ["cmath"], "arguments": ["x"],
                "code": ["auto result = x;"], "return_type": "double"}
    if k == "ext":
        m = {"metadata_type": d[1]}
        if d[2] is not None:
            m["image"] = d[2]
        return m
    if k == "bad":
        return {"ValueError": {"metadata_type": "no_such_metadata_type"}, "ValueError2": {"name": "no type"},
                "KeyError": {"metadata_type": "add_method_type_info", "type_string": "x"}, "AttributeError": 5}[d[1]]
    raise ValueError(d)


def build_ast(backend: str, body: str, md) -> ast.AST:
    """The AST as the backend receives it (Select(MetaData(...(EventDataset), d), lambda)).
    extract_metadata lists the outermost MetaData first, so the first declaration is outermost."""
    ds = 'EventDataset("x")'
    for d in reversed(md):
        lit = "not_a_literal" if d is None else repr(decl_to_md(d))
        ds = f"MetaData({ds}, {lit})"
    if body == "fail_extract":  # a MetaData argument that is not a literal: extract_metadata raises
        ds = f"MetaData({ds}, not_a_literal)"
    if body == "fail_passes":  # Select without a lambda: simplify_chained_calls asserts
        return ast.parse(f"Select({ds}, 5)", mode="eval").body
    return ast.parse(f"Select({ds}, {body_source(backend, body)})", mode="eval").body


# ---- snapshots -----------------------------------------------------------------------------
def snap_mt():
    import func_adl_xAOD.common.cpp_types as ctyp

    return sorted([t, m, f"{i.r_type}/{i.deref_depth}"] for t, ms in ctyp.g_method_type_dict.items() for m, i in ms.items())


def snap_ns():
    import func_adl_xAOD.common.cpp_types as ctyp

    out = []

    def walk(ns):
        for e in ns.enums.values():
            out.append([ns.full_name, e.name, list(e.values)])
        for s in ns.names_spaces.values():
            walk(s)

    for ns in getattr(ctyp, "g_toplevel_ns", {}).values():
        walk(ns)
    return sorted(out)


def shared_default():
    from func_adl_xAOD.common.executor import executor

    d = executor.__init__.__defaults__
    return d[-1] if d else None


def snap_found(exe):
    return [[k, getattr(x, "image", repr(x))] for k, l in exe._found_extended_md.items() for x in l]


_BUILTIN_KEYS = {}


def created(exe):
    """Remember the method table the constructor built (to see later what queries added to it)."""
    _BUILTIN_KEYS[id(exe)] = dict(exe._method_names)
    return exe


def snap_methods(exe):
    """Names whose entry is not the one the constructor installed (new names and overridden built-ins)."""
    built = _BUILTIN_KEYS[id(exe)]
    return sorted(k for k, v in exe._method_names.items() if built.get(k) is not v)


def snap_exe(exe, backend):
    sd = shared_default()
    ext = ["shared"] if (sd is not None and exe._extended_md is sd) else ["own", sorted(exe._extended_md.keys())]
    return [backend, [b.name for b in exe._job_option_blocks], [b.name for b in exe._inject_blocks], ext, snap_found(exe), snap_methods(exe)]


def snap_state(execs):
    sd = shared_default()
    return [snap_mt(), snap_ns(), sorted(sd.keys()) if isinstance(sd, dict) else [], [snap_exe(e, b) for e, b in execs]]


IDENT_NUM = re.compile(r"(\b[A-Za-z_]\w*\d\b)")


def norm_ident(ident: str, c0: int, c1: int) -> str:
    """Names made by unique_name are base + str(counter); the k-th name of a translation that starts at
    counter c0 carries c0+k.  The base may itself end in digits (column "col1" -> "_col1" + "5"), so the
    counter is the shortest digit suffix inside the window [c0, c1); with fewer than 10 names per
    translation at most one suffix can be inside it."""
    digits = re.search(r"\d+$", ident).group(0)
    for k in range(1, len(digits) + 1):
        sfx = digits[-k:]
        if len(sfx) > 1 and sfx[0] == "0":
            continue
        if c0 <= int(sfx) < c1:
            return ident[: len(ident) - k] + f"#{int(sfx) - c0}"
    return ident


def same_up_to_numbering(a: str, wa, b: str, wb) -> bool:
    """Texts equal except that names generated in translation A (window wa) and the names at the same
    positions generated in translation B (window wb) may differ by the shift of the counter.  Tokens
    that are literally equal are never touched; the renaming must be one-to-one."""
    ta, tb = IDENT_NUM.split(a), IDENT_NUM.split(b)
    if len(ta) != len(tb):
        return False
    fwd, bwd = {}, {}
    for i, (x, y) in enumerate(zip(ta, tb)):
        if x == y:
            if i % 2 == 1 and (fwd.setdefault(x, y) != y or bwd.setdefault(y, x) != x):
                return False
            continue
        if i % 2 == 0:
            return False
        nx, ny = norm_ident(x, *wa), norm_ident(y, *wb)
        if nx != ny or "#" not in nx:
            return False
        if fwd.setdefault(x, y) != y or bwd.setdefault(y, x) != x:
            return False
    return True


def main():
    logging.disable(logging.CRITICAL)
    # local_dataset imports python_on_whales (absent here); only its DockerImageSpecification is used
    if "python_on_whales" not in sys.modules:
        try:
            import python_on_whales  # noqa: F401
        except Exception:
            stub = types.ModuleType("python_on_whales")
            stub.docker = object()
            sys.modules["python_on_whales"] = stub
    from func_adl_xAOD.atlas.xaod.executor import atlas_xaod_executor
    from func_adl_xAOD.cms.aod.executor import cms_aod_executor
    from func_adl_xAOD.cms.miniaod.executor import cms_miniaod_executor
    from func_adl_xAOD.common.local_dataset import DockerImageSpecification
    import func_adl_xAOD.common.cpp_vars as cpp_vars

    mk = {"atlas": atlas_xaod_executor, "cms_aod": cms_aod_executor, "cms_miniaod": cms_miniaod_executor}
    sc = json.loads(sys.stdin.read())
    if sc.get("defaults"):
        # the three default tables, each taken on an empty registry (this run does nothing else)
        import func_adl_xAOD.common.cpp_types as ctyp

        out = {}
        for b in BACKENDS:
            ctyp.g_method_type_dict = {}
            mk[b]()
            out[b] = [[t, m, f"{i.r_type}/{i.deref_depth}"] for t, ms in ctyp.g_method_type_dict.items() for m, i in ms.items()]
        print(json.dumps(out))
        return
    execs = []
    res = []
    kept_asts = {}
    for op in sc["ops"]:
        r = {}
        if op["op"] == "create":
            execs.append((created(mk[op["backend"]]()), op["backend"]))
            r["outcome"] = ["created"]
        else:
            who = op["who"]
            if who == "new" or who >= len(execs):
                execs.append((created(mk[op["backend"]]()), op["backend"]))
                who = len(execs) - 1
            exe, backend = execs[who]
            # "reuse": the VERY query object of an earlier identical operation is handed in again (a second .value() on one
            # ObjectStream): translating a query must not change the caller's query
            key = json.dumps([backend, op["body"], op["md"]])
            if op.get("reuse") and key in kept_asts:
                a = kept_asts[key]
            else:
                a = build_ast(backend, op["body"], op["md"])
                kept_asts[key] = a
            with tempfile.TemporaryDirectory(prefix="fv-c07-") as d:
                out = Path(d) if op.get("outdir", True) else Path(d) / "missing"
                c0 = cpp_vars.unique_var_index
                try:
                    if op.get("docker"):
                        exe.add_extended_md({op["docker"][0]: DockerImageSpecification(op["docker"][1])})
                    a2 = exe.apply_ast_transformations(a)
                except Exception as e:  # noqa: BLE001
                    r["outcome"] = ["raised", "apply", type(e).__name__]
                    r["message"] = str(e)[:300]
                else:
                    r["view"] = [snap_mt(), snap_ns(), [b.name for b in exe._inject_blocks], [b.name for b in exe._job_option_blocks], snap_methods(exe)]
                    try:
                        info = exe.write_cpp_files(a2, out)
                    except Exception as e:  # noqa: BLE001
                        r["outcome"] = ["raised", "write", type(e).__name__]
                        r["message"] = str(e)[:300]
                    else:
                        r["outcome"] = ["done"]
                        r["found"] = snap_found(exe)
                        rr = info.result_rep
                        r["package"] = {
                            "files": {f.name: [f.read_text(), f.stat().st_mode & 0o777] for f in sorted(out.iterdir())},
                            "main_script": info.main_script,
                            "all_filenames": list(info.all_filenames),
                            "treename": str(getattr(rr, "treename", None)),
                            "filename": str(getattr(rr, "filename", None)),
                        }
                if "message" in r:
                    r["message"] = re.sub(r"0x[0-9a-f]+", "0x?", r["message"]).replace(d, "<dir>")
                r["window"] = [c0, cpp_vars.unique_var_index]
        r["state"] = snap_state(execs)
        res.append(r)
    print(json.dumps(res))


if __name__ == "__main__":
    main()
