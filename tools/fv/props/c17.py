"""C17 - local docker execution runs the right image on the right files, or raises.

Theorems: coq/Properties/C17.v over coq/Model/LocalDataset.v (hand model of LocalDataset.__init__ /
execute_result_async / _extract_result_TTree and of the three subclasses).  Tie: the real classes of
all three backends are run with a stand-in `python_on_whales` (tools/stubs, never installed) whose
`docker.run` records its arguments and plays a scripted container; call records, filelist.txt and
the outcome are compared with the extracted model.  Search: the property text is evaluated directly
on the recorded call, the files the container saw and the returned value (independent of the model).
Runtime clause tested, not proved: no temporary directory is left behind on any path."""
import inspect
import json
import logging
import os
import random
import shutil
import sys
import tempfile
import time
from pathlib import Path
from typing import Any, Dict, List, Optional, Tuple

from .. import core, impl

PID = "C17"
PROP_FILE = "Properties/C17.v"
STUBS = core.VERIF / "tools" / "stubs"
TRUSTED = [
    "Coq 8.16.1 kernel (coqc); vm_compute only in the non-vacuity Examples",
    "hand model coq/Model/LocalDataset.v of common/local_dataset.py and the three subclasses (package generation abstract: raises or produces the package; pathlib parent/name split and path equality taken as given; log text not modelled)",
    "stand-in python_on_whales (tools/stubs): docker.run(stream=True) returns a generator of (source, bytes) and raises DockerException from it on a non-zero exit, as the real library documents; a relative volume source is a volume name for docker, not a directory",
    "extraction (ExtrOcamlBasic, ExtrOcamlString) + ocaml/main.ml driver + S-expression codec tools/fv/sexp.py",
    "correspondence check = differential test bounded by the generator below",
    "removal of the temporary directory is the contract of tempfile.TemporaryDirectory; tested on every path (directory listing after each run), not proved",
]
ASSUME = [
    "file arguments are str or Path, spelled consistently (all absolute, or all relative to one cwd); two spellings of one directory are different directories for the code and are not generated",
    "the container writes only into the volume mounted at /results",
    "container output chunks are bytes (any bytes); non-bytes content is played too but is outside the library's contract",
]

BACKENDS = ["atlas", "cms_aod", "cms_miniaod"]
QUERIES = {
    "atlas": lambda ds: ds.Select("lambda e: e.EventInfo('EventInfo').runNumber()").AsROOTTTree("junk.root", "my_tree", ["run"]),
    "cms_aod": lambda ds: ds.SelectMany("lambda e: e.TrackMuons('globalMuons')").Select("lambda m: m.pt()").AsROOTTTree("junk.root", "my_tree", ["pt"]),
    "cms_miniaod": lambda ds: ds.SelectMany("lambda e: e.Muons('slimmedMuons')").Select("lambda m: m.pt()").AsROOTTTree("junk.root", "my_tree", ["pt"]),
}
# file names include ones that read as glob patterns matching a SIBLING (run[1].root / run1.root, a?.root / ab.root, *.root):
# a file is named by its literal path, whatever else is in the directory
WORLD = {"d1": ["a.root", "b.root", "c d.root", "eé.root", "run[1].root", "run1.root", "a?.root", "ab.root", "*.root"],
         "d2": ["a.root", "x.root", "x[a-z].root", "xb.root"], "d1/sub": ["s.root"]}
RESULT_BYTES = b"root-file-content"
CHUNK_BYTES = {
    "ascii": b"Processing event 1\nsecond line\n",
    "utf8": "café ✓\n".encode(),
    "bad": b"caf\xe9 latin-1\n",
    "split": b"\xe2\x9c",
    "empty": b"",
    "str": "not bytes\n",
}
EXTRA_BYTES = {"text": b"a log line\n", "binary": b"\x7fELF\xff\xfe\x00\x80", "dir": None}
OTHER_MD = {"metadata_type": "inject_code", "name": "blk", "body_includes": ["vector"]}

_CLASSES: Dict[str, Any] = {}


def classes() -> Dict[str, Any]:
    """The real dataset classes, imported with the stand-in python_on_whales first on sys.path."""
    if not _CLASSES:
        if str(STUBS) not in sys.path:
            sys.path.insert(0, str(STUBS))
        import python_on_whales

        if getattr(python_on_whales, "__version__", "") != "0.0-fv-stub":
            raise RuntimeError("the stand-in python_on_whales is not the one that was imported")
        from func_adl_xAOD.atlas.xaod.local_dataset import xAODDataset
        from func_adl_xAOD.cms.aod.local_dataset import CMSRun1AODDataset
        from func_adl_xAOD.cms.miniaod.local_dataset import CMSRun2miniAODDataset

        _CLASSES.update({"atlas": xAODDataset, "cms_aod": CMSRun1AODDataset, "cms_miniaod": CMSRun2miniAODDataset,
                         "docker": python_on_whales.docker})
    return _CLASSES


# --------------------------------------------------------------------------------------------
# the world on disk
# --------------------------------------------------------------------------------------------
class World:
    def __init__(self):
        self.base = Path(f"/var/tmp/c17-work-{os.getpid()}")
        shutil.rmtree(self.base, ignore_errors=True)
        for d, names in WORLD.items():
            (self.base / d).mkdir(parents=True)
            for n in names:
                (self.base / d / n).write_text("data")
        self.tmp = self.base / "tmp"
        self.out = self.base / "out"
        self.fresh()

    def fresh(self):
        for d in (self.tmp, self.out):
            shutil.rmtree(d, ignore_errors=True)
            d.mkdir()

    def close(self):
        shutil.rmtree(self.base, ignore_errors=True)


def file_args(sc, w: World) -> List[Any]:
    """The actual `files` elements handed to the constructor."""
    out = []
    for i, (d, n) in enumerate(sc["files"]):
        if sc["style"] == "abs":
            s = str(w.base / d / n)
        elif sc["style"] == "rel":  # cwd = base
            s = f"{d}/{n}"
        else:  # "relcwd": cwd = base/<dir of the first file>
            d0 = sc["files"][0][0]
            s = n if d == d0 else os.path.relpath(str(w.base / d / n), str(w.base / d0))
        kind = sc["argtype"]
        as_path = kind in ("paths", "path") or (kind == "mixed" and i % 2 == 1)
        out.append(Path(s) if as_path else s)
    return out


def scenario_cwd(sc, w: World) -> Path:
    if sc["style"] == "relcwd" and sc["files"]:
        return w.base / sc["files"][0][0]
    return w.base


def md_dict(m) -> Dict[str, Any]:
    if m[0] == "docker":
        d = {"metadata_type": "docker"}
        if len(m) > 1:
            d["image"] = m[1]
        return d
    if m[0] == "other":
        return dict(OTHER_MD)
    return {"metadata_type": "no_such_metadata_type", "x": 1}


def default_image(backend: str) -> Tuple[str, str]:
    sig = inspect.signature(classes()[backend].__init__)
    return sig.parameters["docker_image"].default, sig.parameters["docker_tag"].default


# --------------------------------------------------------------------------------------------
# running the implementation
# --------------------------------------------------------------------------------------------
def reset_name_counter():
    """The translator numbers C++ variables with a process-global counter; start every run at 0 so that
    two translations of one query are comparable text for text."""
    import func_adl_xAOD.common.cpp_vars as cv

    cv.unique_var_index = 0


def run_impl(sc, w: World) -> Dict[str, Any]:
    cl = classes()
    reset_name_counter()
    docker = cl["docker"]
    w.fresh()
    k = sc["container"]
    docker.reset({
        "at_call": k["at_call"],
        "chunks": [(t, CHUNK_BYTES[kind]) for t, kind in k["chunks"]],
        "fail_after": k["fail_after"],
        "result": k["result"],
        "extras": [(n, EXTRA_BYTES[kind]) for n, kind in k["extras"]],
    })
    args = file_args(sc, w)
    files: Any = args
    if sc["argtype"] in ("str", "path") and len(args) == 1:
        files = args[0]
    elif sc["argtype"] == "tuple":
        files = tuple(args)
    kw: Dict[str, Any] = {}
    if sc["image"] is not None:
        kw["docker_image"], kw["docker_tag"] = sc["image"]
    outdir = None if sc["outdir"] is None else (w.out if sc["outdir"] == "out" else w.base / "no-such-dir")
    if outdir is not None:
        kw["output_directory"] = outdir
    old_cwd, old_tmp, old_env = os.getcwd(), tempfile.tempdir, os.environ.get("TMPDIR")
    os.chdir(scenario_cwd(sc, w))
    os.environ["TMPDIR"] = str(w.tmp)
    # a fresh interpreter has tempfile.tempdir = None until somebody calls gettempdir()
    tempfile.tempdir = None if sc["fresh_tempdir"] else str(w.tmp)
    stage = "constructor"
    try:
        ds = cl[sc["backend"]](files, **kw)
        stage = "execute"
        # the dataset is what it was given WHEN IT WAS MADE: what the caller does to its own list afterwards is not the dataset's
        if isinstance(files, list) and sc.get("mutate_after"):
            if sc["mutate_after"] == "clear":
                files.clear()
            elif sc["mutate_after"] == "append_missing":
                files.append(type(files[0])(str(w.base / "no-such-dir" / "late.root")) if files else str(w.base / "late.root"))
            else:
                files.reverse()
        # extract_metadata lists the outermost MetaData first: attach in reverse so that
        # process_metadata sees sc["mds"] in order
        for m in reversed(sc["mds"]):
            ds = ds.MetaData(md_dict(m))
        r = QUERIES[sc["backend"]](ds).value()
        outcome = ["ok", [str(p) for p in r]]
        msg = ""
    except Exception as e:  # noqa: BLE001 - the exception class is the observable
        outcome = ["error", type(e).__name__]
        msg = str(e)[:200]
    finally:
        os.chdir(old_cwd)
        tempfile.tempdir = old_tmp
        if old_env is None:
            os.environ.pop("TMPDIR", None)
        else:
            os.environ["TMPDIR"] = old_env
        impl.reset_globals()
    expected_out = w.tmp if outdir is None else outdir
    leftovers = sorted(p.name for p in w.tmp.iterdir() if not (outdir is None and p.name == "ANALYSIS.root"))
    copied = None
    if outcome[0] == "ok" and len(outcome[1]) == 1 and Path(outcome[1][0]).is_file():
        copied = Path(outcome[1][0]).read_bytes() == RESULT_BYTES
    return {"outcome": outcome, "message": msg, "stage": stage, "calls": list(docker.calls), "leftovers": leftovers,
            "generators_started": docker.generators_started, "generators_finished": docker.generators_finished,
            "out_dir": str(expected_out), "copied": copied, "tmp": str(w.tmp)}


def run_reuse(backend: str, pattern: List[Optional[str]], w: World) -> List[Any]:
    """Execute len(pattern) queries on ONE dataset object; entry k is the name of the image given by query k's docker
    metadata, or None for a query without docker metadata.  -> the image of each docker.run call (or the exception class)."""
    cl = classes()
    reset_name_counter()
    docker = cl["docker"]
    w.fresh()
    docker.reset({"at_call": False, "chunks": [], "fail_after": None, "result": True, "extras": []})
    old_cwd, old_tmp, old_env = os.getcwd(), tempfile.tempdir, os.environ.get("TMPDIR")
    os.environ["TMPDIR"] = str(w.tmp)
    tempfile.tempdir = str(w.tmp)
    out: List[Any] = []
    try:
        ds0 = cl[backend]([str(w.base / "d1" / "a.root")], output_directory=w.out)
        for p in pattern:
            ds = ds0 if p is None else ds0.MetaData({"metadata_type": "docker", "image": f"img/{p.lower()}:1"})
            n_before = len(docker.calls)
            try:
                QUERIES[backend](ds).value()
                out.append(docker.calls[-1]["image"] if len(docker.calls) > n_before else "no-call")
            except Exception as e:  # noqa: BLE001
                out.append("error:" + type(e).__name__)
            impl.reset_globals()
    finally:
        os.chdir(old_cwd)
        tempfile.tempdir = old_tmp
        if old_env is None:
            os.environ.pop("TMPDIR", None)
        else:
            os.environ["TMPDIR"] = old_env
    return out


def wire_calls(obs) -> Tuple[List[Any], Optional[str]]:
    """The recorded calls in the model's output format, and filelist.txt as the container saw it."""
    calls = []
    filelist = None
    tmp = Path(obs["tmp"])
    for c in obs["calls"]:
        pkg: Optional[Path] = None
        vols = []
        for v in c["volumes"]:
            src = v[0]
            if isinstance(src, Path) and src.parent == tmp and str(v[1]) in c["seen"]:
                if pkg is None:
                    pkg = src
                ws: List[Any] = ["pkg"] if src == pkg else ["pkg-other", str(src)]
            elif isinstance(src, Path):
                ws = ["dir", str(src)]
            elif isinstance(src, str):
                ws = ["name", src]
            else:
                ws = ["bad-type", repr(src)]
            vols.append([ws, str(v[1]), [str(v[2])] if len(v) > 2 else []] + ([["extra"]] if len(v) > 3 else []))
        kw = c["kwargs"]
        wc = [c["image"] if isinstance(c["image"], str) else repr(c["image"]), c["command"], vols,
              "true" if kw.get("remove") is True else "false", "true" if kw.get("stream") is True else "false"]
        other = sorted(k for k in kw if k not in ("remove", "stream"))
        if other or c["extra_args"]:
            wc.append(["unexpected", other, len(c["extra_args"])])
        calls.append(wc)
        fl = c["seen"].get("/scripts", {}).get("files", {}).get("filelist.txt")
        filelist = fl["text"] if fl else None
    return calls, filelist


def model_payload(sc, w: World) -> List[Any]:
    args = file_args(sc, w)
    cwd = scenario_cwd(sc, w)
    files = []
    for a in args:
        p = Path(a)
        files.append([str(p.parent), p.name, (cwd / p).exists()])
    image, tag = sc["image"] if sc["image"] is not None else default_image(sc["backend"])
    outdir = [] if sc["outdir"] is None else [str(w.out if sc["outdir"] == "out" else w.base / "no-such-dir")]
    k = sc["container"]
    chunks = ["other" if kind == "str" else ("stdout" if t == "stdout" else "stderr") for t, kind in k["chunks"]]
    bad_q = [m for m in sc["mds"] if m[0] == "bad"]
    mds = [m for m in sc["mds"] if m[0] != "bad"]
    return [files, image, tag, outdir, sc["backend"], str(w.tmp), str(cwd), sc["outdir"] != "missing",
            [list(m) for m in mds], ["ValueError"] if bad_q else [], k["at_call"], chunks,
            [] if k["fail_after"] is None else [k["fail_after"]], k["result"]]


# --------------------------------------------------------------------------------------------
# the property text, evaluated on what was recorded (independent of the model)
# --------------------------------------------------------------------------------------------
def oracle(sc, obs, w: World) -> Optional[Tuple[str, str]]:
    """(violation class, description) or None."""
    cwd = str(scenario_cwd(sc, w))
    paths = [os.path.normpath(os.path.join(cwd, str(a))) for a in file_args(sc, w)]
    out, calls = obs["outcome"], obs["calls"]
    if obs["leftovers"]:
        return "tempdir-left", f"temporary directory left behind: {obs['leftovers']}"
    missing = [p for p in paths if not os.path.exists(p)]
    dirs = sorted({os.path.dirname(p) for p in paths})
    bad_query = any(m[0] == "bad" for m in sc["mds"])
    if not paths or missing or len(dirs) > 1 or bad_query:
        why = "no files" if not paths else "missing file" if missing else "two directories" if len(dirs) > 1 else "refused query"
        if calls:
            return "container-started", f"{why}: a container was started"
        if out[0] != "error":
            return "no-error", f"{why}: no error was raised"
        if missing and paths and out[1] != "FileNotFoundError":
            return "wrong-error", f"missing file raised {out[1]}"
        return None
    # a container run is demanded
    if len(calls) != 1:
        if out == ["error", "AssertionError"] and obs["stage"] == "constructor" and sc["fresh_tempdir"]:
            return "tempdir-unset", "constructor raised AssertionError on existing files because tempfile.tempdir is still None (no gettempdir() call yet in this process)"
        return "call-count", f"docker.run called {len(calls)} times ({out})"
    c = calls[0]
    docker_mds = [m for m in sc["mds"] if m[0] == "docker"]
    dflt = ":".join(sc["image"] if sc["image"] is not None else default_image(sc["backend"]))
    want_image = dflt
    if docker_mds and len(docker_mds[-1]) > 1:
        want_image = docker_mds[-1][1]
    if c["image"] != want_image:
        return "image", f"ran image {c['image']!r}, the property names {want_image!r}"
    vols = c["volumes"]
    if len(vols) < 3:
        return "volumes", f"volumes {vols}"
    by_dst: Dict[str, List[Any]] = {}
    for v in vols:
        by_dst.setdefault(str(v[1]).rstrip("/") or "/", []).append(v)
    for dst, mode in (("/scripts", "ro"), ("/results", "rw"), ("/data", "ro")):
        vs = by_dst.get(dst, [])
        if len(vs) != 1 or len(vs[0]) != 3 or vs[0][2] != mode:
            return "volumes", f"{dst} is not mounted exactly once with mode {mode}: {vs}"
    pkg = by_dst["/scripts"][0][0]
    if by_dst["/results"][0][0] != pkg:
        return "volumes", "/scripts and /results are different directories"
    seen = c["seen"].get("/scripts")
    if not seen:
        return "package", "the /scripts source was not a directory when the container started"
    names = set(seen["files"])
    exe = impl.executors()[sc["backend"]]()
    want_names = set(exe._file_names) | {"filelist.txt"}
    impl.reset_globals()
    if names != want_names:
        return "package", f"package files {sorted(names)} != {sorted(want_names)}"
    cmd = c["command"]
    if not (isinstance(cmd, list) and len(cmd) == 1 and cmd[0].startswith("/scripts/") and cmd[0][9:] in names
            and seen["files"][cmd[0][9:]]["mode"] & 0o111):
        return "command", f"command {cmd} does not name an executable file of the package"
    want_fl = "".join(f"/data/{os.path.basename(p)}\n" for p in paths)
    if seen["files"]["filelist.txt"]["text"] != want_fl:
        return "filelist", f"filelist.txt {seen['files']['filelist.txt']['text']!r} != {want_fl!r}"
    data_src = by_dst["/data"][0][0]
    if not os.path.isabs(str(data_src)):
        return "relative-data-dir", (f"/data is mounted from {str(data_src)!r}: docker takes a relative source as the NAME of a volume "
                                     f"(an empty one is created), so the container does not see {dirs[0]}")
    if os.path.normpath(str(data_src)) != dirs[0]:
        return "data-dir", f"/data is mounted from {data_src}, the files are in {dirs[0]}"
    cache = [(("func_adl_" + v.docker_name), v.mount_point) for v in classes()[sc["backend"]].docker_cache_volume(None)]
    rest = [tuple(v) for v in vols if str(v[1]).rstrip("/") not in ("/scripts", "/results", "/data")]
    if rest != cache:
        return "cache-volumes", f"cache volumes {rest} != {cache}"
    if c["kwargs"].get("stream") is not True:
        return "stream", "docker.run was not asked to stream"
    # outcome
    k = sc["container"]
    typed = all(kind != "str" for _t, kind in k["chunks"])
    fails = k["at_call"] or k["fail_after"] is not None
    if out[0] == "ok":
        if fails or not k["result"] or sc["outdir"] == "missing":
            return "result-without-success", f"returned {out[1]} although the container failed / left no result"
        if out[1] != [os.path.join(obs["out_dir"], "ANALYSIS.root")] or obs["copied"] is not True:
            return "result-path", f"returned {out[1]} (copied={obs['copied']}), expected the result file in {obs['out_dir']}"
        return None
    if not typed:
        return None  # outside the library's contract: raising is acceptable
    delivered = k["chunks"] if k["fail_after"] is None else k["chunks"][: k["fail_after"]]
    dec = "undecodable-output" if any(kind in ("bad", "split") for _t, kind in delivered) and not k["at_call"] else "undecodable-results-file"
    what = ("a chunk of container output that is not valid UTF-8" if dec == "undecodable-output"
            else "a non-text file the container left in /results (every non-.root file there is read as text for the log)")
    if fails:
        if out[1] == "UnicodeDecodeError":
            return dec, f"the container failed, but instead of DockerException the caller gets UnicodeDecodeError raised while logging {what}"
        if out[1] != "DockerException":
            return "error-class", f"container failed but {out[1]} reached the caller instead of DockerException"
        return None
    if not k["result"] or sc["outdir"] == "missing":
        return None  # an error is what the property demands
    if out[1] == "UnicodeDecodeError":
        return dec, f"the container succeeded and wrote ANALYSIS.root, but UnicodeDecodeError was raised while logging {what}: no result is returned"
    if out[1] == "AssertionError" and sc["fresh_tempdir"]:
        return "tempdir-unset", "AssertionError because tempfile.tempdir is still None"
    return "spurious-error", f"the container succeeded and wrote the result but {out[1]} was raised: {obs['message']}"


# --------------------------------------------------------------------------------------------
# generation
# --------------------------------------------------------------------------------------------
IMAGES = [["myrepo/img", "v1"], ["localhost:5000/x", "latest"], ["img", "1.0-rc"], ["a/b/c", "t"]]
MD_IMAGES = ["crazy/atlas:latest", "other/img:2", "third:3"]


def gen_container(rng: random.Random) -> Dict[str, Any]:
    n = rng.choice([0, 1, 1, 2, 2, 3, 5])
    r = rng.random()
    kinds = ["ascii", "ascii", "ascii", "utf8", "empty"]
    types = ["stdout", "stdout", "stderr"]
    k = {"at_call": False, "fail_after": None, "result": True, "extras": []}
    if r < 0.50:
        pass
    elif r < 0.56:
        k["at_call"] = True
        k["result"] = False
    elif r < 0.72:
        k["fail_after"] = rng.randint(0, n + 1)
        k["result"] = rng.random() < 0.3
    elif r < 0.82:
        k["result"] = False
    else:
        kinds = kinds + ["bad", "split", "bad"] + (["str"] if rng.random() < 0.2 else [])
        types = types + ["other"]
        n = max(n, 1)
        if rng.random() < 0.5:
            k["extras"] = rng.sample([["lib.so", "binary"], ["log.txt", "text"], ["subdir", "dir"], ["core", "binary"]], rng.randint(1, 2))
        if rng.random() < 0.25:
            k["fail_after"] = rng.randint(0, n + 1)
    k["chunks"] = [[rng.choice(types), rng.choice(kinds)] for _ in range(n)]
    return k


def gen_scenario(rng: random.Random) -> Dict[str, Any]:
    backend = rng.choice(BACKENDS)
    nf = rng.choice([0] + [1] * 7 + [2] * 6 + [3] * 4 + [4] * 2)
    r = rng.random()
    d0 = rng.choice(["d1", "d1", "d2", "d1/sub"])
    files = []
    for _ in range(nf):
        pool = WORLD[d0]
        files.append([d0, rng.choice(pool)])
    if files and r < 0.12:  # a second directory
        d1 = rng.choice([d for d in WORLD if d != d0])
        files.insert(rng.randint(0, len(files)), [d1, rng.choice(WORLD[d1])])
    elif files and r < 0.24:  # a missing file
        files[rng.randrange(len(files))] = [d0, "zz.root"]
    elif files and r < 0.28:
        files.append([d0, "zz.root"])
        files.insert(0, ["d2" if d0 != "d2" else "d1", "a.root"])
    style = rng.choice(["abs"] * 5 + ["rel"] * 3 + ["relcwd"] * 2)
    argtype = rng.choice(["strs", "strs", "paths", "paths", "mixed", "tuple"] + (["str", "path"] if len(files) == 1 else []))
    nm = rng.choice([0] * 5 + [1] * 3 + [2] * 2 + [3])
    mds: List[List[str]] = []
    for _ in range(nm):
        mds.append(["docker", rng.choice(MD_IMAGES)] if rng.random() < 0.85 else ["docker"])
        if rng.random() < 0.25:
            mds.insert(rng.randint(0, len(mds)), ["other"])
    if rng.random() < 0.05:
        mds.insert(rng.randint(0, len(mds)), ["bad"])
    return {
        "mutate_after": rng.choice(["clear", "append_missing", "reverse"]) if (argtype in ("strs", "paths", "mixed") and rng.random() < 0.3) else None,
        "backend": backend, "files": files, "style": style, "argtype": argtype,
        "image": rng.choice(IMAGES) if rng.random() < 0.4 else None,
        "outdir": rng.choice([None] * 5 + ["out"] * 4 + ["missing"]),
        "fresh_tempdir": rng.random() < 0.2,
        "mds": mds, "container": gen_container(rng),
    }


def corpus() -> List[Dict[str, Any]]:
    """The cases of the skipped tests/*/test_local_dataset.py plus one case per corner examined."""
    ok = {"at_call": False, "chunks": [["stdout", "ascii"]], "fail_after": None, "result": True, "extras": []}
    base = {"style": "abs", "argtype": "strs", "image": None, "outdir": None, "fresh_tempdir": False, "mds": [], "container": ok}
    out = []
    for b in BACKENDS:
        out.append({**base, "backend": b, "files": [["d1", "a.root"]], "argtype": "path"})
        out.append({**base, "backend": b, "files": [["d1", "a.root"]], "mds": [["docker", "crazy/atlas:latest"]]})
        out.append({**base, "backend": b, "files": [["d1", "a.root"], ["d1", "a.root"]]})
        out.append({**base, "backend": b, "files": [["d1", "a.root"], ["d2", "a.root"]]})
        out.append({**base, "backend": b, "files": [["d1", "zz.root"]]})
        out.append({**base, "backend": b, "files": [["d1", "run[1].root"]]})
        out.append({**base, "backend": b, "files": [["d1", "a?.root"], ["d2", "x[a-z].root"]]})
        out.append({**base, "backend": b, "files": [["d1", "*.root"]]})
        out.append({**base, "backend": b, "files": []})
        out.append({**base, "backend": b, "files": [["d1", "a.root"]], "container": {**ok, "at_call": True, "result": False}})
        out.append({**base, "backend": b, "files": [["d1", "a.root"]], "outdir": "out"})
        out.append({**base, "backend": b, "files": [["d1", "a.root"]], "fresh_tempdir": True})
        out.append({**base, "backend": b, "files": [["d1", "a.root"], ["d1", "b.root"]], "style": "rel"})
        out.append({**base, "backend": b, "files": [["d1", "a.root"]], "style": "relcwd"})
        out.append({**base, "backend": b, "files": [["d1", "a.root"]], "container": {**ok, "chunks": [["stdout", "bad"]]}})
        out.append({**base, "backend": b, "files": [["d1", "a.root"]], "container": {**ok, "extras": [["lib.so", "binary"]]}})
        out.append({**base, "backend": b, "files": [["d1", "a.root"]], "container": {**ok, "fail_after": 1, "extras": [["core", "binary"]]}})
        out.append({**base, "backend": b, "files": [["d1", "a.root"]], "mds": [["docker", "x:1"], ["other"], ["docker", "y:2"], ["docker"]]})
    return out


def simplifications(sc):
    """Smaller variants of a scenario, most drastic first."""
    ok = {"at_call": False, "chunks": [], "fail_after": None, "result": True, "extras": []}
    if sc["container"] != ok:
        yield {**sc, "container": ok}
    k = sc["container"]
    for i in range(len(k["chunks"])):
        yield {**sc, "container": {**k, "chunks": k["chunks"][:i] + k["chunks"][i + 1:]}}
    for i in range(len(k["extras"])):
        yield {**sc, "container": {**k, "extras": k["extras"][:i] + k["extras"][i + 1:]}}
    if k["fail_after"] is not None:
        yield {**sc, "container": {**k, "fail_after": None}}
    for i in range(len(sc["mds"])):
        yield {**sc, "mds": sc["mds"][:i] + sc["mds"][i + 1:]}
    if len(sc["files"]) > 1:
        for i in range(len(sc["files"])):
            yield {**sc, "files": sc["files"][:i] + sc["files"][i + 1:]}
    for key, val in (("fresh_tempdir", False), ("image", None), ("outdir", None), ("style", "abs"), ("argtype", "strs"), ("backend", "atlas")):
        if sc[key] != val:
            yield {**sc, key: val}


def shrink(sc, cls: str, w: World):
    cur = sc
    progress = True
    while progress:
        progress = False
        for cand in simplifications(cur):
            o = oracle(cand, run_impl(cand, w), w)
            if o is not None and o[0] == cls:
                cur = cand
                progress = True
                break
    return cur


def nontrivial(sc) -> bool:
    k = sc["container"]
    return len(sc["files"]) >= 2 or bool(sc["mds"]) or k["at_call"] or k["fail_after"] is not None or not k["result"] or bool(k["extras"])


def jsonable_obs(obs) -> Dict[str, Any]:
    calls, fl = wire_calls(obs)
    return {"outcome": obs["outcome"], "message": obs["message"], "stage": obs["stage"], "calls": calls, "filelist": fl,
            "leftovers": obs["leftovers"], "generators_started": obs["generators_started"], "generators_finished": obs["generators_finished"]}


def compare(sc, obs, rm, w: World) -> Optional[Dict[str, Any]]:
    """Model vs implementation: calls, filelist (when a container saw it), outcome."""
    calls, fl = wire_calls(obs)
    if not (isinstance(rm, list) and len(rm) == 3):
        return {"scenario": sc, "model": rm, "why": "model refused the payload"}
    m_calls, m_fl, m_out = rm
    out = obs["outcome"]
    diff = []
    if m_calls != calls:
        diff.append("calls")
    if calls and m_fl != fl:
        diff.append("filelist")
    if m_out != out:
        diff.append("outcome")
    if diff:
        return {"scenario": sc, "differs": diff, "implementation": {"calls": calls, "filelist": fl, "outcome": out, "message": obs["message"]},
                "model": {"calls": m_calls, "filelist": m_fl, "outcome": m_out}}
    return None


def package_matches_translator(sc, obs) -> Optional[bool]:
    """'generates the package': the files the container saw in /scripts are the translator's output for
    the same query (checked where the plain executor accepts the metadata, i.e. no docker entries)."""
    if sc["mds"] or not obs["calls"]:
        return None
    from func_adl import EventDataset

    class _Plain(EventDataset):
        async def execute_result_async(self, a, title=None):
            return a

    a = QUERIES[sc["backend"]](_Plain()).value()
    reset_name_counter()
    r = impl.translate(sc["backend"], a)
    impl.reset_globals()
    if r[0] != "ok":
        return False
    seen = obs["calls"][0]["seen"].get("/scripts", {}).get("files", {})
    for name, f in r[1]["files"].items():
        if name not in seen or seen[name]["text"] != f["text"] or seen[name]["mode"] != f["mode"]:
            return False
    return True


# --------------------------------------------------------------------------------------------
def check(tier: str, seed: int, t0: float, build: core.BuildStatus) -> int:
    logging.disable(logging.CRITICAL)
    ps = core.proof_status(PROP_FILE, build)
    oc = core.Outcome()
    rng = random.Random(seed * 7919 + 17)
    n_random = 4000 if tier == "quick" else 40000
    cases = corpus()
    n_corpus = len(cases)
    cases.extend(gen_scenario(rng) for _ in range(n_random))
    model = core.Model() if build.model_ok else None
    w = World()
    distinct = set()
    hist: Dict[str, Dict[str, int]] = {k: {} for k in ("backend", "n_files", "input_class", "style", "argtype", "docker_md_entries", "container", "outcome")}

    def bump(k, v):
        hist[k][str(v)] = hist[k].get(str(v), 0) + 1

    pkg_checked = pkg_ok = 0
    found: Dict[str, int] = {}
    try:
        for i, sc in enumerate(cases):
            obs = run_impl(sc, w)
            oc.evaluations += 1
            k = sc["container"]
            bump("backend", sc["backend"])
            bump("n_files", len(sc["files"]))
            bump("style", sc["style"])
            bump("argtype", sc["argtype"])
            bump("docker_md_entries", sum(1 for m in sc["mds"] if m[0] == "docker"))
            bump("container", "at_call" if k["at_call"] else "fail_after" if k["fail_after"] is not None else "no_result" if not k["result"] else
                 "odd_output" if any(kind in ("bad", "split", "str") for _t, kind in k["chunks"]) or k["extras"] else "success")
            bump("input_class", "precheck" if not obs["calls"] else "container")
            bump("outcome", obs["outcome"][0] if obs["outcome"][0] == "ok" else obs["outcome"][1])
            if nontrivial(sc):
                distinct.add(json.dumps(sc, sort_keys=True))
            bad = oracle(sc, obs, w)
            if bad:
                cls = bad[0]
                found[cls] = found.get(cls, 0) + 1
                if found[cls] == 1:
                    small = shrink(sc, cls, w)
                    so = run_impl(small, w)
                    why = oracle(small, so, w)
                    oc.violations.append(core.Violation(
                        key="c17:" + cls,
                        what=f"{sc['backend']} local dataset, files {file_args(small, w)} (cwd {scenario_cwd(small, w)}), container {small['container']}: {why[1]}",
                        replay={"kind": "scenario", "scenario": small, "implementation": jsonable_obs(so),
                                "model": model.call("c17.execute", model_payload(small, w)) if model else None,
                                "broken": "property oracle on the implementation's recorded docker.run call and return value "
                                          "(theorems C17_call / C17_outcome describe the model, which mirrors the repaired code)"}))
                continue
            if model is not None:
                rm = model.call("c17.execute", model_payload(sc, w))
                d = compare(sc, obs, rm, w)
                if d:
                    oc.correspondence_breaks.append(d)
                else:
                    oc.traces_validated_against_impl += 1
            if i % 25 == 0:
                pm = package_matches_translator(sc, obs)
                if pm is not None:
                    pkg_checked += 1
                    pkg_ok += 1 if pm else 0
                    if not pm:
                        oc.violations.append(core.Violation(
                            key="c17:package", what=f"the package mounted at /scripts differs from the translator's output for the same query ({sc['backend']})",
                            replay={"kind": "scenario", "scenario": sc, "implementation": jsonable_obs(obs)}))
        # one dataset object, several queries: every execution chooses its image from ITS OWN query's docker metadata
        # (else the dataset's image:tag), whatever the queries before it carried
        for be in BACKENDS:
            for pattern in (["X", None], [None, "X", None], ["X", "Y", None], [None, None]):
                got = run_reuse(be, pattern, w)
                oc.evaluations += 1
                bump("container", "dataset-reuse")
                dflt = ":".join(default_image(be))
                want = [(f"img/{p.lower()}:1" if p else dflt) for p in pattern]
                distinct.add(json.dumps(["reuse", be, pattern]))
                if got != want:
                    oc.violations.append(core.Violation(
                        key="c17:image-after-reuse",
                        what=f"{be} local dataset object reused for {len(pattern)} queries with docker metadata {pattern}: ran images {got}, the property names {want}",
                        replay={"kind": "reuse", "backend": be, "pattern": pattern, "ran": got, "expected": want}))
                else:
                    oc.traces_validated_against_impl += 1
    finally:
        w.close()
        if model is not None:
            model.close()
    oc.distinct_nontrivial = len(distinct)
    oc.rule = (f"corpus ({n_corpus}: the cases of the skipped tests/*/test_local_dataset.py on all three backends + one per examined corner) + {n_random} random scenarios: "
               "backend x 0..4 files from 3 directories (12% second directory, 16% missing file, duplicates, names with space / non-ASCII) x absolute / relative / cwd-relative spelling "
               "x str / Path / list / tuple argument x default or explicit image:tag x output directory none / existing / missing x tempfile.tempdir set / unset "
               "x 0..3 docker metadata entries (15% without image key) interleaved with other metadata, 5% refused metadata "
               "x container: success, DockerException at the call, DockerException after chunk k (0..n+1), missing result file, non-UTF-8 / split / empty / non-bytes chunks, "
               "other stream names, text / binary / directory leftovers in /results; non-trivial = >= 2 files or metadata or a container that is not the plain success; distinct by value")
    oc.samples = cases[n_corpus:n_corpus + 3] + cases[:1]
    oc.extra = {"input_distribution": hist, "oracle_failures_by_class": found, "model_available": model is not None,
                "package_vs_translator_checked": pkg_checked, "package_vs_translator_equal": pkg_ok,
                "leftover_tempdir_checked_on_every_run": True, "implementation_under_test": str(core.REPO)}
    if not oc.violations and (ps.broken or oc.correspondence_breaks or model is None or core.build_hygiene_cache()):
        what = ps.broken or (f"correspondence LocalDataset.run vs the real classes: {json.dumps(oc.correspondence_breaks[0], default=str)[:1500]}" if oc.correspondence_breaks else
                             ("hygiene gate: " + "; ".join(core.build_hygiene_cache()) if core.build_hygiene_cache() else "model executable could not be built"))
        oc.violations.append(core.Violation(key="c17:unproved", what=what, no_failing_input=True,
                                            replay={"broken": what, "searched": f"{oc.evaluations} scenarios with the property oracle, none failed"}))
    return core.finish(PID, tier, seed, t0, ps, build, oc, TRUSTED, ASSUME)


def replay(path: str, build: core.BuildStatus) -> int:
    logging.disable(logging.CRITICAL)
    data = json.loads(open(path).read())
    if data.get("no_failing_input_found"):
        print(f"replay names a broken obligation only: {data.get('broken')}")
        ps = core.proof_status(PROP_FILE, build)
        print("proof status now:", ps.broken or "all theorems check")
        return 1 if ps.broken else 0
    if data.get("kind") == "reuse":
        w = World()
        try:
            got = run_reuse(data["backend"], data["pattern"], w)
        finally:
            w.close()
        dflt = ":".join(default_image(data["backend"]))
        want = [(f"img/{p.lower()}:1" if p else dflt) for p in data["pattern"]]
        print("docker metadata per query on one dataset object:", data["pattern"], "\nran:", got, "\nexpected:", want)
        if got != want:
            print(f"VIOLATION property={PID} replay={path}")
            return 1
        return 0
    sc = data["scenario"]
    w = World()
    try:
        obs = run_impl(sc, w)
        print("scenario:", json.dumps(sc))
        print("files argument:", file_args(sc, w), "cwd:", scenario_cwd(sc, w))
        print("implementation:", json.dumps(jsonable_obs(obs), default=str))
        if build.model_ok:
            m = core.Model()
            print("model:", m.call("c17.execute", model_payload(sc, w)))
            m.close()
        why = oracle(sc, obs, w)
        print("oracle:", f"{why[0]}: {why[1]}" if why else "property holds on this input")
    finally:
        w.close()
    if why:
        print(f"VIOLATION property={PID} replay={path}")
        return 1
    return 0
