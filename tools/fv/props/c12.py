"""C12 - every documented math function is accepted and computes its namesake.

Theorem over the regenerated table (gen/MathTable.v): Properties/C12.v.  Tie: regeneration by
tools/fv/translators/mathtable.py (fail-closed) plus end-to-end traces: every documented name is
used in real queries on all three backends, standalone and inside arithmetic, and the emitted call
and include are compared with the model's row.  Search: the same traces name the query whose
generated job calls the wrong function or is refused."""
import json
import logging
import math
import re
import subprocess
import tempfile
from pathlib import Path
from typing import Any, Dict, List, Optional, Tuple

from .. import core, impl

PID = "C12"
PROP_FILE = "Properties/C12.v"
TRUSTED = [
    "Coq 8.16.1 kernel; vm_compute on the regenerated finite table (the bound is the table itself)",
    "translator tools/fv/translators/mathtable.py: Python ast of cpp_functions.py (literal add_function_mapping calls in order; normal forms of add_function_mapping and find_known_functions.visit_Call compared textually), README list by regex, builtins' __module__ read from /venv/bin/python",
    "hand-written <cmath> signature table (arity, out-pointer parameters) in coq/Model/MathFuncs.v, from ISO C++",
    "what each std:: function computes is the C library's business (the theorem is about which function is called, with which header, typed how)",
    "extraction + OCaml driver for the audit listing; end-to-end traces are tests",
]
ASSUME = [
    "name resolution is Python's eval() in the module namespace of cpp_functions.py followed by builtins",
    "README.md's list is what 'the documentation lists'",
]

BACKENDS = ["atlas", "cms_aod", "cms_miniaod"]
KNOWN_UNUSABLE = {"remquo"}


def arg_exprs(name: str, arity: int) -> List[str]:
    if name == "nan":
        return ['""']
    base = ["m.pt()", "m.eta()", "m.phi()"]
    args = base[:arity]
    if name in ("ldexp", "scalbn", "scalbln") and arity == 2:
        args[1] = "2"
    return args


def partner(name: str, arity: int) -> str:
    """another documented function of the same arity (for the `pair` position)"""
    if name in ("ldexp", "scalbn", "scalbln"):
        return "ldexp" if name != "ldexp" else "scalbn"
    cand = {1: ["sin", "cos"], 2: ["atan2", "fmod"], 3: ["fma", "fma"]}.get(arity, ["sin", "cos"])
    return cand[0] if name != cand[0] else cand[1]


def outer_of(name: str) -> str:
    return "sinh" if name == "cosh" else "cosh"


def call_args(text: str, fn: str) -> List[str]:
    """argument texts of every `fn(` call in the emitted code (balanced parentheses)"""
    out = []
    for m in re.finditer(re.escape(fn) + r"\(", text):
        depth, i = 1, m.end()
        while i < len(text) and depth:
            depth += {"(": 1, ")": -1}.get(text[i], 0)
            i += 1
        out.append(text[m.end():i - 1])
    return out


def make_query(name: str, arity: int, position: str) -> str:
    if position == "intarg":
        # every argument is an integer-typed expression: the result must still be a double column
        args = ['""'] if name == "nan" else ['e.Muons("muons").Count()', "2", "3"][:arity]
        return f"ds.Select(lambda e: {name}({', '.join(args)}))"
    if position == "literal" and name != "nan":
        # every argument a numeric literal (a halfway value first: C's round / nearbyint / rint differ from Python's there):
        # the job still calls the C++ function - nothing is computed at translation time with some other library's function
        args = ["2.5", "0.5", "1.5"][:arity]
        if name in ("ldexp", "scalbn", "scalbln") and arity == 2:
            args[1] = "2"
        return f"ds.Select(lambda e: {name}({', '.join(args)}))"
    if position == "hdr":
        # the plain call, in a query that also carries an inject_code block asking for the same header in the HEADER file
        return f'ds.Select(lambda e: e.Muons("muons").Select(lambda m: {name}({", ".join(arg_exprs(name, arity))})))'
    if position == "deref" and name != "nan":
        # the argument is a method reached through a dereference (declared with deref_count 1: emitted as (*obj)->dpt()): the
        # whole of it is the function's argument
        args = arg_exprs(name, arity)
        args[0] = "m.dpt()"
        return f'ds.Select(lambda e: e.Muons("muons").Select(lambda m: {name}({", ".join(args)})))'
    call = f"{name}({', '.join(arg_exprs(name, arity))})"
    if position == "nested" and name != "nan":
        # a documented function whose arguments are themselves documented functions, inside another one
        inner = [a if a.isdigit() else f"fabs({a})" for a in arg_exprs(name, arity)]
        call = f"cosh({name}({', '.join(inner)}))"
    if position == "first" and name != "nan":
        # the function applied to a value that lives inside First()'s loop, standing alone in its column and as the
        # right operand of an arithmetic expression
        args = arg_exprs(name, arity)
        args[0] = 'e.Muons("muons").First().pt()'
        args = [a.replace("m.eta()", "2.5").replace("m.phi()", "1.5") for a in args]
        return f"ds.Select(lambda e: (1 + {name}({', '.join(args)}), e.Muons(\"muons\").Count()))"
    if position == "first2" and name != "nan":
        # two arguments that each live inside their own First() loop (one-argument functions: the same as "first")
        args = arg_exprs(name, arity)
        args[0] = 'e.Muons("muons").First().pt()'
        if arity >= 2:
            args[1] = 'e.Muons("others").First().eta()'
        args = [a.replace("m.eta()", "2.5").replace("m.phi()", "1.5") for a in args]
        return f"ds.Select(lambda e: ({name}({', '.join(args)}), e.Muons(\"muons\").Count()))"
    if position == "pair" and name != "nan":
        # two columns that differ only in the documented function under an equal outer call: each keeps its own function
        other = partner(name, arity)
        args = ", ".join(arg_exprs(name, arity))
        return f'ds.SelectMany(lambda e: e.Muons("muons")).Select(lambda m: ({outer_of(name)}({name}({args})), {outer_of(name)}({other}({args}))))'
    if position == "shadow" and name != "nan":
        # the same call text under two different bindings of the same parameter name: each applies to its own object
        args = ", ".join(arg_exprs(name, arity))
        return (f'ds.Select(lambda e: e.Muons("muons").Select(lambda m: {name}({args}) * '
                f'e.Muons("others").Select(lambda m: {name}({args})).Sum()))')
    if position == "arith":
        call = f"({call} * 2 + m.pt()) / 3"
    return f'ds.Select(lambda e: e.Muons("muons").Select(lambda m: {call}))'


def query_code_of(backend: str, files: Dict[str, Any]) -> Tuple[str, str]:
    main = "query.cxx" if backend == "atlas" else "Analyzer.cc"
    return main, files[main]["text"]


def run_trace(backend: str, name: str, arity: int, position: str):
    src = make_query(name, arity, position)
    md = None
    if position == "hdr":
        md = [{"metadata_type": "inject_code", "name": "fv_hdr", "header_includes": ["cmath", "vector"], "private_members": ["double m_fv_scale = std::sqrt(2.0);"]}]
    if position == "deref":
        from .. import qgen as _qg
        md = [{"metadata_type": "add_method_type_info", "type_string": _qg.Universe(backend).colls["Muons"][1], "method_name": "dpt",
               "return_type": "double", "deref_count": 1}]
    try:
        a = impl.query_ast(src, md)
    except Exception as e:  # noqa: BLE001
        return src, ("error", "query-construction:" + type(e).__name__, str(e)[:200])
    r = impl.translate(backend, a)
    impl.reset_globals()
    return src, r


def called_functions(text: str) -> List[str]:
    return re.findall(r"\b(std::[A-Za-z_0-9]+)\(", text)


def differs_at(a: str, b: str) -> Optional[str]:
    """A sample argument where the two cmath functions (by Python's math module) differ."""
    fa, fb = getattr(math, a, None), getattr(math, b, None)
    if fa is None or fb is None:
        return None
    for x in (1.5, -1.5, 0.25, 2.0, 7.0):
        for args in ((x,), (x, 2.0)):
            try:
                va, vb = fa(*args), fb(*args)
            except Exception:  # noqa: BLE001
                continue
            if va != vb:
                return f"at {args}: {a}={va} but {b}={vb}"
    return None


def gxx_accepts(call: str) -> Tuple[bool, str]:
    with tempfile.TemporaryDirectory(prefix="fv-c12-") as d:
        p = Path(d) / "t.cc"
        p.write_text(f"#include <cmath>\ndouble f(double a, double b, double c) {{ return {call}; }}\n")
        r = subprocess.run(["g++", "-std=c++17", "-fsyntax-only", str(p)], text=True, capture_output=True, timeout=120)
        errs = [ln.split("error:", 1)[1].strip() for ln in r.stderr.splitlines() if "error:" in ln]
        return r.returncode == 0, (errs or [""])[0][:200]


def check(tier: str, seed: int, t0: float, build: core.BuildStatus) -> int:
    logging.disable(logging.CRITICAL)
    ps = core.proof_status(PROP_FILE, build)
    oc = core.Outcome()
    refusal = build.gen_errors.get("MathTable.v")
    audit: List[Any] = []
    if build.model_ok:
        m = core.Model()
        audit = m.call("c12.audit", [])
        m.close()
    # when the translator refused, fall back to the README list read directly so that the traces still run
    if not audit:
        try:
            from ..translators.mathtable import parse_readme

            audit = [[n, "?", [], "false", []] for n in parse_readme()]
        except Exception:  # noqa: BLE001
            audit = []
    positions = ["alone", "arith", "intarg", "literal", "nested", "first", "pair", "shadow", "deref", "hdr", "first2"]
    smodel = core.Model() if build.model_ok else None
    distinct = set()
    per_name: Dict[str, Dict[str, Any]] = {}
    for ent in audit:
        name, qualified, row, ok, sig = ent
        arity = int(sig[0]) if sig else 1
        outptr = bool(sig) and sig[1] == "true"
        n_query_args = arity - 1 if outptr else arity
        model_cpp = row[1] if row else None
        status = {"resolved": qualified, "model_row": row, "model_ok": ok == "true", "traces": 0}
        per_name[name] = status
        for backend in BACKENDS:
            for pos in positions:
                src, r = run_trace(backend, name, n_query_args, pos)
                oc.evaluations += 1
                distinct.add(src)
                status["traces"] += 1
                replay = {"kind": "trace", "backend": backend, "name": name, "query": src, "model_row": row, "resolved_as": qualified, "position": pos}
                if r[0] == "error":
                    oc.violations.append(core.Violation(
                        key=f"c12:rejected:{name}", what=f"documented math function {name} is refused on {backend}: {r[1]}: {r[2][:120]}",
                        replay={**replay, "implementation": list(r)}))
                    continue
                main, text = query_code_of(backend, r[1]["files"])
                calls = [c for c in called_functions(text) if c not in ("std::string", "std::vector", "std::runtime_error")]
                replay["emitted_calls"] = calls
                acceptable = {f"std::{name}"} | ({"std::log"} if name == "ln" else set()) | ({"std::fabs", "std::abs"} if name == "abs" else set())
                want = [c for c in calls if c in acceptable]
                if not want:
                    other = [c for c in calls if c.startswith("std::")]
                    hint = differs_at(name, other[0][5:]) if other else None
                    oc.violations.append(core.Violation(
                        key=f"c12:wrong-function:{name}",
                        what=f"{name}(...) is emitted as {other[0] if other else 'no call'} on {backend}" + (f" ({hint})" if hint else ""),
                        replay={**replay, "differs": hint}))
                    continue
                if pos in ("first", "first2") and name != "nan" and smodel is not None:
                    # the value of the call must be used where its arguments are in scope (Coq-defined checker of C02)
                    from .. import cxx, qgen as _qgen, semrun
                    from . import c02 as _c02
                    try:
                        prog, ql = cxx.parse_program(backend, r[1]["slots"])
                        semrun._resolve_tokens(prog)
                        res = smodel.call("c02.check", [prog, _c02.method_table(_qgen.Universe(backend))])
                        bad_scope = ([f"{x[0]}: {n}" for x in res[1:] if x[0] in ("well_scoped", "unique_decls") for n in x[1]]
                                     if res[0] == "ok" else [f"model refused the program: {res}"])
                    except cxx.ParseError as e:
                        bad_scope = [f"emitted code outside the C++ subset: {e}"]
                    if bad_scope:
                        oc.violations.append(core.Violation(
                            key=f"c12:first-arg-scope:{name}", what=f"1 + {name}(<value of First()>) on {backend}: the emitted code is not well-scoped ({bad_scope[0][:120]})",
                            replay={**replay, "static_checker": bad_scope[:4]}))
                        continue
                if pos == "deref" and name != "nan":
                    inner = call_args(text, want[0])
                    if not inner or not any("dpt()" in a and a.count("(") == a.count(")") for a in inner):
                        oc.violations.append(core.Violation(
                            key=f"c12:argument-cut:{name}",
                            what=f"{name}(m.dpt(), ..) with dpt reached through a dereference on {backend}: the text between the parentheses of {want[0]}( is {inner}, "
                                 "the method call is not (wholly) the function's argument",
                            replay=replay))
                        continue
                if pos == "pair" and name != "nan" and arity != 3:
                    oth = "std::" + partner(name, n_query_args)
                    inner = [a.split("(")[0] for a in call_args(text, "std::" + outer_of(name))]
                    if sorted(inner) != sorted([want[0], oth]):
                        oc.violations.append(core.Violation(
                            key=f"c12:pair-confused:{name}",
                            what=f"({outer_of(name)}({name}(..)), {outer_of(name)}({partner(name, n_query_args)}(..))) on {backend}: the two outer calls apply to {inner}, expected one {want[0]} and one {oth}",
                            replay=replay))
                        continue
                if pos == "shadow" and name != "nan":
                    argts = call_args(text, want[0])
                    if len(argts) != 2 or argts[0] == argts[1]:
                        oc.violations.append(core.Violation(
                            key=f"c12:shadow-confused:{name}",
                            what=f"{name}(m..) * others.Select(lambda m: {name}(m..)).Sum() on {backend}: the two calls must apply to the two loops' own objects, emitted argument texts {argts}",
                            replay=replay))
                        continue
                if pos == "nested" and name != "nan" and not ({"std::cosh", "std::fabs"} <= set(calls)):
                    oc.violations.append(core.Violation(
                        key=f"c12:nested-call-lost:{name}", what=f"cosh({name}(fabs(..))) on {backend}: emitted calls {calls} do not contain all three functions",
                        replay=replay))
                    continue
                if '#include "cmath"' not in text and "#include <cmath>" not in text:
                    oc.violations.append(core.Violation(
                        key=f"c12:no-header:{name}", what=f"{name}: generated {main} on {backend} does not include cmath", replay=replay))
                    continue
                if model_cpp is not None and want[0] != model_cpp:
                    oc.correspondence_breaks.append({**replay, "model_cpp": model_cpp})
                    continue
                if outptr:
                    call_text = f"{want[0]}({', '.join('abc'[:n_query_args])})".replace("a, b, c", "a, b, c")
                    okc, err = gxx_accepts(f"{want[0]}({', '.join(list('abc')[:n_query_args])})")
                    if not okc:
                        oc.violations.append(core.Violation(
                            key=f"c12:{name}-unusable",
                            what=f"{name} is documented but <cmath> {name} needs an out-pointer no query can supply; emitted {call_text} is ill-formed ({err})",
                            replay={**replay, "gxx": err}))
                        continue
                if pos == "intarg":
                    decl = [ln.strip() for ln in r[1].get("slots", {}).get("class_decl", []) if "EDGetTokenT" not in ln]
                    if len(decl) != 1 or not decl[0].startswith("double "):
                        oc.violations.append(core.Violation(
                            key=f"c12:result-not-double:{name}",
                            what=f"{name} of integer-typed arguments is stored in `{decl[0] if decl else '?'}` on {backend}: the value of the C++ function (a double) is truncated",
                            replay={**replay, "class_decl": decl}))
                        continue
                oc.traces_validated_against_impl += 1
    if smodel is not None:
        smodel.close()
    oc.distinct_nontrivial = len(distinct)
    oc.rule = ("every documented name (README list, regenerated) x 3 backends x {standalone, inside (f(..)*2+x)/3, with integer-typed arguments (column must be double), nested cosh(f(fabs(..))), 1 + f(<value of First()>) with the C02 scope checker on the emitted program, a pair of columns (cosh(f(x)), cosh(g(x))), the same call under two bindings of one parameter name}; arity from the cmath signature table; "
               "non-trivial = every query (each goes through name resolution, emission and include handling); distinct by query text")
    oc.samples = [make_query("atan2", 2, "arith"), make_query("floor", 1, "alone"), make_query("nan", 1, "alone")]
    oc.exhaustive = True
    oc.extra = {"documented_names": [e[0] for e in audit], "per_name": per_name, "translator_refusal": refusal}
    if not any(not v.no_failing_input for v in oc.violations) or ps.broken or refusal:
        # a broken obligation that the traces did not explain with a concrete query
        explained = {v.key.split(":")[-1].replace("-unusable", "") for v in oc.violations}
        unexplained = [n for n, s in per_name.items() if not s["model_ok"] and n not in explained and n not in KNOWN_UNUSABLE]
        if ((ps.broken or refusal) and not [v for v in oc.violations if v.key.split(":")[1] != "remquo-unusable"]) or unexplained or oc.correspondence_breaks or not build.model_ok or core.build_hygiene_cache():
            what = refusal and f"translator refused: {refusal}" or ps.broken or (oc.correspondence_breaks and f"correspondence: {oc.correspondence_breaks[0]}") or f"model/hygiene: {core.build_hygiene_cache() or 'model executable missing'}; unexplained names {unexplained}"
            oc.violations.append(core.Violation(key="c12:unproved", what=str(what), no_failing_input=True,
                                                replay={"broken": str(what), "searched": f"{oc.evaluations} real queries over all documented names, none failed"}))
    return core.finish(PID, tier, seed, t0, ps, build, oc, TRUSTED, ASSUME)


def replay(path: str, build: core.BuildStatus) -> int:
    logging.disable(logging.CRITICAL)
    data = json.loads(open(path).read())
    if data.get("no_failing_input_found"):
        ps = core.proof_status(PROP_FILE, build)
        print("broken obligation recorded:", data.get("broken"))
        print("proof status now:", ps.broken or "all theorems check")
        return 1 if ps.broken else 0
    md = None
    if data.get("position") == "hdr":
        md = [{"metadata_type": "inject_code", "name": "fv_hdr", "header_includes": ["cmath", "vector"], "private_members": ["double m_fv_scale = std::sqrt(2.0);"]}]
    if "m.dpt()" in data["query"]:
        from .. import qgen as _qg
        md = [{"metadata_type": "add_method_type_info", "type_string": _qg.Universe(data["backend"]).colls["Muons"][1], "method_name": "dpt",
               "return_type": "double", "deref_count": 1}]
    a = impl.query_ast(data["query"], md)
    r = impl.translate(data["backend"], a)
    if r[0] == "error":
        print("implementation refuses:", r[1], r[2])
        print(f"VIOLATION property={PID} replay={path}")
        return 1
    _, text = query_code_of(data["backend"], r[1]["files"])
    calls = [c for c in called_functions(text) if c not in ("std::string", "std::vector", "std::runtime_error")]
    print("emitted calls:", calls)
    name = data["name"]
    acceptable = {f"std::{name}"} | ({"std::log"} if name == "ln" else set()) | ({"std::fabs", "std::abs"} if name == "abs" else set())
    want = [c for c in calls if c in acceptable]
    cut = False
    if md is not None and want:
        inner = call_args(text, want[0])
        print("arguments of", want[0], ":", inner)
        cut = not any("dpt()" in x and x.count("(") == x.count(")") for x in inner)
    if '#include "cmath"' not in text and "#include <cmath>" not in text:
        print("the generated main file does not include cmath")
        cut = True
    if not want or name in KNOWN_UNUSABLE or cut:
        print(f"VIOLATION property={PID} replay={path}")
        return 1
    print("property holds on this input")
    return 0
