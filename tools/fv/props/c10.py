"""C10 - declared method, collection-return and enum types are honoured exactly.

Theorems: coq/Properties/C10.v over coq/Model/CppTypesModel.v (hand model of parse_type, the method and
enum registries, process_metadata's two branches, determine_type_mf, base_type_member_access and the
member-call / index / loop / column code of the translator).  Tie: function-level correspondence of the
extracted model with the real functions on exhaustive grids and random strings, plus end-to-end traces
through the three executors with generated declarations, comparing loop headers, the stored
expression, the declared column type and the logged warnings.  Search: an independent re-implementation
of the pointer model (parse the emitted C++ text, count dereferences against the declarations) and, in
the thorough tier, g++ -fsyntax-only against classes generated from the same declarations."""
import ast
import itertools
import os
import json
import logging
import random
import re
import shutil
import subprocess
import tempfile
from pathlib import Path
from typing import Any, Dict, List, Optional, Tuple

from .. import core, impl

PID = "C10"
PROP_FILE = "Properties/C10.v"
TRUSTED = [
    "Coq 8.16.1 kernel (coqc); vm_compute only in the non-vacuity Examples",
    "hand model coq/Model/CppTypesModel.v (dict of dict as one association list keyed by the pair; namespace tree as the list of defined enums with their paths; Python classes cpp_value / cpp_collection / terminal_enum_value as a tag)",
    "the small pointer-type model (object | pointer | class overloading * and ->) in which the access expression is typed; g++ -fsyntax-only agrees with it on the thorough grid",
    "extraction (ExtrOcamlBasic, ExtrOcamlString) + ocaml/main.ml driver + S-expression codec tools/fv/sexp.py",
    "correspondence check = differential test bounded by the generators below; the text oracle (tools/fv/props/c10.py: Typer) is an independent parser of the emitted C++",
]
ASSUME = [
    "type names, method names and enum names are ASCII strings (str.strip also removes non-ASCII Unicode white space)",
    "deref_count is an int (any sign); pointer depths come from parse_type and are naturals",
    "metadata reaches process_metadata in query order (func_adl's extract_metadata)",
]
BACKENDS = {
    "atlas": ('e.Jets("A")', "xAOD::Jet", 1),
    "cms_aod": ('e.Muons("muons")', "reco::Muon", 0),
    "cms_miniaod": ('e.Muons("slimmedMuons")', "pat::Muon", 0),
}
TRANSLATOR_LOGGER = "func_adl_xAOD.common.ast_to_cpp_translator"


# ------------------------------------------------------------------------------------------------
# logging capture
# ------------------------------------------------------------------------------------------------
class _Capture(logging.Handler):
    def __init__(self):
        super().__init__(level=logging.DEBUG)
        self.records: List[logging.LogRecord] = []

    def emit(self, record):
        self.records.append(record)


class captured_warnings:
    def __enter__(self):
        self.h = _Capture()
        self.lg = logging.getLogger()
        self.old = self.lg.level
        self.lg.addHandler(self.h)
        return self

    def __exit__(self, *a):
        self.lg.removeHandler(self.h)

    def warnings(self) -> List[str]:
        # the repository's own loggers only (func_adl's type inference logs under its own name)
        return [r.getMessage() for r in self.h.records if r.levelno >= logging.WARNING and r.name.startswith("func_adl_xAOD")]


# ------------------------------------------------------------------------------------------------
# implementation drivers (function level)
# ------------------------------------------------------------------------------------------------
def impl_parse(s: str):
    from func_adl_xAOD.common.cpp_types import parse_type

    p = parse_type(s)
    return [p.name, str(p.pointer_depth), "true" if p.is_const else "false"]


def impl_access(e: str, depth: int, extra: int) -> str:
    import func_adl_xAOD.common.cpp_representation as crep
    import func_adl_xAOD.common.cpp_types as ctyp

    return crep.base_type_member_access(crep.cpp_value(e, None, ctyp.terminal("T", p_depth=depth)), extra)


def md_dict(m) -> Dict[str, Any]:
    """wire form -> the dictionary a user writes"""
    if m[0] == "enum":
        return {"metadata_type": "define_enum", "namespace": m[1], "name": m[2], "values": list(m[3])}
    if m[0] == "other":
        return {"metadata_type": "add_job_script", "name": "c10", "script": ["# c10"], "depends_on": []}
    keys = ["type_string", "method_name", "return_type", "return_type_element", "return_type_collection", "tree_type", "deref_count"]
    d: Dict[str, Any] = {"metadata_type": "add_method_type_info"}
    for k, v in zip(keys, m[1:]):
        if v:
            d[k] = v[0]
    return d


def enc_terminal(t) -> List[Any]:
    return [t.type, str(t.p_depth), "true" if t.is_const else "false", [] if t._tree_type is None else [t._tree_type], str(t)]


def enc_type(t) -> List[Any]:
    import func_adl_xAOD.common.cpp_types as ctyp

    if isinstance(t, ctyp.collection):
        return ["coll", enc_terminal(t), enc_terminal(t.element_type)]
    return ["term", enc_terminal(t)]


def impl_lookup(mds, ty: str, m: str):
    import func_adl_xAOD.common.cpp_types as ctyp
    from func_adl_xAOD.common.ast_to_cpp_translator import determine_type_mf
    from func_adl_xAOD.common.meta_data import process_metadata

    impl.reset_globals()
    try:
        with captured_warnings() as cw:
            process_metadata([md_dict(x) for x in mds])
            info = determine_type_mf(ctyp.terminal(ty), m)
        return ["ok", [enc_type(info.r_type), str(info.deref_depth), cw.warnings()]]
    except Exception as e:  # noqa: BLE001
        return ["error", type(e).__name__]
    finally:
        impl.reset_globals()


def impl_enum(mds, ident: str, attrs: List[str]):
    from func_adl_xAOD.atlas.xaod.query_ast_visitor import atlas_xaod_query_ast_visitor
    from func_adl_xAOD.common.meta_data import process_metadata

    impl.reset_globals()
    try:
        process_metadata([md_dict(x) for x in mds])
        node: ast.expr = ast.Name(id=ident, ctx=ast.Load())
        for a in attrs:
            node = ast.Attribute(value=node, attr=a, ctx=ast.Load())
        q = atlas_xaod_query_ast_visitor()
        return ["ok", q.get_rep(node).as_cpp()]
    except Exception as e:  # noqa: BLE001
        return ["error", type(e).__name__]
    finally:
        impl.reset_globals()


# ------------------------------------------------------------------------------------------------
# end to end
# ------------------------------------------------------------------------------------------------
def arg_src(a) -> str:
    return a[1] if a[0] == "lit" else ".".join([a[1]] + list(a[2]))


def steps_src(var: str, steps) -> str:
    s = var
    for st in steps:
        if st[0] == "call":
            s += f".{st[1]}({', '.join(arg_src(a) for a in st[2])})"
        elif st[0] == "attr":
            s += f".{st[1]}"
        else:
            s += f"[{st[1]}]"
    return s


def query_src(backend: str, prog) -> str:
    levels, last, vec = prog
    src = f"ds.SelectMany(lambda e: {BACKENDS[backend][0]})"
    for i, l in enumerate(levels):
        src += f".SelectMany(lambda x{i}: {steps_src(f'x{i}', l)})"
    body = steps_src("z", last)
    if vec:
        body += f".Select(lambda y: {steps_src('y', vec[0])})"
    return src + f".Select(lambda z: {body})"


LOOP_RE = re.compile(r"^\s*for \(auto &&(\w+) : (.*)\)\s*$")
COL_RE = re.compile(r"_col1\d+")


def impl_translate(backend: str, mds, prog):
    """Returns ["ok", [loops, decl, stmt, warnings]] in the model's vocabulary, or ["error", class]."""
    src = query_src(backend, prog)
    try:
        with captured_warnings() as cw:
            a = impl.query_ast(src, [md_dict(x) for x in mds])
            r = impl.translate(backend, a)
    finally:
        impl.reset_globals()
    if r[0] == "error":
        return ["error", r[1]], src, None
    files = r[1]["files"]
    main = "query.cxx" if backend == "atlas" else "Analyzer.cc"
    text = files[main]["text"]
    loops, stmt, decl = [], None, None
    names: Dict[str, str] = {}
    for ln in text.splitlines():
        m = LOOP_RE.match(ln)
        if m:
            names.setdefault(m.group(1), "r" if not names else f"it{len(names) - 1}")
            loops.append(ln.strip())
        elif COL_RE.search(ln) and ("= " in ln or ".push_back(" in ln) and "Branch" not in ln:
            stmt = ln.strip()
    for f in files.values():
        for ln in f["text"].splitlines():
            m = re.match(r"^\s*(\S.*?) (_col1\d+);\s*$", ln)
            if m:
                decl = m.group(1)

    def canon(s: Optional[str]) -> str:
        if s is None:
            return "<missing>"
        s = COL_RE.sub("COL", s)
        return re.sub(r"\b(" + "|".join(map(re.escape, names)) + r")\b", lambda mm: names[mm.group(1)], s) if names else s

    return ["ok", [[canon(x) for x in loops[1:]], canon(decl), canon(stmt), cw.warnings()]], src, text


# ------------------------------------------------------------------------------------------------
# the independent oracle: a type checker for the emitted C++ text against the declarations
# ------------------------------------------------------------------------------------------------
class OracleFail(Exception):
    pass


class Decls:
    """What the metadata declares, read straight from the dictionaries (last declaration wins)."""

    def __init__(self, mds):
        self.methods: Dict[Tuple[str, str], Dict[str, Any]] = {}
        self.enums: Dict[Tuple[str, str], List[str]] = {}
        for m in mds:
            d = md_dict(m)
            if d["metadata_type"] == "add_method_type_info":
                self.methods[(d["type_string"], d["method_name"])] = d
            elif d["metadata_type"] == "define_enum":
                self.enums.setdefault((d["namespace"], d["name"]), d["values"])

    @staticmethod
    def split(tn: str) -> Tuple[str, int]:
        """declared type text -> (name without const, pointer depth); only used on generator-made clean names"""
        t = tn.strip()
        n = 0
        while t.endswith("*"):
            t = t[:-1].strip()
            n += 1
        if t.startswith("const "):
            t = t[6:]
        return t, n

    def ret(self, ty: str, m: str):
        """(kind, (name, depth), elem or None, deref, tree_type, declared?)"""
        d = self.methods.get((ty, m))
        if d is None:
            return ("term", ("double", 0), None, 0, None, False)
        k = int(d.get("deref_count", 0))
        if "return_type" in d:
            return ("term", self.split(d["return_type"]), None, k, d.get("tree_type"), True)
        el = self.split(d["return_type_element"])
        co = self.split(d["return_type_collection"]) if "return_type_collection" in d else ("std::vector<%s%s>" % (el[0], "*" * el[1]), 0)
        return ("coll", co, el, k, None, True)


class Typer:
    """Parses one emitted expression and types it in the pointer model: a value is (type name, pointer
    depth, number of overloaded-operator dereferences already applied, element type or None)."""

    def __init__(self, decls: Decls, env: Dict[str, Any]):
        self.d = decls
        self.env = env
        self.used: List[Tuple[str, str, bool]] = []  # (type, method, declared)

    def parse(self, s: str):
        self.s = s
        self.i = 0
        star = False
        if self.s.startswith("*"):
            star = True
            self.i = 1
        v = self.postfix()
        if self.i != len(self.s):
            raise OracleFail(f"trailing text in {s!r} at {self.i}")
        if star:
            v = self.deref(v)
        return v

    def deref(self, v):
        name, p, sm, el = v
        return (name, p - 1, sm, el) if p > 0 else (name, 0, sm + 1, el)

    def ident(self) -> str:
        m = re.compile(r"[A-Za-z_][A-Za-z_0-9]*").match(self.s, self.i)
        if not m:
            raise OracleFail(f"identifier expected in {self.s!r} at {self.i}")
        self.i = m.end()
        return m.group(0)

    def primary(self):
        if self.s.startswith("(*", self.i):
            self.i += 2
            v = self.postfix()
            if not self.s.startswith(")", self.i):
                raise OracleFail(f"')' expected in {self.s!r} at {self.i}")
            self.i += 1
            return self.deref(v)
        n = self.ident()
        if n not in self.env:
            raise OracleFail(f"unknown variable {n}")
        return self.env[n]

    def args(self) -> List[str]:
        depth, start, out = 0, self.i, []
        while self.i < len(self.s):
            c = self.s[self.i]
            if c == "(":
                depth += 1
            elif c == ")":
                if depth == 0:
                    if self.i > start:
                        out.append(self.s[start : self.i])
                    self.i += 1
                    return out
                depth -= 1
            elif c == "," and depth == 0:
                out.append(self.s[start : self.i])
                start = self.i + 1
            self.i += 1
        raise OracleFail("unterminated argument list")

    def postfix(self):
        v = self.primary()
        while True:
            if self.s.startswith("->", self.i):
                self.i += 2
                v = self.deref(v)
            elif self.s.startswith(".", self.i):
                self.i += 1
            else:
                return v
            m = self.ident()
            call = self.s.startswith("(", self.i)
            args: List[str] = []
            if call:
                self.i += 1
                args = self.args()
            name, p, sm, el = v
            if m == "at" and el is not None:
                if p != 0 or sm != 0:
                    raise OracleFail(f"at() applied with indirection left: depth {p}, overloaded {sm}")
                v = (el[0], el[1], 0, None)
                continue
            kind, rt, rel, k, _tree, declared = self.d.ret(name, m)
            if not declared and name in ("double", "float", "int"):
                raise OracleFail(f"member {m} selected on a {name}")
            if p != 0:
                raise OracleFail(f"member {m} of {name} selected through {p} remaining pointer level(s)")
            if sm != k:
                raise OracleFail(f"member {m} of {name} reached after {sm} extra dereference(s), declaration says {k}")
            for a in args:
                self.check_arg(a)
            self.used.append((name, m, declared))
            v = (rt[0], rt[1], 0, rel if kind == "coll" else None)

    def check_arg(self, a: str):
        if re.fullmatch(r"-?\d+(\.\d+)?", a):
            return
        parts = a.split("::")
        ok = any(ns.split(".") == parts[:-1] and parts[-1] in vals for (ns, _n), vals in self.d.enums.items())
        if not ok:
            raise OracleFail(f"argument {a!r} is neither a number nor a declared enum value rendered ns::...::value")


def oracle_e2e(backend: str, mds, prog, out, expect_valid: bool) -> Optional[str]:
    """The property text applied to what the implementation emitted for a program the generator built to be
    well-formed against the declarations.  Returns a description of the failure or None."""
    oracle_e2e.undeclared = ()  # type: ignore[attr-defined]
    if not expect_valid:
        return None
    if out[0] != "ok":
        return f"well-formed declared chain refused with {out[1]}"
    loops, decl, stmt, warns = out[1]
    d = Decls(mds)
    _, rty, rdepth = BACKENDS[backend]
    env: Dict[str, Any] = {"r": (rty, rdepth, 0, None)}
    levels, last, vec = prog
    n_loops = len(levels) + (1 if vec else 0)
    if len(loops) != n_loops:
        return f"{n_loops} collection(s) are iterated by the query but {len(loops)} loop(s) were emitted"
    used: List[Tuple[str, str, bool]] = []
    try:
        for k, h in enumerate(loops):
            m = LOOP_RE.match(h)
            if not m or m.group(1) != f"it{k}":
                return f"unexpected loop header {h!r}"
            t = Typer(d, env)
            v = t.parse(m.group(2))
            used += t.used
            if v[3] is None:
                return f"loop over a non-collection in {h!r}"
            if v[1] != 0 or v[2] != 0:
                return f"loop over a collection still behind {v[1]} pointer level(s) in {h!r}"
            env[f"it{k}"] = (v[3][0], v[3][1], 0, None)
        m = re.fullmatch(r"COL = (.*);", stmt) or re.fullmatch(r"COL\.push_back\((.*)\);", stmt)
        if not m:
            return f"no store into the column: {stmt!r}"
        is_vec = stmt.startswith("COL.push_back")
        if is_vec != bool(vec):
            return f"column stored with the wrong statement form: {stmt!r}"
        e = m.group(1)
        cast = re.fullmatch(r"static_cast<(.*?)>\((.*)\)", e)
        if cast:
            e = cast.group(2)
        t = Typer(d, env)
        v = t.parse(e)
        used += t.used
    except OracleFail as x:
        return str(x)
    # the declared column type: the (tree_)type of the last call, with its pointer depth
    steps = vec[0] if vec else last
    calls = [s for s in steps if s[0] in ("call", "attr")]
    if calls and steps[-1][0] in ("call", "attr"):
        recv_ty = t.used[-1][0]
        kind, rt, _el, _k, tree, _decl = d.ret(recv_ty, steps[-1][1])
        if kind == "term":
            want = (tree or rt[0]) + "*" * rt[1]
            if vec:
                want = f"std::vector<{want}>"
            if decl != want:
                return f"column declared {decl!r}, declaration says {want!r}"
            if (cast.group(1) if cast else rt[0]) != (tree or rt[0]):
                return f"stored value not converted to the declared tree type {tree!r}: {stmt!r}"
            if cast and rt[1] > 0:
                return (f"pointer value of type {rt[0]}{'*' * rt[1]} stored with static_cast<{cast.group(1)}> (not a pointer type) into a column declared {decl}: "
                        f"ill-formed C++ ({stmt!r})")
    undeclared = [f"{ty}::{m}" for ty, m, dec in used if not dec]
    oracle_e2e.undeclared = sorted({(ty, m) for ty, m, dec in used if not dec})  # type: ignore[attr-defined]
    warned = []
    for w in warns:
        mm = re.match(r"Warning: assuming that the method '(.*)\(\.\.\.\)' has return type 'double'", w)
        if mm:
            warned.append(mm.group(1))
    if sorted(set(undeclared)) != sorted(set(warned)):
        return f"undeclared methods {sorted(set(undeclared))} but warnings for {sorted(set(warned))}"
    return None


def oracle_access(e: str, depth: int, extra: int, out: str) -> Optional[str]:
    """Pointer model on the emitted access string: count the dereferences."""
    d = max(depth + extra, 0)
    n = 0
    s = out
    if s.endswith("->"):
        s, n = s[:-2], 1
    elif s.endswith("."):
        s = s[:-1]
    else:
        return "no member selector at the end"
    while s.startswith("(*") and s.endswith(")") and s != e:
        s = s[2:-1]
        n += 1
    if s != e:
        return f"expression {e!r} not found inside {out!r}"
    if n != d:
        return f"{n} dereference(s) applied, total indirection is {d}"
    return None


# ------------------------------------------------------------------------------------------------
# generators
# ------------------------------------------------------------------------------------------------
WS = [" ", "  ", "\t", "\n", " \t "]
CLEAN = ["int", "float", "double", "bool", "unsigned int", "xAOD::Jet", "std::vector<float>", "a*b", "x const", "constx", "const", "T<const U*>", "long  long"]


def gen_parse_structured(rng: random.Random):
    core_ = rng.choice(CLEAN)
    k = rng.randint(0, 4)
    const = rng.random() < 0.4
    s = (rng.choice(WS) if rng.random() < 0.3 else "") + ("const " if const else "") + core_
    for _ in range(k):
        s += (rng.choice(WS) if rng.random() < 0.4 else "") + "*"
    s += rng.choice(WS) if rng.random() < 0.3 else ""
    return s, [core_, str(k), "true" if const else "false"]


def gen_parse_random(rng: random.Random) -> str:
    if rng.random() < 0.5:
        s, _ = gen_parse_structured(rng)
        chars = list(s)
        for _ in range(rng.randint(1, 3)):
            op = rng.random()
            pos = rng.randint(0, len(chars))
            if op < 0.4:
                chars.insert(pos, rng.choice(["*", " ", "const ", "const", "\t", "&", "\x1f", "\x0b"]))
            elif op < 0.7 and chars:
                del chars[min(pos, len(chars) - 1)]
            elif chars:
                j = rng.randint(0, len(chars) - 1)
                p2 = min(pos, len(chars) - 1)
                chars[p2], chars[j] = chars[j], chars[p2]
        return "".join(chars)
    alpha = ["a", "b", "*", " ", "c", "o", "n", "s", "t", "\t", ":", "<", ">", ",", "const ", "\n", "\r", "\x0c", "\x1c", "\x7f"]
    return "".join(rng.choice(alpha) for _ in range(rng.randint(0, 12)))


# object types; some names extend another by digits / a version suffix / an underscore: a declaration is for ITS type only
OBJ = ["A", "B", "C", "A2", "A_v1", "B_", "Cv"]
# the last ones are typedef names (ROOT's): a declared type is a NAME, it is written out as declared whatever it contains
VAL = ["double", "float", "int", "bool", "unsigned int", "UInt_t", "ULong64_t", "Float_t", "Long64_t"]
VAL_TYPEDEFS = "typedef unsigned int UInt_t; typedef unsigned long long ULong64_t; typedef float Float_t; typedef long long Long64_t;"
METHODS = ["m0", "m1", "m2", "m3", "v"]
ENUMS = [("xAOD.Jet", "Color", ["Red", "Blue"]), ("ns", "E", ["k0", "k1", "k2"]), ("a.b.c", "Kind", ["X"])]


def opt(x):
    return [] if x is None else [x]


def mk_method(ts, mn, rt=None, el=None, co=None, tree=None, deref=None):
    return ["method", opt(ts), opt(mn), opt(rt), opt(el), opt(co), opt(tree), opt(deref)]


def type_text(rng: random.Random, name: str, depth: int, const: bool = False) -> str:
    s = ("const " if const else "") + name
    for _ in range(depth):
        s += (" " if rng.random() < 0.2 else "") + "*"
    return s


def gen_signature(rng: random.Random, ty: str, mn: str, max_depth: int = 2):
    form = rng.choice(["value", "value", "object", "object", "coll", "coll"])
    deref = rng.choice([None, None, 0, 1, 2])
    if form == "value":
        n = rng.choice(VAL)
        tree = rng.choice([None, None, "double", "int"])
        return mk_method(ty, mn, rt=type_text(rng, n, rng.choice([0, 0, 0, 1, 2][: max_depth + 3]), rng.random() < 0.2), tree=tree, deref=deref)
    if form == "object":
        return mk_method(ty, mn, rt=type_text(rng, rng.choice(OBJ), rng.randint(0, max_depth), rng.random() < 0.2), deref=deref)
    el_name = rng.choice(OBJ + VAL[:3])
    # std::vector<const double> is not C++: const only on object elements
    el = type_text(rng, el_name, rng.randint(0, max_depth) if el_name in OBJ else rng.choice([0, 0, 1]), el_name in OBJ and rng.random() < 0.15)
    co = rng.choice([None, None, "Vec_" + el_name, "Vec_" + el_name + "*", "std::vector<%s> *" % el.replace("const ", "")])
    return mk_method(ty, mn, el=el, co=co, deref=deref)


def gen_universe(rng: random.Random, root_ty: str):
    mds = []
    for _ in range(rng.randint(4, 12)):
        ty = rng.choice([root_ty, root_ty] + OBJ)
        mds.append(gen_signature(rng, ty, rng.choice(METHODS)))
        if rng.random() < 0.15:
            mds.append(["other"])
    for ns, n, vals in ENUMS:
        if rng.random() < 0.6:
            mds.append(["enum", ns, n, vals])
            if rng.random() < 0.2:
                mds.append(["enum", ns, n, vals + ["Late"]])  # second definition is ignored
    rng.shuffle(mds)
    return mds


def gen_args(rng: random.Random, d: Decls, valid: bool) -> List[Any]:
    out = []
    for _ in range(rng.choice([0, 0, 0, 1, 2])):
        if d.enums and rng.random() < 0.5:
            (ns, n), vals = rng.choice(sorted(d.enums.items()))
            parts = ns.split(".")
            out.append(["name", parts[0], parts[1:] + [n, rng.choice(vals)]])
        else:
            out.append(["lit", rng.choice(["1", "2", "0", "2.5", "10"])])
    return out


def gen_chain(rng: random.Random, d: Decls, start: Tuple[str, int], want: str, max_len: int):
    """Walk the declarations from a receiver type; `want` is 'value' or 'coll'.  Returns (steps, valid, final element or None)."""
    steps: List[Any] = []
    cur = ("obj", start)  # ("obj", (name, depth)) | ("coll", (elem))
    for i in range(max_len):
        kind, (name, _depth) = cur
        cands = [m for (ty, m) in d.methods if ty == name]
        last = i == max_len - 1
        good = []
        for m in cands:
            k, rt, el, _dr, _tr, _ = d.ret(name, m)
            if last:
                if (want == "coll" and k == "coll") or (want == "value" and k == "term" and rt[0] in VAL):
                    good.append(m)
            elif k == "coll" or rt[0] not in VAL:
                good.append(m)
        if not good:
            if last and want == "value" and name not in ("double", "float", "int"):
                m = rng.choice(METHODS)  # undeclared (or any) method: falls back to double with a warning
                if (name, m) not in d.methods or d.ret(name, m)[0] == "term":
                    steps.append(["call", m, gen_args(rng, d, True)])
                    k, rt, el, *_ = d.ret(name, m)
                    return steps, True, None
            return steps, False, None
        m = rng.choice(good)
        steps.append(["call", m, gen_args(rng, d, True)])
        k, rt, el, *_ = d.ret(name, m)
        if k == "coll":
            if last:
                return steps, True, el
            steps.append(["index", str(rng.randint(0, 3))])
            cur = ("obj", el)
        else:
            cur = ("obj", rt)
            if last:
                return steps, True, None
        if cur[1][0] in VAL:
            return steps, want == "value", None
    return steps, False, None


def gen_program(rng: random.Random, backend: str, mds):
    d = Decls(mds)
    _, rty, rdepth = BACKENDS[backend]
    cur = (rty, rdepth)
    valid = True
    levels = []
    for _ in range(rng.choice([0, 0, 1, 1, 2])):
        st, ok, el = gen_chain(rng, d, cur, "coll", rng.randint(1, 2))
        if not ok or el is None:
            break
        levels.append(st)
        cur = el
    vec = None
    if rng.random() < 0.3:
        st, ok, el = gen_chain(rng, d, cur, "coll", rng.randint(1, 2))
        if ok and el is not None:
            inner, ok2, _ = gen_chain(rng, d, el, "value", rng.randint(1, 3))
            if inner:
                return [levels, st, [inner]], valid and ok2
    st, ok, _ = gen_chain(rng, d, cur, "value", rng.randint(1, 3))
    return [levels, st, []], valid and ok and bool(st)


def mutate_program(rng: random.Random, prog):
    """Malformed variants: the property only asks model == implementation (same exception class)."""
    levels, last, vec = json.loads(json.dumps(prog))
    target = rng.choice([last] + levels + ([vec[0]] if vec else []))
    op = rng.random()
    if op < 0.25:
        target.append(["index", "0"])
    elif op < 0.5:
        target.append(["call", "v", []])
        target.append(["call", "w", []])
    elif op < 0.65:
        target.append(["call", "m0", [["name", "xAOD", ["Jet", "Color", "Green"]]]])
    elif op < 0.8:
        target.append(["call", "m1", [["name", "xAOD", ["Jet", "Color", "Red", "value"]]]])
    elif op < 0.9:
        target.append(["attr", rng.choice(METHODS)])
    else:
        target.insert(0, ["call", "nothere", [["lit", "1"]]])
    return [levels, last, vec]


GRID_FORMS = ["value", "value_tree", "object", "coll_val_of_val", "coll_val_of_ptr", "coll_ptr_of_val", "coll_ptr_of_ptr"]


def grid_case(backend: str, form: str, depth: int, deref: int, use_index: bool):
    """One declared signature on the root type, used once, then a declared double-valued method."""
    _, rty, _rd = BACKENDS[backend]
    st = "*" * depth
    mds = [mk_method("A", "v", rt="double", deref=None), mk_method("A", "w", rt="float", tree="double", deref=1)]
    follow = [["call", "v", []]]
    if form == "value":
        mds.append(mk_method(rty, "m0", rt="double" + st, deref=deref))
        return mds, [[], [["call", "m0", []]], []]
    if form == "value_tree":
        mds.append(mk_method(rty, "m0", rt="float" + st, tree="double", deref=deref))
        return mds, [[], [["call", "m0", []]], []]
    if form == "object":
        mds.append(mk_method(rty, "m0", rt="A" + st, deref=deref))
        return mds, [[], [["call", "m0", [["lit", "1"]]]] + follow, []]
    by_ptr = form.startswith("coll_ptr")
    of_ptr = form.endswith("of_ptr")
    el = "A" + ("*" if of_ptr else "") + st
    co = "VecA*" if by_ptr else None
    mds.append(mk_method(rty, "m0", el=el, co=co, deref=deref))
    if use_index:
        return mds, [[], [["call", "m0", []], ["index", "0"]] + follow, []]
    return mds, [[[["call", "m0", []]]], follow, []]


# ------------------------------------------------------------------------------------------------
# g++ support (thorough tier): classes generated from the very same declarations
# ------------------------------------------------------------------------------------------------
def cxx_unit(backend: str, mds, loops: List[str], stmt: str, decl: str, undeclared=()) -> Optional[str]:
    """A translation unit declaring one class per declared type with exactly the declared members, and
    the emitted loops + store.  Types whose methods are declared with deref_count k>0 get the members
    behind k overloaded dereferences.  Returns None for declarations the stand-in cannot express."""
    d = Decls(mds)
    _, rty, rdepth = BACKENDS[backend]
    types: Dict[str, Dict[int, List[str]]] = {}
    colls: Dict[str, str] = {}

    def cname(n: str) -> str:
        return re.sub(r"\W", "_", n)

    def ensure(n: str):
        if n not in VAL and not n.startswith("std::vector<"):
            types.setdefault(n, {})

    ensure(rty)
    for (ty, m), dd in d.methods.items():
        kind, rt, el, k, _tree, _ = d.ret(ty, m)
        if k < 0 or k > 2:
            return None
        ensure(ty)
        if kind == "coll":
            ensure(el[0])
            if not rt[0].startswith("std::vector<"):
                prev = colls.setdefault(rt[0], el[0] + "*" * el[1])
                if prev != el[0] + "*" * el[1]:
                    return None
            rtxt = (rt[0] if rt[0].startswith("std::vector<") else cname(rt[0])) + "*" * rt[1]
        else:
            ensure(rt[0])
            rtxt = (rt[0] if rt[0] in VAL else cname(rt[0])) + "*" * rt[1]
        types[ty].setdefault(k, []).append(f"  {rtxt} {m}(double = 0, double = 0);")
    for ty, m in undeclared:  # "a method with no declaration is assumed to return double"
        if ty in VAL or ty.startswith("std::vector<") or ty in colls:
            return None
        ensure(ty)
        types[ty].setdefault(0, []).append(f"  double {m}(double = 0, double = 0);")
    out = ["#include <vector>", VAL_TYPEDEFS]
    for (ns, n), vals in d.enums.items():
        parts = ns.split(".")
        out.append(" ".join(f"namespace {q} {{" for q in parts) + f" enum {n} {{ {', '.join(vals)} }}; " + "}" * len(parts))

    def fix(s: str) -> str:
        for n in sorted(list(types) + list(colls), key=len, reverse=True):
            if cname(n) != n:
                s = re.sub(r"(?<![\w:])" + re.escape(n) + r"(?!::|\w)", cname(n), s)
        return s

    for n in types:
        out.append(f"struct {cname(n)};")
    for n in types:
        for k in (1, 2):
            if k in types[n]:
                out.append(f"struct {cname(n)}_behind{k};")
    for c, el in colls.items():
        out.append(f"typedef std::vector<{fix(el)}> {cname(c)};")
    for n, by_k in types.items():
        for k in (1, 2):
            if k in by_k:
                out.append(f"struct {cname(n)}_behind{k} {{\n" + "\n".join(fix(x) for x in by_k[k]) + "\n};")
        body = [fix(x) for x in by_k.get(0, [])]
        if 1 in by_k:
            body.append(f"  {cname(n)}_behind1* operator->();")
        if 2 in by_k:
            body.append(f"  {cname(n)}_behind2* operator*();")
        out.append(f"struct {cname(n)} {{\n" + "\n".join(body) + "\n};")
    out.append(f"{fix(decl)} COL;")
    out.append(f"void f(std::vector<{cname(rty)}{'*' * rdepth}>& roots) {{")
    out.append("  for (auto &&r : roots) {")
    for h in loops:
        out.append("  " + fix(h) + " {")
    out.append("    " + fix(stmt))
    out.extend(["  }"] * (len(loops) + 1))
    out.append("}")
    return "\n".join(out) + "\n"


def gxx_ok(unit: str, workdir: Path) -> Tuple[bool, str]:
    p = workdir / "u.cpp"
    p.write_text(unit)
    r = subprocess.run(["g++", "-std=c++14", "-fsyntax-only", str(p)], text=True, stdout=subprocess.PIPE, stderr=subprocess.STDOUT, timeout=120)
    return r.returncode == 0, r.stdout[-600:]


# ------------------------------------------------------------------------------------------------
# the check
# ------------------------------------------------------------------------------------------------
def shrink_program(backend, mds, prog, bad):
    """Greedy: drop metadata entries, then trailing steps."""
    cur_md, cur = list(mds), prog
    changed = True
    while changed:
        changed = False
        for i in range(len(cur_md)):
            cand = cur_md[:i] + cur_md[i + 1 :]
            if bad(cand, cur):
                cur_md, changed = cand, True
                break
    return cur_md, cur


def check(tier: str, seed: int, t0: float, build: core.BuildStatus) -> int:
    ps = core.proof_status(PROP_FILE, build)
    oc = core.Outcome()
    rng = random.Random(seed * 7919 + 10)
    model = core.Model() if build.model_ok else None
    thorough = tier != "quick"
    hist: Dict[str, int] = {}
    distinct = set()

    def bump(k: str, n: int = 1):
        hist[k] = hist.get(k, 0) + n

    def brk(what: str, **kw):
        oc.correspondence_breaks.append(dict(what=what, **kw))

    # ---- 1. parse_type ---------------------------------------------------------------------
    n_struct, n_rand = (1500, 3000) if not thorough else (20000, 60000)
    corpus = core.VERIF / "tools" / "corpus" / "c10.json"
    corpus_cases = json.loads(corpus.read_text()) if corpus.exists() else {}
    parse_inputs: List[Tuple[str, Optional[List[str]]]] = [(s, None) for s in corpus_cases.get("parse", [])]
    parse_inputs += [("", None), ("*", None), (" * ", None), ("const ", None), ("const *", None), ("const const int", None), ("int const *", None),
                     ("const  int", None), ("const\tint", None), ("int * const", None), ("a * b", None), ("** int", None)]
    parse_inputs += [gen_parse_structured(rng) for _ in range(n_struct)]
    parse_inputs += [(gen_parse_random(rng), None) for _ in range(n_rand)]
    for s, want in parse_inputs:
        ri = impl_parse(s)
        oc.evaluations += 1
        bump("parse_structured" if want else "parse_random")
        if want is not None and ri != want:
            oc.violations.append(core.Violation(
                key="c10:parse-type", what=f"parse_type({s!r}) = {ri}, the text decomposes as {want}",
                replay={"kind": "parse", "input": s, "implementation": ri, "expected": want}))
            continue
        if len(s) >= 4 and ("*" in s or "const" in s):
            distinct.add("p:" + s)
        if model is not None:
            rm = model.call("c10.parse", s)
            if rm != ri:
                brk("parse_type", input=s, implementation=ri, model=rm)
            else:
                oc.traces_validated_against_impl += 1

    # ---- 2. base_type_member_access --------------------------------------------------------
    exprs = ["x", "i_obj3->trk()", "(*p)", "", "a.b"]
    for e, depth, extra in itertools.product(exprs, range(0, 5 if thorough else 4), range(-2, 5 if thorough else 4)):
        out = impl_access(e, depth, extra)
        oc.evaluations += 1
        bump("access_grid")
        bad = oracle_access(e, depth, extra, out)
        if bad:
            oc.violations.append(core.Violation(
                key="c10:member-access", what=f"base_type_member_access({e!r}, p_depth={depth}, extra_deref={extra}) = {out!r}: {bad}",
                replay={"kind": "access", "expr": e, "depth": depth, "extra": extra, "implementation": out}))
            continue
        distinct.add(f"a:{e}:{depth}:{extra}")
        if model is not None:
            rm = model.call("c10.access", [e, depth, extra])
            if rm != out:
                brk("base_type_member_access", expr=e, depth=depth, extra=extra, implementation=out, model=rm)
            else:
                oc.traces_validated_against_impl += 1

    # ---- 3. registry lookup + determine_type_mf, enum resolution -----------------------------
    n_lookup = 1000 if not thorough else 6000
    for _ in range(n_lookup):
        mds = gen_universe(rng, "R")
        if rng.random() < 0.1:
            bad_md = rng.choice([mk_method("R", None, rt="int"), mk_method(None, "m0", rt="int"), mk_method("R", "m0"),
                                 mk_method("R", "m0", co="V")])
            mds.insert(rng.randint(0, len(mds)), bad_md)
        ty = rng.choice(["R"] + OBJ + ["double", "float", "int", "bool", "Zzz"])
        mn = rng.choice(METHODS + ["nope"])
        ri = impl_lookup(mds, ty, mn)
        oc.evaluations += 1
        bump("lookup")
        # oracle: last declaration for (ty, mn); absent -> double, 0, one warning naming the method; numeric receiver -> error
        malformed = any(m[0] == "method" and (not m[1] or not m[2] or (not m[3] and not m[4])) for m in mds)
        if not malformed:
            d = Decls(mds)
            kind, rt, el, k, tree, declared = d.ret(ty, mn)
            bad = None
            if not declared and ty in ("double", "float", "int"):
                if ri != ["error", "xAODTranslationError"]:
                    bad = f"undeclared method on numeric type {ty} gave {ri}"
            elif ri[0] != "ok":
                bad = f"lookup raised {ri[1]}"
            else:
                got_t, got_k, got_w = ri[1]
                tv = got_t[1]
                if got_t[0] != kind or (tv[0], int(tv[1])) != rt or int(got_k) != k:
                    bad = f"lookup gave {got_t[0]} {tv[0]} depth {tv[1]} deref {got_k}, last declaration says {kind} {rt} deref {k}"
                elif kind == "coll" and (got_t[2][0], int(got_t[2][1])) != el:
                    bad = f"element type {got_t[2][:2]}, last declaration says {el}"
                elif kind == "term" and (tv[3][0] if tv[3] else None) != tree:
                    bad = f"tree type {tv[3]}, last declaration says {tree}"
                elif declared and got_w:
                    bad = f"declared method still warned: {got_w}"
                elif not declared and (len(got_w) != 1 or f"'{ty}::{mn}(...)'" not in got_w[0] or "double" not in got_w[0]):
                    bad = f"undeclared method: expected one warning naming {ty}::{mn} and double, got {got_w}"
            if bad:
                oc.violations.append(core.Violation(
                    key="c10:registry", what=f"determine_type_mf({ty}, {mn}) after {len(mds)} metadata entries: {bad}",
                    replay={"kind": "lookup", "metadata": mds, "type": ty, "method": mn, "implementation": ri}))
                continue
        distinct.add("l:" + json.dumps([mds, ty, mn]))
        if model is not None:
            rm = model.call("c10.lookup", [mds, ty, mn])
            if rm != ri:
                brk("process_metadata + determine_type_mf", metadata=mds, type=ty, method=mn, implementation=ri, model=rm)
            else:
                oc.traces_validated_against_impl += 1

    n_enum = 300 if not thorough else 4000
    for _ in range(n_enum):
        mds = [["enum", ns, n, vals] for ns, n, vals in ENUMS if rng.random() < 0.7]
        if rng.random() < 0.3:
            mds.append(["enum", rng.choice(["xAOD.Jet", "xAOD", "ns.E", "", "a.b"]), rng.choice(["Color", "E", "Jet", "c"]), ["Red", "Q"]])
        rng.shuffle(mds)
        ns, n, vals = rng.choice(ENUMS)
        parts = ns.split(".")
        attrs = parts[1:] + [n, rng.choice(vals + ["Nope"])]
        valid = ["enum", ns, n, vals] in mds and attrs[-1] in vals and not any(m[1].split(".")[: len(parts) + 1] == parts + [n] for m in mds)
        if rng.random() < 0.25:
            valid = False
            attrs = rng.choice([attrs[:-1], attrs + ["x"], attrs[:-2] + ["Other", attrs[-1]], []])
        ri = impl_enum(mds, parts[0], attrs)
        oc.evaluations += 1
        bump("enum_valid" if valid else "enum_other")
        if valid:
            # first definition of (ns, n) wins; its values decide
            first_vals = next(m[3] for m in mds if m[1] == ns and m[2] == n)
            want = ["ok", "::".join(parts + [attrs[-1]])] if attrs[-1] in first_vals else None
            if want and ri != want:
                oc.violations.append(core.Violation(
                    key="c10:enum-render", what=f"{'.'.join([parts[0]] + attrs)} rendered as {ri}, expected {want[1]}",
                    replay={"kind": "enum", "metadata": mds, "id": parts[0], "attrs": attrs, "implementation": ri}))
                continue
        distinct.add("e:" + json.dumps([mds, attrs]))
        if model is not None:
            rm = model.call("c10.enum", [mds, parts[0], attrs])
            if rm != ri:
                brk("enum resolution", metadata=mds, id=parts[0], attrs=attrs, implementation=ri, model=rm)
            else:
                oc.traces_validated_against_impl += 1

    # ---- 4. end to end -----------------------------------------------------------------------
    work = Path(tempfile.mkdtemp(prefix="c10-", dir=str(core.BUILD)))
    gxx_runs = gxx_fail_model = 0
    have_gxx = thorough and shutil.which("g++") is not None

    def run_case(backend: str, mds, prog, expect_valid: bool, label: str, use_gxx: bool = False):
        nonlocal gxx_runs
        out, src, _text = impl_translate(backend, mds, prog)
        oc.evaluations += 1
        bump(label)
        bump("e2e_" + backend)
        bump("e2e_ok" if out[0] == "ok" else "e2e_error_" + out[1])
        bad = oracle_e2e(backend, mds, prog, out, expect_valid)
        if bad is None and use_gxx and out[0] == "ok" and expect_valid:
            unit = cxx_unit(backend, mds, out[1][0], out[1][2], out[1][1], getattr(oracle_e2e, "undeclared", ()))
            if unit is not None:
                gxx_runs += 1
                ok, msg = gxx_ok(unit, work)
                if not ok and os.environ.get("C10_DUMP"):
                    Path(os.environ["C10_DUMP"], f"fail{gxx_runs}.cpp").write_text(unit + "\n/*\n" + msg + "\n" + src + "\n*/\n")
                if not ok:
                    bad = "g++ rejects the emitted code against classes generated from the declarations: " + msg.strip().splitlines()[0][:200]
        if bad:
            def still(c_md, c_prog):
                o, _, _ = impl_translate(backend, c_md, c_prog)
                return oracle_e2e(backend, c_md, c_prog, o, True) is not None
            s_md, s_prog = (mds, prog) if use_gxx and "g++" in bad else shrink_program(backend, mds, prog, still)
            o2, src2, _ = impl_translate(backend, s_md, s_prog)
            oc.violations.append(core.Violation(
                key="c10:" + classify_e2e(bad), what=f"{backend}: {src2}: {bad}",
                replay={"kind": "e2e", "backend": backend, "metadata": s_md, "program": s_prog, "query": src2,
                        "implementation": o2, "oracle": bad, "expect_valid": True}))
            # no return: the model must still predict this (wrong) outcome exactly
        if expect_valid and out[0] == "ok" and not bad:
            distinct.add("q:" + json.dumps([mds, prog]))
        if model is not None:
            _, rty, rdepth = BACKENDS[backend]
            rm = model.call("c10.translate", [mds, "r", rty, rdepth, prog])
            if rm != out:
                brk("end-to-end projection", backend=backend, query=src, metadata=mds, program=prog, implementation=out, model=rm)
            else:
                oc.traces_validated_against_impl += 1

    for e in corpus_cases.get("e2e", []):
        run_case(e["backend"], e["metadata"], e["program"], e.get("expect_valid", False), "e2e_corpus")
    grid_backends = list(BACKENDS) if thorough else ["atlas", "cms_aod"]
    for backend, form, depth, deref in itertools.product(grid_backends, GRID_FORMS, range(0, 4), range(0, 4)):
        for use_index in ([False, True] if form.startswith("coll") else [False]):
            mds, prog = grid_case(backend, form, depth, deref, use_index)
            # a collection handed over behind more than one pointer is outside the declared space (by value or pointer)
            run_case(backend, mds, prog, True, "e2e_grid", use_gxx=have_gxx)
    n_e2e = 700 if not thorough else 4000
    for i in range(n_e2e):
        backend = rng.choice(list(BACKENDS))
        mds = gen_universe(rng, BACKENDS[backend][1])
        prog, valid = gen_program(rng, backend, mds)
        if rng.random() < 0.2:
            prog, valid = mutate_program(rng, prog), False
        run_case(backend, mds, prog, valid, "e2e_random_valid" if valid else "e2e_random_other", use_gxx=have_gxx and i % 8 == 0)
    shutil.rmtree(work, ignore_errors=True)
    if model is not None:
        model.close()

    oc.distinct_nontrivial = len(distinct)
    oc.rule = (f"parse_type: {len(parse_inputs)} strings (fixed edge cases, {n_struct} structured name+stars+white space+const with known decomposition, {n_rand} random/mutated incl. const and * in odd places, control characters); "
               f"base_type_member_access: exhaustive {len(exprs)} expressions x depth x extra_deref (negative included); "
               f"{n_lookup} random metadata lists (4-12 declarations over 4 receiver types x 5 methods, redeclarations, 10% malformed dictionaries) x one lookup; "
               f"{n_enum} enum resolutions (shadowing namespaces, repeated definitions, unknown values, over/under-long paths); "
               f"end-to-end: exhaustive grid {len(grid_backends)} backends x 7 return forms x depth 0..3 x deref_count 0..3 (collections iterated and indexed) + {n_e2e} random universes and call chains over them (SelectMany levels, nested Select, indexing, enum and literal arguments, 20% malformed); "
               "non-trivial = a string with a star or const / every grid point / every accepted well-formed query; distinct by value")
    oc.samples = [parse_inputs[20][0], parse_inputs[-1][0]] + [query_src("atlas", grid_case("atlas", "coll_ptr_of_ptr", 2, 1, True)[1])]
    oc.extra = {"input_classes": hist, "gxx_units_compiled": gxx_runs, "model_available": model is not None}
    if not oc.violations and (ps.broken or oc.correspondence_breaks or model is None or core.build_hygiene_cache()):
        what = ps.broken or (f"correspondence {oc.correspondence_breaks[0]['what']}: {json.dumps(oc.correspondence_breaks[0])[:600]}" if oc.correspondence_breaks else
                             ("hygiene gate: " + "; ".join(core.build_hygiene_cache()) if core.build_hygiene_cache() else "model executable could not be built"))
        oc.violations.append(core.Violation(key="c10:unproved", what=what, no_failing_input=True,
                                            replay={"broken": what, "searched": f"{oc.evaluations} inputs with the pointer-model text oracle, none failed"}))
    return core.finish(PID, tier, seed, t0, ps, build, oc, TRUSTED, ASSUME)


def classify_e2e(bad: str) -> str:
    if "pointer value of type" in bad:
        return "pointer-column-cast"
    if "loop over a collection still behind" in bad:
        return "collection-behind-pointers"
    if "refused" in bad:
        return "valid-chain-refused"
    if "column declared" in bad or "tree type" in bad:
        return "column-type"
    if "warnings" in bad:
        return "warning"
    if "g++" in bad:
        return "gxx"
    return "member-access"


def replay(path: str, build: core.BuildStatus) -> int:
    data = json.loads(open(path).read())
    if data.get("no_failing_input_found"):
        print(f"replay names a broken obligation only: {data.get('broken')}")
        ps = core.proof_status(PROP_FILE, build)
        print("proof status now:", ps.broken or "all theorems check")
        return 1 if ps.broken else 0
    model = core.Model() if build.model_ok else None
    kind = data.get("kind")
    bad: Optional[str] = None
    if kind == "parse":
        ri = impl_parse(data["input"])
        print("implementation:", ri, "expected:", data["expected"])
        if model:
            print("model:", model.call("c10.parse", data["input"]))
        bad = None if ri == data["expected"] else "decomposition differs"
    elif kind == "access":
        out = impl_access(data["expr"], data["depth"], data["extra"])
        print("implementation:", out)
        if model:
            print("model:", model.call("c10.access", [data["expr"], data["depth"], data["extra"]]))
        bad = oracle_access(data["expr"], data["depth"], data["extra"], out)
    elif kind == "lookup":
        ri = impl_lookup(data["metadata"], data["type"], data["method"])
        print("implementation:", ri)
        if model:
            print("model:", model.call("c10.lookup", [data["metadata"], data["type"], data["method"]]))
        bad = "same outcome as recorded" if ri == data["implementation"] else None
    elif kind == "enum":
        ri = impl_enum(data["metadata"], data["id"], data["attrs"])
        print("implementation:", ri)
        if model:
            print("model:", model.call("c10.enum", [data["metadata"], data["id"], data["attrs"]]))
        bad = "same outcome as recorded" if ri == data["implementation"] else None
    elif kind == "e2e":
        out, src, _ = impl_translate(data["backend"], data["metadata"], data["program"])
        print("query:", src)
        print("implementation:", out)
        if model:
            _, rty, rdepth = BACKENDS[data["backend"]]
            print("model:", model.call("c10.translate", [data["metadata"], "r", rty, rdepth, data["program"]]))
        bad = oracle_e2e(data["backend"], data["metadata"], data["program"], out, data.get("expect_valid", True))
    if model:
        model.close()
    print("oracle:", bad or "property holds on this input")
    if bad:
        print(f"VIOLATION property={PID} replay={path}")
        return 1
    return 0
