"""C05 - rows for an event depend on that event only.

Theorems (Properties/C05.v): for EVERY program accepted by the Coq-defined static analysis `event_local`
(Cpp/EventLocal.v), all events, all member states an earlier event may leave and all event lists: the
job's outcome is the per-event outcome (rows per event, abort position and fault), hence permutation and
split invariance.  Tie to the current source (translation validation): the extracted `event_local` is run
on the program the implementation emits NOW for every generated query on all three backends (the parsed
IR re-prints to the emitted text, checked by semrun.translate).  The quantifier over queries is sampled;
the quantifiers over events / histories / event lists are proved.

Search (reference-free, independent of the analysis): the emitted program is executed by the Coq-defined
`run_job` on an event list, on each event alone, on permutations, on the doubled list and on a split; the
rows written for event k must be the same in every context.  A difference is the concrete failing input."""
import collections
import hashlib
import json
import logging
import random
import re
import time
from typing import Any, Dict, List, Optional, Tuple

import os

from .. import core, impl, qgen, semrun

PID = "C05"
PROP_FILE = "Properties/C05.v"
BACKENDS = ["atlas", "cms_aod", "cms_miniaod"]
ALLOW = ["first", "aggregate", "range", "selectmany_seq_column", "int_true_division", "selectmany_inside", "shared_shapes", "index", "flatseq"]
KNOWN_KEY = "c05:terminal-over-sequence-built-in-outer-loop"

TRUSTED = [
    "Coq 8.16.1 kernel; theorems of Properties/C05.v are closed under the global context (Print Assumptions copied below)",
    "Cpp/Exec.v is a MODEL of the C++ the translator emits (class members persist across events, block locals are re-created at block entry, a fault aborts the job); shared with C01-C04 and validated there",
    "tools/fv/cxx.py parser of the emitted text into Cpp/IR.v: fail-closed, every program is re-printed by the extracted Coq printer and compared with the emitted lines before it is used",
    "user-supplied C++ blocks and std:: math functions are opaque: modelled as a function of their arguments only; event_local additionally requires that such a block does not mention a class member. A block that keeps state through a `static` or a global is outside what any model of the generator can see",
    "the quantifier over queries is SAMPLED (qgen + nested-terminal templates; counts and feature histogram in the evidence); only the quantifiers over events, member states and event lists are proved",
    "extraction (ExtrOcamlBasic/ExtrOcamlString) and the OCaml driver running event_local and run_job",
    "ROOT's TTree::Fill reads exactly the booked branch variables (fill_row); the framework calls the per-event code once per event on one object",
]
ASSUME = [
    "events of one job are processed by one analysis object in order; an exception / failed ANA_CHECK ends the job",
    "two jobs never share an analysis object (split across jobs = fresh members)",
]


# --------------------------------------------------------------------------------------------
# queries
# --------------------------------------------------------------------------------------------
def uses_of(src: str, uni: qgen.Universe) -> List[Tuple[str, str]]:
    out = []
    for m in re.finditer(r'\.(\w+)\("([^"]*)"\)', src):
        if m.group(1) in uni.colls or m.group(1) in uni.singletons:
            if (m.group(1), m.group(2)) not in out:
                out.append((m.group(1), m.group(2)))
    return out


TERMINALS = [
    ("Sum", ".Sum()"),
    ("Count", ".Count()"),
    ("First", ".First()"),
    ("Aggregate", ".Aggregate(0.0, lambda acc, v: acc + v*2)"),
    ("Max", ".Max()"),
    ("Min", ".Min()"),
]


def nested_terminal_query(rng: random.Random, uni: qgen.Universe) -> Tuple[str, set]:
    """A terminal over a sequence that is produced inside a loop over an outer collection (DESIGN section 8
    row 10 and its neighbours), in several positions."""
    colls = list(uni.colls)
    c1, c2 = rng.choice(colls), rng.choice(colls)
    b1, b2 = rng.choice(["b1", "b2"]), rng.choice(["b1", "b2"])
    tname, term = rng.choice(TERMINALS)
    inner = rng.choice(["j.vals()", "j.hits()", f'e.{c2}("{b2}").Select(lambda k: k.pt() + j.pt())', "j.vals().Where(lambda x: x > 0)"])
    shape = rng.choice(["selectmany", "selectmany", "selectmany_where", "select_then_terminal", "two_columns", "event_where"])
    feat = {"nested_terminal", "terminal:" + tname, "shape:" + shape}
    seq = f'e.{c1}("{b1}")'
    if shape == "selectmany_where":
        seq += ".Where(lambda w: w.pt() > 0)"
    core_q = f"{seq}.SelectMany(lambda j: {inner}){term}"
    if shape == "select_then_terminal":
        # a per-object terminal, then a terminal over those
        core_q = f"{seq}.Select(lambda j: {inner}{term}){rng.choice(['.Sum()', '.First()', '.Count()'])}"
    if shape == "two_columns":
        return f'ds.Select(lambda e: {{"n": e.{c2}("{b2}").Count(), "t": {core_q}}})', feat
    if shape == "event_where":
        # the filter must not imply that the outer collection is non-empty (then the stale value could never
        # be observed and event_local, which does not reason about values, would reject a harmless program)
        if (c2, b2) == (c1, b1):
            b2 = "b1" if b1 == "b2" else "b2"
            core_q = core_q.replace(f'e.{c2}("{b1}").Select(lambda k', f'e.{c2}("{b2}").Select(lambda k')
        return f'ds.Where(lambda e: e.{c2}("{b2}").Count() > 0).Select(lambda e: {core_q})', feat
    return f"ds.Select(lambda e: {core_q})", feat


USER_CODE_QUERIES = [
    'ds.Select(lambda e: e.Jets("b1").Select(lambda j: DeltaR(j.eta(), j.phi(), 0.5, 0.25)))',
    'ds.Select(lambda e: e.Jets("b1").Where(lambda j: DeltaR(j.eta(), j.phi(), 0.5, 0.25) < 1.0).Count())',
    'ds.Select(lambda e: {"a": e.Jets("b1").Select(lambda j: DeltaR(j.eta(), j.phi(), e.Jets("b2").First().eta(), 0.25)), "n": e.Jets("b1").Count()})',
]


def nested_selectmany_terminal(src: str) -> bool:
    """Feature predicate of the known finding: inside the event-level lambda, a SelectMany (or a Select whose
    body ends in a terminal) feeds a terminal."""
    body = src.split("lambda", 1)[1] if "lambda" in src else src
    if re.search(r"\.SelectMany\(.*\)\.(Sum|Count|First|Aggregate|Max|Min)\(", body, flags=re.S):
        return True
    return False


# --------------------------------------------------------------------------------------------
# events and contexts
# --------------------------------------------------------------------------------------------
def gen_events(rng: random.Random, uni: qgen.Universe, uses) -> List[Dict[str, Any]]:
    """Six events: non-empty, all collections empty, random, random, singletons, non-empty.  Collections are
    therefore sometimes empty right after a non-empty event, and event-level Where rejects some events."""
    plans = [[2, 3], [0], None, None, [1], [3, 4]]
    evs = []
    oid = 0
    for sz in plans:
        ev = qgen.gen_event(rng, uni, uses, oid0=oid, sizes=sz)
        oid += 20
        evs.append(ev)
    return evs


def run(model, prog, events):
    return semrun.execute(model, prog, events)


def outcome_single(j):
    """('rows', rows) | ('fault', f) | ('stuck', k)"""
    if j[0] == "done":
        return ("rows", j[1][0])
    if j[0] == "abort":
        return ("fault", j[3])
    return ("stuck", j[2])


def same_rows(a, b) -> bool:
    return semrun.rows_equal(a, b)


def check_context(model, prog, ctx: List[int], events, singles) -> Optional[Dict[str, Any]]:
    """Run the events `ctx` (indices) as ONE job; compare each event's rows with its rows alone."""
    j = run(model, prog, [events[i] for i in ctx])
    if j[0] == "stuck":
        pos = int(j[1])
        k = ctx[pos]
        if singles[k][0] == "stuck":
            return None
        return {"context": ctx, "position": pos, "event": k, "in_context": ["stuck", j[2]], "alone": list(singles[k])}
    rows = j[1]
    for pos, rs in enumerate(rows):
        k = ctx[pos]
        if singles[k][0] != "rows":
            return {"context": ctx, "position": pos, "event": k, "in_context": ["rows", rs], "alone": list(singles[k])}
        if not same_rows(rs, singles[k][1]):
            return {"context": ctx, "position": pos, "event": k, "in_context": ["rows", rs], "alone": list(singles[k])}
    if j[0] == "abort":
        pos = int(j[2])
        k = ctx[pos]
        if singles[k][0] != "fault" or singles[k][1] != j[3]:
            return {"context": ctx, "position": pos, "event": k, "in_context": ["fault", j[3]], "alone": list(singles[k])}
    elif len(rows) != len(ctx):
        return {"context": ctx, "position": len(rows), "event": None, "in_context": ["missing"], "alone": []}
    return None


def contexts_for(rng: random.Random, n: int, ok: List[int], faulty: List[int]) -> List[List[int]]:
    """Event lists to run as one job: the non-faulting events in order, reversed, shuffled, doubled, split in
    two, every adjacent pair; plus one list that ends in a faulting event (abort position and prefix)."""
    out: List[List[int]] = []
    if len(ok) >= 2:
        out.append(list(ok))
        out.append(list(reversed(ok)))
        sh = list(ok)
        rng.shuffle(sh)
        out.append(sh)
        out.append(list(ok) + list(ok))
        h = len(ok) // 2
        out.append(ok[:h])
        out.append(ok[h:])
        for a, b in zip(ok, ok[1:]):
            out.append([b, a])
    if faulty and ok:
        out.append(list(ok) + [faulty[0]] + list(ok))
    seen, uniq = set(), []
    for c in out:
        t = tuple(c)
        if c and t not in seen:
            seen.add(t)
            uniq.append(c)
    return uniq


def shrink(model, prog, events, singles, d) -> Dict[str, Any]:
    ctx, pos = d["context"], d["position"]
    cands = []
    if pos >= 1:
        cands.append([ctx[pos - 1], ctx[pos]])
    for i in range(pos):
        cands.append([ctx[i], ctx[pos]])
    cands.append(ctx[: pos + 1])
    for c in cands:
        r = check_context(model, prog, c, events, singles)
        if r is not None:
            return r
    return d


def diff_kind(d) -> str:
    a, c = d["alone"], d["in_context"]
    if not a or a[0] != "rows" or c[0] != "rows":
        return "outcome-kind"
    ra, rc = a[1], c[1]
    if len(ra) != len(rc):
        return "row-count"
    uninit_alone = any(v[0] == "uninit" for r in ra for v in r)
    if uninit_alone:
        return "stale-scalar"  # alone: never assigned; in context: the previous event's value
    grew = any(v1[0] == "v" and v2[0] == "v" and len(v1) > len(v2) for r1, r2 in zip(rc, ra) for v1, v2 in zip(r1, r2))
    if grew:
        return "vector-not-cleared"
    return "value"


def search(model, rng, prog, events) -> Tuple[Optional[Dict[str, Any]], Dict[str, int]]:
    st = collections.Counter()
    singles = [outcome_single(run(model, prog, [ev])) for ev in events]
    for s in singles:
        st["single:" + s[0]] += 1
        if s[0] == "rows" and not s[1]:
            st["single:no-row (rejected by Where / empty SelectMany)"] += 1
    ok = [i for i, s in enumerate(singles) if s[0] == "rows"]
    faulty = [i for i, s in enumerate(singles) if s[0] == "fault"]
    if any(s[0] == "stuck" for s in singles):
        st["has-stuck-event"] += 1
        for s_ in singles:
            if s_[0] == "stuck":
                st["stuck-kind:" + str(s_[1])[:60]] += 1
    for ctx in contexts_for(rng, len(events), ok, faulty):
        st["contexts"] += 1
        d = check_context(model, prog, ctx, events, singles)
        if d is not None:
            d = shrink(model, prog, events, singles, d)
            d["kind"] = diff_kind(d)
            return d, st
    return None, st


def rich_event(rng, uni, uses, oid0):
    """Every collection has 2-3 objects and every inner sequence (vals, hits) at least one element."""
    ev = qgen.gen_event(rng, uni, uses, oid0=oid0, sizes=[2, 3])
    for m in ev["meths"]:
        if m[1] == "vals" and len(m[2]) == 1:
            m[2] = ["v", ["d", 5, 2]]
        if m[1] == "hits" and len(m[2]) == 1:
            m[2] = ["v", ["i", 3]]
    return ev


def refined_search(model, rng, uni, prog, uses, rounds: int):
    """For a rejected program without a witness so far, systematically: a rich event (every collection and
    inner sequence non-empty), then a rich event with ONE collection emptied, for each collection in turn;
    one with every inner sequence emptied; one with everything empty."""
    tot = collections.Counter()
    for _ in range(rounds):
        evs = [rich_event(rng, uni, uses, 0)]
        oid = 20
        ncoll = len(evs[0]["colls"])
        for i in range(ncoll):
            ev = rich_event(rng, uni, uses, oid)
            oid += 20
            if ev["colls"][i][2][0] == "v":
                ev["colls"][i][2] = ["v"]
                evs.append(ev)
                evs.append(rich_event(rng, uni, uses, oid))
                oid += 20
        ev = rich_event(rng, uni, uses, oid)
        for m in ev["meths"]:
            if m[1] in ("vals", "hits"):
                m[2] = ["v"]
        evs.append(ev)
        evs.append(qgen.gen_event(rng, uni, uses, oid0=oid + 20, sizes=[0]))
        evs.append(rich_event(rng, uni, uses, oid + 40))
        d, st = search(model, rng, prog, evs)
        tot.update(st)
        if d is not None:
            return d, evs, tot
    return None, None, tot


# --------------------------------------------------------------------------------------------
# the check
# --------------------------------------------------------------------------------------------
def slug(s: str) -> str:
    return re.sub(r"[^a-z0-9]+", "-", s.lower()).strip("-")[:48]


def classify(src: str, verdict, d) -> str:
    reason = verdict[2] if verdict else ""
    if (d is not None and d.get("kind") == "stale-scalar" and nested_selectmany_terminal(src)
            and verdict is not None and verdict[1] != "true" and reason.startswith("fill with a branch variable")):
        return KNOWN_KEY
    if d is None:
        return "c05:rejected-by-event-local:" + slug(reason)
    return f"c05:{d.get('kind', 'diff')}:" + (slug(reason) if verdict is not None and verdict[1] != "true" else "accepted-by-event-local")


def one_case(model, rng, be, uni, md, src, feat, ops, oc, stats, distinct, thorough: bool):
    c = semrun.translate(be, src, md, model)
    stats["status:" + be + ":" + c.status] += 1
    oc.evaluations += 1
    if c.status == "refused":
        return
    if c.status == "unparsed":
        # no IR program, hence no subject for the theorem.  Ill-formed emitted C++ (C02's business) writes no
        # rows at all, so C05 holds vacuously on it; but if MANY programs fall outside the IR the tie is gone:
        # decided after the run by the fraction (see check()).
        stats["unparsed:" + slug(c.note)] += 1
        unparsed = oc.extra.setdefault("unparsed_programs", [])
        if len(unparsed) < 10:
            unparsed.append({"backend": be, "query": src, "note": c.note})
        return
    for f in feat:
        stats["feature:" + f] += 1
    h = hashlib.sha1("\n".join(c.qlines).encode()).hexdigest()
    if ops >= 3:
        distinct.add(h)
    verdict = model.call("c05.event_local", c.prog)
    if verdict[0] != "ok":
        oc.correspondence_breaks.append({"backend": be, "query": src, "note": f"event_local could not decode the program: {verdict}"})
        return
    accepted = verdict[1] == "true"
    stats[("event_local:accepted:" if accepted else "event_local:rejected:") + be] += 1
    uses = uses_of(src, uni)
    events = gen_events(rng, uni, uses)
    d, st = search(model, rng, c.prog, events)
    stats.update(st)
    # an event on which the job READS A LOCAL THAT NO STATEMENT OF THIS EVENT HAS SET (declared without a value, assigned only on a
    # path this event does not take): in C++ that storage holds what an earlier event left there, so the rows are not a function
    # of the event.  The executable semantics stops there (KUninit), which is reported with the event as the failing input.
    for k_ev, ev_ in enumerate(events):
        j1 = run(model, c.prog, [ev_])
        if j1[0] == "stuck" and str(j1[2][0]).startswith("uninit"):
            oc.violations.append(core.Violation(
                key="c05:reads-unset-variable",
                what=(f"{be}: on an event of its own the job reads {j1[2][1]!r}, a variable no statement of that event has set (it is assigned only inside a "
                      f"loop that does not run there): the rows depend on what earlier events left in that storage; query {src[:200]}"),
                replay={"kind": "query", "backend": be, "query": src, "features": sorted(feat), "events": [ev_], "position": 0,
                        "stuck": list(j1[2]), "emitted": c.qlines}))
            stats["violating-input:c05:reads-unset-variable"] += 1
            return
    if d is None and not accepted:
        d, evs2, st2 = refined_search(model, rng, uni, c.prog, uses, 6 if thorough else 3)
        stats.update(st2)
        if d is not None:
            events = evs2
    if d is None and accepted:
        oc.traces_validated_against_impl += 1
        if len(oc.samples) < 8 and ops >= 4:
            oc.samples.append({"backend": be, "query": src, "event_local": "accepted", "contexts": st.get("contexts", 0)})
        return
    key = classify(src, verdict, d)
    replay = {
        "kind": "query", "backend": be, "query": src, "features": sorted(feat),
        "event_local": {"accepted": accepted, "reason": verdict[2], "abstract_state": verdict[3]},
        "emitted": c.qlines,
    }
    if d is not None:
        ctx = d["context"]
        replay.update({
            "events": [events[i] for i in ctx], "position": d["position"],
            "rows_in_this_job": d["in_context"], "rows_of_the_event_alone": d["alone"], "difference": d["kind"],
        })
        what = (f"{be}: rows for event #{d['position']} of a {len(ctx)}-event job differ from the rows of the same event alone "
                f"({d['kind']}: in job {short(d['in_context'])} vs alone {short(d['alone'])}); event_local "
                f"{'accepts' if accepted else 'rejects'} the emitted program ({verdict[2]}); query {src[:160]}")
        stats["violating-input:" + key] += 1
        oc.violations.append(core.Violation(key=key, what=what, replay=replay))
    else:
        what = (f"{be}: event_local rejects the emitted program ({verdict[2]}; state {verdict[3]}) and no event list with "
                f"history-dependent rows was found; query {src[:200]}")
        oc.violations.append(core.Violation(key=key, what=what, replay=replay, no_failing_input=True))


def short(o) -> str:
    if not o:
        return "-"
    if o[0] == "rows":
        return semrun.show_rows(o[1])
    return f"{o[0]}:{o[1] if len(o) > 1 else ''}"


STUB_ROOT = '''
import json, sys
REC = {"files": None, "submitted": False}
class _Any:
    def __init__(self, *a, **k): pass
    def __call__(self, *a, **k): return _Any()
    def __getattr__(self, n): return _Any()
class _SH:
    SampleHandler = _Any
    @staticmethod
    def readFileList(sh, name, path):
        REC["files"] = [ln.rstrip("\\n") for ln in open(path)]
class _Driver(_Any):
    def submit(self, job, d):
        REC["submitted"] = True
        json.dump(REC, open("fv_job_record.json", "w"))
class _EL(_Any):
    Job = _Any
    OutputStream = _Any
    DirectDriver = _Driver
SH = _SH
EL = _EL()
xAOD = _Any()
'''


def job_script_file_lists(oc: core.Outcome) -> Dict[str, int]:
    """The ATLAS job script hands the event-loop driver the files of filelist.txt as they are listed - in order, a file listed twice
    twice (the events of L ++ L are those of L, twice).  The rendered ATestRun_eljob.py is run with stand-in ROOT / AnaAlgorithm
    modules that record what SH.readFileList is given."""
    import subprocess
    import sys as _sys
    import tempfile
    from pathlib import Path as _P

    hist: Dict[str, int] = collections.Counter()
    r = impl.translate("atlas", impl.query_ast('ds.Select(lambda e: e.Jets("b1").Count())', None))
    impl.reset_globals()
    if r[0] != "ok" or "ATestRun_eljob.py" not in r[1]["files"]:
        oc.correspondence_breaks.append({"note": "no ATestRun_eljob.py in the ATLAS package: the job-script file-list test has no subject"})
        return dict(hist)
    script = r[1]["files"]["ATestRun_eljob.py"]["text"]
    A, B, C = "/data/a.root", "/data/b c.root", "root://host//x/y.root"
    for files in ([A], [A, B], [B, A], [A, A], [A, B, A, B], [C, A, C], [A, B, C, B, A, A]):
        with tempfile.TemporaryDirectory(prefix="fv-c05-job-", dir="/var/tmp") as d:
            dp = _P(d)
            (dp / "ROOT.py").write_text(STUB_ROOT)
            (dp / "AnaAlgorithm").mkdir()
            (dp / "AnaAlgorithm" / "__init__.py").write_text("")
            (dp / "AnaAlgorithm" / "DualUseConfig.py").write_text("def createAlgorithm(*a, **k):\n    return object()\n")
            (dp / "ATestRun_eljob.py").write_text(script)
            (dp / "filelist.txt").write_text("".join(f + "\n" for f in files))
            p = subprocess.run([_sys.executable, "ATestRun_eljob.py", "-s", "sub"], cwd=d, capture_output=True, text=True, timeout=120,
                               env={"PYTHONPATH": d, "PATH": os.environ.get("PATH", "")})
            rec = json.loads((dp / "fv_job_record.json").read_text()) if (dp / "fv_job_record.json").exists() else None
        oc.evaluations += 1
        got = rec["files"] if rec else None
        hist["as listed" if got == files else "NOT as listed"] += 1
        if got != files:
            oc.violations.append(core.Violation(
                key="c05:job-script-file-list",
                what=f"atlas: the job script hands the driver the files {got} for the file list {files} (exit {p.returncode}): the events of a file listed twice "
                     "are processed once / the order of the list is not kept, so the rows of a job depend on more than its events",
                replay={"kind": "job-script", "file_list": files, "files_read_by_the_driver": got, "stderr": p.stderr[-400:]}))
    return dict(hist)


def check(tier: str, seed: int, t0: float, build: core.BuildStatus) -> int:
    logging.disable(logging.CRITICAL)
    ps = core.proof_status(PROP_FILE, build)
    oc = core.Outcome()
    thorough = tier == "thorough"
    stats: collections.Counter = collections.Counter()
    distinct: set = set()
    if not build.model_ok:
        oc.violations.append(core.Violation(key="c05:model-missing", what="extracted model executable missing", replay={"broken": "model"}, no_failing_input=True))
        return core.finish(PID, tier, seed, t0, ps, build, oc, TRUSTED, ASSUME)
    model = core.Model()
    job_lists = job_script_file_lists(oc)
    rng = random.Random(f"c05-{seed}")
    n_gen = 700 if thorough else 150
    n_tpl = 150 if thorough else 36
    depths = [1, 2, 3, 4] if thorough else [1, 2, 3]
    budget = (13 * 60) if thorough else 100
    for be in BACKENDS:
        uni = qgen.Universe(be)
        md = uni.metadata()
        tb = time.time()
        for k in range(n_gen):
            if time.time() - tb > budget / 3 * 0.8:
                stats["stopped-early:" + be] += 1
                break
            depth = rng.choice(depths)
            src, q = qgen.gen_query(rng, uni, depth=depth, allow=ALLOW)
            stats[f"depth:{depth}"] += 1
            one_case(model, rng, be, uni, md, src, set(q.feat), q.ops, oc, stats, distinct, thorough)
        for k in range(n_tpl):
            src, feat = nested_terminal_query(rng, uni)
            one_case(model, rng, be, uni, md, src, feat, 4, oc, stats, distinct, thorough)
        # a conditional whose arms are a constant and a First() value (the guard idiom), USED in arithmetic / a comparison / a
        # function afterwards: the column is assigned in every event, whichever arm that event takes
        cn = list(uni.colls)[0]
        for src in (f'ds.Select(lambda e: e.{cn}("b1")).Select(lambda js: (-1.0 if js.Count() == 0 else js.First().pt()) / 1000.0)',
                    f'ds.Select(lambda e: (e.{cn}("b1").First().pt() if e.{cn}("b1").Count() > 0 else -1.0) * 2.0)',
                    f'ds.Select(lambda e: ((0.5 if e.{cn}("b1").Count() == 0 else e.{cn}("b1").First().eta()) > 0.0, e.{cn}("b2").Count()))',
                    f'ds.Select(lambda e: e.{cn}("b1")).Select(lambda js: abs(-1.0 if js.Count() == 0 else js.First().pt()))'):
            one_case(model, rng, be, uni, md, src, {"ifexp", "first", "conditional_first_used"}, 4, oc, stats, distinct, thorough)
        if be == "atlas":
            for src in USER_CODE_QUERIES:
                one_case(model, rng, be, uni, md, src, {"user_cpp"}, 4, oc, stats, distinct, thorough)
    model.close()
    oc.distinct_nontrivial = len(distinct)
    oc.rule = ("PROVED for all events / member states / event lists: every program accepted by event_local has per-event rows "
               "(Properties/C05.v).  SAMPLED over queries: event_local + reference-free multi-context execution on the program emitted "
               "for each generated query (qgen depth 1-3 quick / 1-4 thorough, classes first/aggregate/range/selectmany allowed, plus "
               "nested-terminal templates and user-C++ queries), 3 backends.  distinct_nontrivial = distinct emitted per-event programs "
               "(sha1 of the emitted lines) of queries with >= 3 operators")
    n_unparsed = sum(v for k, v in stats.items() if k.startswith("unparsed:"))
    n_ok = sum(v for k, v in stats.items() if k.startswith("status:") and k.endswith(":ok"))
    oc.extra.update({
        "atlas_job_script_file_lists": job_lists,
        "input_distribution": {k: v for k, v in sorted(stats.items())},
        "quantifiers": {"events, member states, event lists, permutations, splits": "proved", "queries": "sampled"},
        "unparsed_fraction": round(n_unparsed / max(1, n_unparsed + n_ok), 4),
    })
    if n_unparsed > 0.02 * (n_unparsed + n_ok) or n_ok == 0:
        oc.correspondence_breaks.append({"note": f"{n_unparsed} of {n_unparsed + n_ok} emitted programs are outside the IR grammar (more than 2%): the theorems have no subject for them",
                                         "examples": oc.extra.get("unparsed_programs", [])[:3]})
    concrete = [v for v in oc.violations if not v.no_failing_input]
    if ps.broken or oc.correspondence_breaks or core.build_hygiene_cache():
        what = ps.broken or (oc.correspondence_breaks and f"emitted program outside the IR / not decodable: {oc.correspondence_breaks[0]}") or f"hygiene: {core.build_hygiene_cache()}"
        if not [v for v in concrete if v.key != KNOWN_KEY]:
            oc.violations.append(core.Violation(key="c05:unproved", what=str(what), no_failing_input=True,
                                                replay={"broken": str(what), "searched": f"{oc.evaluations} generated queries, no history-dependent rows outside the known class"}))
    return core.finish(PID, tier, seed, t0, ps, build, oc, TRUSTED, ASSUME, level="proof")


def replay(path: str, build: core.BuildStatus) -> int:
    logging.disable(logging.CRITICAL)
    data = json.loads(open(path).read())
    if data.get("no_failing_input_found") and "query" not in data:
        ps = core.proof_status(PROP_FILE, build)
        print("broken obligation recorded:", data.get("broken"))
        print("proof status now:", ps.broken or "all theorems check")
        return 1 if ps.broken else 0
    if data.get("kind") == "job-script":
        oc2 = core.Outcome()
        job_script_file_lists(oc2)
        bad = [v for v in oc2.violations if v.replay.get("file_list") == data.get("file_list")]
        for v in bad:
            print(v.what)
        if bad:
            print(f"VIOLATION property={PID} replay={path}")
            return 1
        print("the job script reads the file list as listed")
        return 0
    model = core.Model()
    be, src = data["backend"], data["query"]
    uni = qgen.Universe(be)
    c = semrun.translate(be, src, uni.metadata(), model)
    print("query:", src)
    print("translation:", c.status, c.error or c.note)
    if c.status != "ok":
        print("no program to examine: property holds vacuously on this input")
        return 0
    verdict = model.call("c05.event_local", c.prog)
    print("event_local:", verdict[1], verdict[2], verdict[3])
    if "events" not in data:
        if verdict[1] == "true":
            print("event_local accepts the emitted program now")
            return 0
        print(f"VIOLATION property={PID} replay={path} no-failing-input-found")
        return 1
    evs = data["events"]
    pos = int(data["position"])
    j = run(model, c.prog, evs)
    alone = outcome_single(run(model, c.prog, [evs[pos]]))
    print("job over the stored events:", j[0], "rows per event:", [semrun.show_rows(r) for r in (j[1] if j[0] != "stuck" else [])])
    print(f"event #{pos} alone:", short(list(alone)))
    singles = [outcome_single(run(model, c.prog, [e])) for e in evs]
    d = check_context(model, c.prog, list(range(len(evs))), evs, singles)
    model.close()
    if alone[0] == "stuck" and str(alone[1][0]).startswith("uninit"):
        print(f"event #{pos} alone: the job reads {alone[1][1]!r}, which no statement of this event has set - its rows depend on earlier events")
        print(f"VIOLATION property={PID} replay={path}")
        return 1
    if d is not None:
        print(f"rows for event #{d['position']} depend on the preceding events: in job {short(d['in_context'])} vs alone {short(d['alone'])}")
        print(f"VIOLATION property={PID} replay={path}")
        return 1
    print("property holds on this input")
    return 0
