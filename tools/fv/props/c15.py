"""C15 - job-script blocks are emitted once each in dependency order.

Theorems: coq/Properties/C15.v over coq/Model/ScriptBlocks.v (hand model of
meta_data.generate_script_block).  Tie: correspondence of the extracted model with the real function
on enumerated and random block lists, plus end-to-end traces through the ATLAS executor and the
job-options template.  Search: an independent topological-order oracle applied to the
implementation's own output."""
import itertools
import json
import random
import re
import time
from typing import Any, Dict, List, Optional, Tuple

from .. import core, impl

PID = "C15"
PROP_FILE = "Properties/C15.v"
TRUSTED = [
    "Coq 8.16.1 kernel (coqc); vm_compute only in the two non-vacuity Examples",
    "hand model coq/Model/ScriptBlocks.v of meta_data.generate_script_block (dict pair modelled as one insertion-ordered association list; set as a duplicate-free list)",
    "extraction (ExtrOcamlBasic, ExtrOcamlString) + ocaml/main.ml driver + S-expression codec tools/fv/sexp.py",
    "correspondence check = differential test bounded by the generator below",
    "jinja2 for-loop rendering of ATestRun_eljob.py modelled by text substitution, validated on the end-to-end traces",
]
ASSUME = [
    "block fields are lists of strings (the declared type); script lines are arbitrary byte strings",
    "Python dict preserves insertion order; set membership is equality on str",
]

Block = Tuple[str, List[str], List[str]]


def impl_gen(blocks: List[Block]):
    from func_adl_xAOD.common.meta_data import JobScriptSpecification, generate_script_block

    try:
        return ["ok", list(generate_script_block([JobScriptSpecification(n, list(s), list(d)) for n, s, d in blocks]))]
    except Exception as e:  # noqa: BLE001
        return ["error", type(e).__name__]


def classify(blocks: List[Block]) -> Optional[str]:
    """None if the property demands a result, else the reason it demands ValueError."""
    first: Dict[str, List[str]] = {}
    deps: Dict[str, List[str]] = {}
    for n, s, d in blocks:
        if n in first and first[n] != s:
            return "conflict"
        first.setdefault(n, s)
        deps.setdefault(n, []).extend(d)
    for n, ds in deps.items():
        for d in ds:
            if d not in deps:
                return "missing"
    seen = set()
    while len(seen) < len(deps):
        prog = [n for n in deps if n not in seen and set(deps[n]) <= seen]
        if not prog:
            return "cycle"
        seen.update(prog)
    return None


def oracle(blocks: List[Block], res) -> Optional[str]:
    """The property text, checked directly on one result.  Returns a description of the failure."""
    why = classify(blocks)
    if why is not None:
        if res[0] != "error":
            return f"{why} input did not raise"
        if res[1] != "ValueError":
            return f"{why} input raised {res[1]} instead of ValueError"
        return None
    if res[0] != "ok":
        return f"valid input raised {res[1]}"
    out = res[1]
    first: Dict[str, List[str]] = {}
    deps: Dict[str, set] = {}
    for n, s, d in blocks:
        first.setdefault(n, s)
        deps.setdefault(n, set()).update(d)
    names = list(first)

    # does some dependency-respecting listing of all distinct names concatenate to `out`?
    def go(pos: int, seen: frozenset) -> bool:
        if len(seen) == len(names):
            return pos == len(out)
        for n in names:
            if n in seen or not deps[n] <= seen:
                continue
            s = first[n]
            if out[pos : pos + len(s)] == s and go(pos + len(s), seen | {n}):
                return True
        return False

    if not go(0, frozenset()):
        return "output is not the concatenation of every distinct block's lines once, in a dependency-respecting order"
    return None


def shrink(blocks: List[Block], bad) -> List[Block]:
    cur = list(blocks)
    changed = True
    while changed:
        changed = False
        for i in range(len(cur)):
            cand = cur[:i] + cur[i + 1 :]
            if cand and bad(cand):
                cur = cand
                changed = True
                break
    return cur


NAMES = ["a", "b", "c", "d", "e", "f"]


def gen_random(rng: random.Random, max_blocks: int) -> List[Block]:
    k = rng.randint(0, max_blocks)
    nn = rng.randint(1, min(len(NAMES), max(1, k)))
    pool = NAMES[:nn]
    style = rng.random()
    blocks: List[Block] = []
    rank = {n: i for i, n in enumerate(rng.sample(pool, len(pool)))}
    for _ in range(k):
        n = rng.choice(pool)
        scripts = [[f"{n}1"], [f"{n}1", f"{n}2"], [], ["shared"], [f"{n}1", "shared", f"{n}1"],
                   # scripts that differ from the first one only in white space / blank lines / letter case are DIFFERENT scripts
                   [f"  {n}1"], [f"{n}1 "], [f"{n}1", ""], ["", f"{n}1"], [f"{n}1".upper()], [f"\t{n}1"]]
        if style < 0.7:
            s = scripts[0] if rng.random() < 0.85 else rng.choice(scripts)
            cand = [m for m in pool if rank[m] < rank[n]]  # acyclic by construction
        else:
            s = rng.choice(scripts)
            cand = list(pool)
        ds = [m for m in cand if rng.random() < 0.4]
        if rng.random() < 0.04:
            ds.append("zz")  # missing dependency
        if ds and rng.random() < 0.1:
            ds.append(ds[0])  # repeated dependency
        blocks.append((n, s, ds))
    return blocks


def enumerate_small(max_len: int):
    names = ["a", "b", "c"]
    opts = []
    for n in names:
        for s in ([f"{n}1"], [f"{n}1", "x"]):
            for r in range(len(names) + 1):
                for ds in itertools.combinations(names, r):
                    opts.append((n, s, list(ds)))
    for k in range(max_len + 1):
        for combo in itertools.product(opts, repeat=k):
            yield list(combo)


def nontrivial(blocks: List[Block]) -> bool:
    return len(blocks) >= 2 and any(d for _, _, d in blocks)


def render_expected(template: str, lines: List[str]) -> Optional[str]:
    if template.endswith("\n"):
        template = template[:-1]  # jinja2 default keep_trailing_newline=False
    m = re.search(r"\{% for (\w+) in job_option_additions %\}(.*?)\{% endfor %\}", template, flags=re.S)
    if not m or template.count("job_option_additions") != 1:
        return None
    var, body = m.group(1), m.group(2)
    if body.count("{{") != 1 or ("{{" + var + "}}") not in body.replace(" ", "") or "{%" in body:
        return None
    body_n = re.sub(r"\{\{\s*" + var + r"\s*\}\}", "\0", body)
    rest = template[: m.start()] + "\1" + template[m.end() :]
    if "{{" in rest or "{%" in rest:
        return None
    return rest.replace("\1", "".join(body_n.replace("\0", ln) for ln in lines))


def end_to_end(blocks: List[Block], omit_empty: bool = False, other_kinds: List[str] = ()):
    """omit_empty: a block without dependencies is sent WITHOUT a depends_on key (the key is optional).
    other_kinds: names for which metadata of OTHER kinds (an inject_code block, a C++ function) is sent under the same name -
    the names of job-script blocks are their own name space, the job options must not change."""
    md = [{"metadata_type": "add_job_script", "name": n, "script": list(s), **({} if (omit_empty and not d) else {"depends_on": list(d)})} for n, s, d in blocks]
    for k, n in enumerate(other_kinds):
        extra = [{"metadata_type": "inject_code", "name": n, "body_includes": [f"fv_{k}.h"]},
                 {"metadata_type": "add_cpp_function", "name": n, "include_files": [], "arguments": ["x"], "code": ["auto result = x;"], "return_type": "double"}][k % 2]
        md.insert((k * 3) % (len(md) + 1), extra)
    a = impl.query_ast('ds.Select(lambda e: e.EventInfo("EventInfo").runNumber())', md)
    r = impl.translate("atlas", a)
    impl.reset_globals()
    if r[0] == "error":
        return ["error", r[1]]
    return ["ok", r[1]["files"]["ATestRun_eljob.py"]["text"]]


def check(tier: str, seed: int, t0: float, build: core.BuildStatus) -> int:
    import logging

    logging.disable(logging.CRITICAL)
    ps = core.proof_status(PROP_FILE, build)
    oc = core.Outcome()
    rng = random.Random(seed * 7919 + 15)
    n_random = 3000 if tier == "quick" else 60000
    enum_len = 2 if tier == "quick" else 3
    max_blocks = 8 if tier == "quick" else 12
    cases: List[List[Block]] = []
    corpus = core.VERIF / "tools" / "corpus" / "c15.json"
    if corpus.exists():
        cases.extend([[tuple(b) for b in c] for c in json.loads(corpus.read_text())])
    n_corpus = len(cases)
    enum_cases = list(enumerate_small(enum_len))
    cases.extend(enum_cases)
    cases.extend(gen_random(rng, max_blocks) for _ in range(n_random))
    model = core.Model() if build.model_ok else None
    distinct = set()
    hist = {"ok": 0, "conflict": 0, "missing": 0, "cycle": 0}
    sizes: Dict[int, int] = {}
    for blocks in cases:
        blocks = [(n, list(s), list(d)) for n, s, d in blocks]
        ri = impl_gen(blocks)
        oc.evaluations += 1
        hist[classify(blocks) or "ok"] += 1
        sizes[len(blocks)] = sizes.get(len(blocks), 0) + 1
        if nontrivial(blocks):
            distinct.add(json.dumps(blocks))
        bad = oracle(blocks, ri)
        if bad:
            small = shrink(blocks, lambda c: oracle(c, impl_gen(c)) is not None)
            oc.violations.append(core.Violation(
                key="c15:" + (classify(small) or "order"),
                what=f"generate_script_block on {small}: {oracle(small, impl_gen(small))}",
                replay={"kind": "function", "blocks": small, "implementation": impl_gen(small),
                        "model": model.call("c15.gen", [[n, s, d] for n, s, d in small]) if model else None,
                        "broken": "property oracle on the implementation's output (theorems C15_ok / C15_err_complete describe the model)"},
            ))
            continue
        if model is not None:
            rm = model.call("c15.gen", [[n, s, d] for n, s, d in blocks])
            if rm != ri:
                oc.correspondence_breaks.append({"blocks": blocks, "implementation": ri, "model": rm})
            else:
                oc.traces_validated_against_impl += 1
    # end-to-end traces through the executor and the template
    n_e2e = 45 if tier == "quick" else 300
    template = (core.REPO / "func_adl_xAOD/template/atlas/r21/ATestRun_eljob.py").read_text()
    e2e_ok = 0
    # directed: a block sent twice, dependencies on only one of the copies, next to blocks without a depends_on key - each in
    # its own query and then a lone dependency-free block (what one query declares must not reach the next)
    directed = [[("x", ["x=1"], []), ("j", ["j=1"], []), ("j", ["j=1"], ["x"])],
                [("solo", ["s=1"], [])],
                [("j", ["j=1"], ["x"]), ("x", ["x=1"], []), ("j", ["j=1"], [])],
                [("solo", ["s=1"], [])],
                [("a", ["a=1"], []), ("b", ["b=1"], []), ("a", ["a=1"], ["b"]), ("c", ["c=1"], [])]]
    named = [([("dep", ["d=1"], ["base"]), ("base", ["b=1"], [])], ["base"]),
             ([("c", ["c=1"], ["b"]), ("b", ["b=1"], ["a"]), ("a", ["a=1"], [])], ["a", "b"]),
             ([("p", ["p=1"], ["q"]), ("q", ["q=1"], ["p"])], ["p"]),
             ([("u", ["u=1"], ["nowhere"])], ["nowhere"])]
    for blocks, others in named:
        r = end_to_end(blocks, other_kinds=others)
        oc.evaluations += 1
        ri = impl_gen(blocks)
        exp = render_expected(template, ri[1]) if ri[0] == "ok" else None
        if (ri[0] == "error" and (r[0] != "error" or r[1] != ri[1])) or (ri[0] == "ok" and (r[0] != "ok" or r[1] != exp)):
            oc.violations.append(core.Violation(
                key="c15:e2e-other-kinds", what=f"job-script blocks {blocks} next to inject_code / C++ function metadata named {others}: the job options "
                f"are not those of the blocks alone ({'refusal ' + str(ri[1]) if ri[0] == 'error' else 'lines ' + str(ri[1])} expected)",
                replay={"kind": "e2e", "blocks": blocks, "other_kinds": others, "executor": r if r[0] == "error" else "ok", "function": ri}))
        else:
            e2e_ok += 1
    for i in range(n_e2e + len(directed)):
        blocks = directed[i] if i < len(directed) else gen_random(rng, 5)
        others: List[str] = []
        if i >= len(directed) and i % 3 == 0 and blocks:
            if i % 2:
                blocks = list(reversed(blocks))  # dependents arrive before what they depend on
            others = sorted({b[0] for b in blocks if rng.random() < 0.6}) + (["fv_other"] if rng.random() < 0.3 else [])
        r = end_to_end(blocks, omit_empty=(i < len(directed) or i % 2 == 0), other_kinds=others)
        oc.evaluations += 1
        ri = impl_gen(blocks)
        if ri[0] == "error":
            if r[0] != "error" or r[1] != ri[1]:
                oc.violations.append(core.Violation(
                    key="c15:e2e-error-lost", what=f"executor accepted job-script metadata that generate_script_block refuses: {blocks}",
                    replay={"kind": "e2e", "blocks": blocks, "other_kinds": others, "executor": r[:2], "function": ri}))
            else:
                e2e_ok += 1
            continue
        exp = render_expected(template, ri[1])
        if exp is None:
            oc.correspondence_breaks.append({"template": "ATestRun_eljob.py no longer has the single for-loop over job_option_additions the model of the insertion assumes"})
            break
        if r[0] != "ok" or r[1] != exp:
            got = r[1] if r[0] == "ok" else r
            oc.violations.append(core.Violation(
                key="c15:e2e-insertion", what=f"rendered ATestRun_eljob.py does not contain the ordered script lines for {blocks}",
                replay={"kind": "e2e", "blocks": blocks, "other_kinds": others, "expected_lines": ri[1], "rendered": got}))
        else:
            e2e_ok += 1
    if model is not None:
        model.close()
    oc.distinct_nontrivial = len(distinct)
    oc.rule = (f"corpus ({n_corpus}) + every list of <= {enum_len} blocks over 3 names x 2 scripts x 8 dependency sets ({len(enum_cases)}, exhaustive) "
               f"+ {n_random} random lists of <= {max_blocks} blocks over <= 6 names (70% acyclic-by-construction, duplicates, 4% missing dependency, shared/empty scripts) "
               f"+ {n_e2e} end-to-end traces through atlas_xaod_executor and the job-options template (a third with inject_code / C++ function metadata under the blocks' names); non-trivial = at least 2 blocks and one dependency; distinct by value")
    oc.samples = [cases[n_corpus + len(enum_cases) + i] for i in range(3)] + [enum_cases[-1]]
    oc.extra = {"input_classes": hist, "size_histogram": sizes, "end_to_end_traces_ok": e2e_ok, "model_available": model is not None}
    if not oc.violations and (ps.broken or oc.correspondence_breaks or model is None or core.build_hygiene_cache()):
        what = ps.broken or (f"correspondence ScriptBlocks.gen vs generate_script_block: {oc.correspondence_breaks[0]}" if oc.correspondence_breaks else
                             ("hygiene gate: " + "; ".join(core.build_hygiene_cache()) if core.build_hygiene_cache() else "model executable could not be built"))
        oc.violations.append(core.Violation(key="c15:unproved", what=what, no_failing_input=True,
                                            replay={"broken": what, "searched": f"{oc.evaluations} inputs with the topological-order oracle, none failed"}))
    return core.finish(PID, tier, seed, t0, ps, build, oc, TRUSTED, ASSUME)


def replay(path: str, build: core.BuildStatus) -> int:
    data = json.loads(open(path).read())
    if data.get("no_failing_input_found"):
        print(f"replay names a broken obligation only: {data.get('broken')}")
        ps = core.proof_status(PROP_FILE, build)
        print("proof status now:", ps.broken or "all theorems check")
        return 1 if ps.broken else 0
    blocks = [(n, list(s), list(d)) for n, s, d in data["blocks"]]
    if data.get("kind") == "e2e":
        r = end_to_end(blocks, other_kinds=data.get("other_kinds", []))
        ri = impl_gen(blocks)
        print("function:", ri)
        print("executor:", r[0], (r[1][:200] if isinstance(r[1], str) else r[1]))
        template = (core.REPO / "func_adl_xAOD/template/atlas/r21/ATestRun_eljob.py").read_text()
        bad = (ri[0] == "error") != (r[0] == "error") or (ri[0] == "ok" and r[1] != render_expected(template, ri[1]))
    else:
        ri = impl_gen(blocks)
        print("implementation:", ri)
        if build.model_ok:
            m = core.Model()
            print("model:", m.call("c15.gen", [[n, s, d] for n, s, d in blocks]))
            m.close()
        why = oracle(blocks, ri)
        print("oracle:", why or "property holds on this input")
        bad = why is not None
    if bad:
        print(f"VIOLATION property={PID} replay={path}")
        return 1
    return 0
