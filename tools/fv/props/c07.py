"""C07 - translating a query is independent of every query handled before it.

Theorems: coq/Properties/C07.v over coq/Model/ExecState.v (hand model of the state a process carries from
one query to the next and of the wrapper flow around an abstract translator).
Tie: random histories are executed against the real code, each in its own fresh interpreter
(c07_worker.py); after every operation the registries / executor lists are compared with the extracted
model's prediction (`c07.history`).
Search (independent oracle = the property text): the probe's package (or error) after the history is
compared, up to the numbering of generated names, with the same probe run as first query of another fresh
interpreter.  A difference is a concrete failing input; it is shrunk and written as replay."""
import concurrent.futures as cf
import json
import os
import random
import subprocess
import time
from pathlib import Path
from typing import Any, Dict, List, Optional, Tuple

from .. import core
from .c07_worker import ALT, BACKENDS, BUILTIN, COLL, same_up_to_numbering

PID = "C07"
PROP_FILE = "Properties/C07.v"
WORKER = Path(__file__).with_name("c07_worker.py")
TRUSTED = [
    "Coq 8.16.1 kernel (coqc); vm_compute only in the witness lemmas (refutations / non-vacuity)",
    "hand model coq/Model/ExecState.v: g_method_type_dict as one insertion-ordered association list keyed by (type, method), g_toplevel_ns as the list of defined enums, executor lists, the shared default-argument dict, the wrapper flow of local_dataset.execute_result_async; the translator itself (extract_metadata, func_adl passes, cpp_ast_finder, visitor, templates) is a universally quantified Section variable, assumed only to depend on the name counter by renaming",
    "completeness of the state inventory is TESTED, not proved: a new global or executor attribute added to /repo is outside the model and is caught only by the differential histories below",
    "extraction (ExtrOcamlBasic, ExtrOcamlString) + ocaml/main.ml driver + S-expression codec tools/fv/sexp.py",
    "correspondence = differential test bounded by the generator below; it reads (never writes) ctyp.g_method_type_dict, ctyp.g_toplevel_ns, executor._job_option_blocks/_inject_blocks/_extended_md/_found_extended_md and executor.__init__.__defaults__",
    "comparison up to numbering: positional, one-to-one, only names whose number lies in the counter window of the translation (c07_worker.same_up_to_numbering)",
    "python_on_whales is absent: a stub module is installed so that local_dataset.DockerImageSpecification can be imported; docker itself is never run",
]
ASSUME = [
    "histories consist of executor creations and of queries handled through apply_ast_transformations -> write_cpp_files on the three backends' executors, optionally after add_extended_md (the flow of LocalDataset); direct calls of cpp_types.add_method_type_info / define_enum from user code are not part of a history",
    "the translator reads no state besides the method-type registry, the namespace registry, the executor's inject/job blocks and the name counter (tested by the differential histories)",
    "one process, no concurrency",
]

FIXED = [True, True, True, True, True]
UNFIXED = [False, False, False, False, True]


# --------------------------------------------------------------------------------------------
# running scenarios
# --------------------------------------------------------------------------------------------
def run_worker(payload: Dict[str, Any]) -> Any:
    env = dict(os.environ)
    env["PYTHONPATH"] = str(core.REPO)
    env["PYTHONHASHSEED"] = "0"
    env["PYTHONDONTWRITEBYTECODE"] = "1"
    p = subprocess.run([core.PY, str(WORKER)], input=json.dumps(payload), text=True, capture_output=True, env=env, timeout=300)
    if p.returncode != 0:
        return {"worker_error": p.stderr[-600:]}
    return json.loads(p.stdout.strip().splitlines()[-1])


def fresh_of(probe: Dict[str, Any]) -> Dict[str, Any]:
    q = dict(probe)
    q["who"] = "new"
    return q


def probe_backend(ops: List[Dict[str, Any]]) -> str:
    """Backend of the executor that handles the last operation."""
    execs: List[str] = []
    b = ops[-1]["backend"]
    for op in ops:
        if op["op"] == "create" or op["who"] == "new" or op["who"] >= len(execs):
            execs.append(op["backend"])
            b = op["backend"]
        else:
            b = execs[op["who"]]
    return b


# --------------------------------------------------------------------------------------------
# model side
# --------------------------------------------------------------------------------------------
def opt(x):
    return ["none"] if x is None else ["some", x]


def decl_to_model(d):
    k = d[0]
    if k == "method":
        return ["method", d[1], d[2], d[3] + "/0"]
    if k == "enum":
        return ["enum", d[1], d[2], list(d[3])]
    if k == "inject":
        return ["inject", d[1], list(d[2])]
    if k == "job":
        return ["job", [d[1], list(d[2]), list(d[3])]]
    if k == "collection":
        return ["collection", d[1], d[2]]
    if k == "cppfunction":
        return ["cppfunction", d[1]]
    if k == "ext":
        return ["ext", d[1], opt(d[2])]
    if k == "bad":
        return ["bad", d[1].rstrip("2")]
    raise ValueError(d)


BODY_FLAGS = {"fail_extract": (0, "ValueError"), "fail_passes": (1, "AssertionError"), "fail_finder": (2, "ValueError")}


def model_ops(ops: List[Dict[str, Any]], impl_res: List[Dict[str, Any]]):
    """The translator is abstract in the model: whether it raises in write_cpp_files is taken from the
    implementation (everything the model decides itself - metadata, callbacks, job scripts - is left to it)."""
    out = []
    for op, r in zip(ops, impl_res):
        if op["op"] == "create":
            out.append(["create", op["backend"]])
            continue
        flags: List[Optional[str]] = [None, None, None]
        if op["body"] in BODY_FLAGS:
            i, e = BODY_FLAGS[op["body"]]
            flags[i] = e
        oc = r["outcome"]
        werr = oc[2] if oc[0] == "raised" and oc[1] == "write" else None
        q = [opt(flags[0]), [decl_to_model(d) for d in op["md"]], opt(flags[1]), opt(flags[2]), opt(werr)]
        who = ["new"] if op["who"] == "new" else ["reuse", op["who"]]
        dk = ["none"] if not op.get("docker") else ["some", list(op["docker"])]
        out.append(["handle", who, op["backend"], dk, q])
    return out


def norm_model_state(st):
    mt, ns, shared, execs = st
    ex = []
    for b, jobs, inj, ext, found, meths in execs:
        e = ["shared"] if ext[0] == "shared" else ["own", sorted(ext[1])]
        ex.append([b, jobs, inj, e, found, sorted(set(meths))])
    return [sorted(mt), sorted(ns), sorted(shared), ex]


def compare_with_model(model: core.Model, defaults, ops, impl_res, variant=FIXED) -> Optional[str]:
    tr = model.call("c07.history", [variant, [defaults[b] for b in BACKENDS], model_ops(ops, impl_res)])
    if not isinstance(tr, list) or len(tr) != len(ops) or (tr and tr[0] == "bad-input"):
        return f"model refused the input: {str(tr)[:200]}"
    for i, ((mo, ms), r) in enumerate(zip(tr, impl_res)):
        io = r["outcome"]
        if mo[0] == "created":
            same = io[0] == "created"
        elif mo[0] == "raised":
            stage = "write" if mo[1] == "write" else "apply"
            same = io[0] == "raised" and io[1] == stage and io[2] == mo[2]
        else:
            same = io[0] == "done"
            if same:
                mv = [sorted(mo[1][0]), sorted(mo[1][1]), mo[1][2], mo[1][3], sorted(set(mo[1][4]))]
                if mv != r["view"]:
                    return f"op {i}: what the translation sees: model {mv} / implementation {r['view']}"
                if mo[2] != r["found"]:
                    return f"op {i}: found extended metadata: model {mo[2]} / implementation {r['found']}"
        if not same:
            return f"op {i}: outcome: model {mo[:3] if mo[0] == 'raised' else mo[0]} / implementation {io}"
        if norm_model_state(ms) != r["state"]:
            return f"op {i}: state after the operation: model {norm_model_state(ms)} / implementation {r['state']}"
    return None


# --------------------------------------------------------------------------------------------
# the oracle: the property text on the implementation's output
# --------------------------------------------------------------------------------------------
def probe_diff(h: Dict[str, Any], f: Dict[str, Any]) -> Optional[str]:
    """h: probe result after the history, f: same probe in a fresh interpreter.  None if equal up to
    the numbering of generated names."""
    if h["outcome"] != f["outcome"]:
        return f"outcome {h['outcome']} after the history, {f['outcome']} in a fresh process"
    wh, wf = h["window"], f["window"]
    if h["outcome"][0] == "raised":
        if not same_up_to_numbering(h.get("message", ""), wh, f.get("message", ""), wf):
            return f"error message {h.get('message')!r} after the history, {f.get('message')!r} in a fresh process"
        return None
    ph, pf = h["package"], f["package"]
    for k in ("main_script", "all_filenames", "filename"):
        if ph[k] != pf[k]:
            return f"{k}: {ph[k]} / {pf[k]}"
    if not same_up_to_numbering(ph["treename"], wh, pf["treename"], wf):
        return f"tree name {ph['treename']} / {pf['treename']}"
    if sorted(ph["files"]) != sorted(pf["files"]):
        return f"file list {sorted(ph['files'])} / {sorted(pf['files'])}"
    for name in sorted(ph["files"]):
        (th, mh), (tf, mf) = ph["files"][name], pf["files"][name]
        if mh != mf:
            return f"mode of {name}: {oct(mh)} / {oct(mf)}"
        if not same_up_to_numbering(th, wh, tf, wf):
            lh, lf = th.splitlines(), tf.splitlines()
            for a, b in zip(lh, lf):
                if not same_up_to_numbering(a, wh, b, wf):
                    return f"{name}: {a.strip()!r} after the history, {b.strip()!r} in a fresh process"
            return f"{name}: {len(lh)} lines after the history, {len(lf)} in a fresh process"
    if h["found"] != f["found"]:
        return f"extended metadata found {h['found']} after the history, {f['found']} in a fresh process"
    return None


def classify(ops, res, fres, defaults, model_agrees: bool) -> str:
    """Key of the failing-input class: which carried-over state made the probe differ."""
    h, f = res[-1], fres[-1]
    default_entries = {tuple(e) for b in BACKENDS for e in defaults[b]}
    backends = {op["backend"] for op in ops}
    if "view" in h and "view" in f:
        (mh, nh, ih, jh, th), (mf, nf, i_f, jf, tf) = h["view"], f["view"]
        if th != tf:
            return "c07:leak-method-table"
        if nh != nf:
            return "c07:leak-enums"
        if ih != i_f or jh != jf:
            return "c07:leak-blocks"
        if mh != mf:
            sym = {tuple(e) for e in mh} ^ {tuple(e) for e in mf}
            if sym <= default_entries and len(backends) > 1 and model_agrees:
                return "c07:cross-backend-defaults"
            return "c07:leak-method-types"
    if h["outcome"] == f["outcome"] and h["outcome"][0] == "done" and h["found"] != f["found"]:
        return "c07:leak-found-md"
    pre = res[-2]["state"] if len(res) > 1 else None
    if pre is not None and any(e[5] for e in pre[3]):
        return "c07:leak-method-table"
    if pre is not None and (pre[2] or any(e[3][0] == "own" and e[3][1] for e in pre[3])):
        return "c07:leak-extended-md"
    return "c07:leak-other"


# --------------------------------------------------------------------------------------------
# generators
# --------------------------------------------------------------------------------------------
def gen_decl(rng: random.Random, backend: str, defaults) -> List[Any]:
    x = rng.random()
    elem = COLL[backend][1]
    if x < 0.30:
        y = rng.random()
        if y < 0.45:
            ty, m = elem, rng.choice(["foo", "foo", "bar"])
        elif y < 0.7:  # a new method on a type that carries backend default entries
            ty, m = rng.choice(ALT[backend])[1], rng.choice(["foo", "foo", "pdgId"])
        elif y < 0.85 and defaults[backend]:
            ty, m, _ = rng.choice(defaults[backend])  # overrides a default entry
        else:
            ty, m = rng.choice(["Other::Type", elem]), rng.choice(["foo", "baz"])
        return ["method", ty, m, rng.choice(["int", "float", "bool", "double"])]
    if x < 0.42:
        return ["enum", rng.choice(["xAOD.Jet", "xAOD.Jet", "xAOD", "Other.NS"]), rng.choice(["Color", "Color", "Kind"]),
                rng.choice([["Red", "Blue"], ["Red"], ["Green", "Red"]])]
    if x < 0.52:
        return ["inject", rng.choice(["blk1", "blk2"]), rng.choice([["a.h"], ["a.h"], ["b.h", "c.h"]])]
    if x < 0.64:
        n = rng.choice("abc")
        return ["job", n, [f"{n}=1"] if rng.random() < 0.9 else [f"{n}=2"], [d for d in "abc" if d != n and rng.random() < 0.3]]
    if x < 0.72:
        bk = backend if rng.random() < 0.7 else rng.choice([b for b in BACKENDS if b != backend])
        return ["collection", bk, rng.choice(["MyColl", "MyColl", BUILTIN[backend], BUILTIN[backend], "Other"])]
    if x < 0.77:
        return ["cppfunction", rng.choice(["my_fn", "my_fn2"])]
    if x < 0.90:
        return ["ext", "docker", rng.choice(["decl:1", "decl:2", None])]
    return ["bad", rng.choice(["ValueError", "ValueError2", "KeyError", "AttributeError"])]


BODIES = [("plain", 30), ("undeclared_alt1", 5), ("undeclared", 15), ("default", 10), ("enum", 8), ("fail_finder", 6), ("fail_write_op", 10),
          ("fail_extract", 4), ("fail_passes", 6), ("undeclared2", 6)]


def gen_handle(rng: random.Random, backend: str, n_execs: int, defaults) -> Dict[str, Any]:
    body = rng.choices([b for b, _ in BODIES], [w for _, w in BODIES])[0]
    who: Any = "new" if n_execs == 0 or rng.random() < 0.55 else rng.randrange(n_execs)
    return {"op": "handle", "who": who, "backend": backend,
            "docker": ["docker", f"img:{rng.randrange(3)}"] if rng.random() < 0.25 else None,
            "md": [gen_decl(rng, backend, defaults) for _ in range(rng.choice([0, 1, 1, 2, 2, 3, 4]))],
            "body": body, "outdir": rng.random() > 0.06}


def probes(backend: str) -> List[Dict[str, Any]]:
    elem = COLL[backend][1]
    base = {"op": "handle", "who": "new", "backend": backend, "docker": None, "md": [], "body": "plain", "outdir": True}
    out = []
    for body, md, dk in [
        ("undeclared", [], None),
        ("undeclared2", [["method", elem, "bar", "int"]], None),
        ("declared", [["method", elem, "bar", "int"]], None),
        ("enum", [["enum", "xAOD.Jet", "Color", ["Red", "Blue"]]], None),
        ("undeclared_alt1", [], None),
        ("undeclared_alt2", [], None),
        ("use_mycoll", [], None),
        ("default", [], None),
        ("enum", [], None),
        ("plain", [["ext", "docker", "probe:9"]], None),
        ("plain", [["ext", "docker", "probe:9"]], ["docker", "base:1"]),
        ("plain", [], ["docker", "base:1"]),
        ("plain", [["job", "a", ["a=1"], []]], None),
        ("plain", [["inject", "blk1", ["a.h"]]], None),
        ("plain", [], None),
    ]:
        p = dict(base)
        p.update(body=body, md=md, docker=dk)
        out.append(p)
    return out


def gen_scenario(rng: random.Random, max_ops: int, defaults) -> Tuple[List[Dict[str, Any]], bool]:
    """(ops incl. probe, mixes backends?)."""
    mixed = rng.random() < 0.25
    main = rng.choice(BACKENDS)
    ops: List[Dict[str, Any]] = []
    n_execs = 0
    for _ in range(rng.randint(1, max_ops)):
        b = rng.choice(BACKENDS) if mixed and rng.random() < 0.5 else main
        if rng.random() < 0.08:
            ops.append({"op": "create", "backend": b})
            n_execs += 1
        else:
            o = gen_handle(rng, b, n_execs, defaults)
            if o["who"] == "new":
                n_execs += 1
            ops.append(o)
    p = dict(rng.choice(probes(main)))
    if n_execs and rng.random() < 0.5:
        p["who"] = rng.randrange(n_execs)
    if p["md"] and p["who"] != "new" and rng.random() < 0.6:
        # the executor has just handled a query carrying the SAME metadata as the probe (a client sending one preamble with
        # every query): the probe's own declarations must still take effect
        ops.append({"op": "handle", "who": p["who"], "backend": main, "docker": p["docker"] if rng.random() < 0.5 else None,
                    "md": [list(m) for m in p["md"]], "body": rng.choice(["plain", "plain", "undeclared", "fail_write_op"]), "outdir": True})
    if rng.random() < 0.3:
        # the probe's very query object has been translated before (a second .value() on one ObjectStream): translating a query must
        # leave the caller's query as it was
        first = dict(p)
        first["md"] = [list(m) for m in p["md"]]
        ops.append(first)
        p["reuse"] = True
    ops.append(p)
    # the probe's backend is that of the executor handling it
    ops[-1]["backend"] = probe_backend(ops)
    if len(ops) >= 2 and ops[-1].get("reuse"):
        ops[-2]["backend"] = ops[-1]["backend"] if ops[-2]["who"] == ops[-1]["who"] != "new" else ops[-2]["backend"]
    return ops, len({o["backend"] for o in ops}) > 1


def corpus(defaults) -> List[List[Dict[str, Any]]]:
    """The witness histories of coq/Proofs/ExecStateProofs.v, on the real code."""
    def h(backend, body="plain", md=(), who="new", docker=None, outdir=True):
        return {"op": "handle", "who": who, "backend": backend, "docker": docker, "md": [list(m) for m in md], "body": body, "outdir": outdir}

    return [
        [h("atlas", "fail_write_op", [["method", "xAOD::Jet", "foo", "int"]]), h("atlas", "undeclared")],  # h_failed
        [h("atlas", "plain", [["method", "xAOD::Jet", "foo", "int"], ["bad", "ValueError"]]), h("atlas", "undeclared")],  # raises inside apply_ast_transformations
        [h("atlas", "plain", [["method", "xAOD::Jet", "foo", "int"]], outdir=False), h("atlas", "undeclared")],  # raises while writing files
        [h("atlas", "plain", [["enum", "xAOD.Jet", "Color", ["Red", "Blue"]]]), h("atlas", "enum")],  # h_enum
        [h("cms_aod", "plain", docker=["docker", "image:1"]), h("atlas", "plain", [["ext", "docker", "other:2"]])],  # h_docker
        [h("atlas", "plain", [["ext", "docker", "first:1"]], docker=["docker", "image:1"]), h("atlas", "plain", who=0, docker=["docker", "image:1"])],  # h_found
        [h("atlas", "fail_write_op", [["job", "a", ["a=1"], []]]), h("atlas", "plain", who=0)],  # job-script blocks of a failed query on a reused executor
        [h("atlas", "plain", [["method", "xAOD::TruthParticle", "foo", "int"]]), h("atlas", "undeclared_alt1")],  # declaration on a type with default entries
        [h("cms_aod", "fail_write_op", [["method", "reco::GsfElectron", "foo", "int"]]), h("cms_aod", "undeclared_alt1", who=0)],
        [h("cms_miniaod", "plain", [["method", "pat::Electron", "foo", "int"]]), h("cms_miniaod", "undeclared_alt1")],
        [h("atlas", "plain", [["collection", "atlas", "Jets"]]), h("atlas", "plain", who=0)],  # h_coll: a declared collection overriding a built-in, reused executor
        [h("cms_miniaod", "plain", [["collection", "cms_miniaod", "Muons"]]), h("cms_miniaod", "plain", who=0)],
        [h("atlas", "plain", [["collection", "atlas", "MyColl"]]), h("atlas", "use_mycoll", who=0)],  # a new collection name, reused executor
        # a job-script block sent twice in one query, its dependency on only one of the copies, next to blocks that omit the
        # optional depends_on key: what that query merged must not reach a later query's blocks (same or new executor)
        [h("atlas", "plain", [["job", "a", ["a=1"], []], ["job", "b", ["b=1"], []], ["job", "a", ["a=1"], ["b"]]]), h("atlas", "plain", [["job", "c", ["c=1"], []]])],
        [h("atlas", "plain", [["job", "a", ["a=1"], ["b"]], ["job", "b", ["b=1"], []], ["job", "a", ["a=1"], []]]), h("atlas", "plain", [["job", "c", ["c=1"], []]], who=0)],
        [h("atlas", "plain", [["job", "a", ["a=1"], []], ["job", "b", ["b=1"], []], ["job", "a", ["a=1"], ["b"]]]), h("atlas", "plain", [["job", "b", ["b=1"], []], ["job", "c", ["c=1"], []]], who=0)],
        # the same metadata twice in a row on one executor: the second query's own declarations must be processed again
        [h("atlas", "plain", [["method", "xAOD::Jet", "bar", "int"]]), h("atlas", "declared", [["method", "xAOD::Jet", "bar", "int"]], who=0)],
        [h("cms_aod", "plain", [["method", COLL["cms_aod"][1], "bar", "int"]]), h("cms_aod", "declared", [["method", COLL["cms_aod"][1], "bar", "int"]], who=0)],
        [h("cms_miniaod", "fail_write_op", [["method", COLL["cms_miniaod"][1], "bar", "int"]]), h("cms_miniaod", "declared", [["method", COLL["cms_miniaod"][1], "bar", "int"]], who=0)],
        [h("atlas", "plain", [["enum", "xAOD.Jet", "Color", ["Red", "Blue"]]]), h("atlas", "enum", [["enum", "xAOD.Jet", "Color", ["Red", "Blue"]]], who=0)],
        # the very same query object translated twice (new executor each time / the same executor): its metadata still applies
        [h("atlas", "declared", [["method", "xAOD::Jet", "bar", "int"]]), {**h("atlas", "declared", [["method", "xAOD::Jet", "bar", "int"]]), "reuse": True}],
        [h("cms_miniaod", "declared", [["method", COLL["cms_miniaod"][1], "bar", "int"]]), {**h("cms_miniaod", "declared", [["method", COLL["cms_miniaod"][1], "bar", "int"]], who=0), "reuse": True}],
        [{"op": "create", "backend": "cms_aod"}, h("atlas"), h("cms_aod", "default", who=0)],  # h_cross (reused executor)
        [{"op": "create", "backend": "cms_aod"}, h("atlas"), h("cms_aod", "undeclared2", [["method", "xAOD::TruthParticle", "bar", "int"]])],
    ]


# --------------------------------------------------------------------------------------------
# shrinking
# --------------------------------------------------------------------------------------------
def drop_op(ops: List[Dict[str, Any]], i: int) -> List[Dict[str, Any]]:
    """Remove history operation i, keeping the executor indices of the others meaningful."""
    created_at: List[int] = []  # op index that created executor k
    n = 0
    for j, op in enumerate(ops):
        if op["op"] == "create" or op["who"] == "new" or op["who"] >= n:
            created_at.append(j)
            n += 1
    gone = created_at.index(i) if i in created_at else None
    out = []
    for j, op in enumerate(ops):
        if j == i:
            continue
        op = json.loads(json.dumps(op))
        if op["op"] == "handle" and op["who"] != "new" and gone is not None:
            if op["who"] == gone:
                op["who"] = "new"
            elif op["who"] > gone:
                op["who"] -= 1
        out.append(op)
    return out


def still_fails(ops) -> Optional[Tuple[str, Any, Any]]:
    res = run_worker({"ops": ops})
    fres = run_worker({"ops": [fresh_of(dict(ops[-1], backend=probe_backend(ops)))]})
    if isinstance(res, dict) or isinstance(fres, dict):
        return None
    d = probe_diff(res[-1], fres[-1])
    return (d, res, fres) if d else None


def shrink(ops, budget: int = 30):
    cur = ops
    changed = True
    while changed and budget > 0:
        changed = False
        for i in range(len(cur) - 1):
            cand = drop_op(cur, i)
            budget -= 1
            if still_fails(cand):
                cur, changed = cand, True
                break
        if changed:
            continue
        for i in range(len(cur) - 1):
            if cur[i]["op"] != "handle":
                continue
            for k in range(len(cur[i]["md"])):
                cand = json.loads(json.dumps(cur))
                del cand[i]["md"][k]
                budget -= 1
                if still_fails(cand):
                    cur, changed = cand, True
                    break
            if changed or budget <= 0:
                break
    return cur


def summary(r: Dict[str, Any]) -> Dict[str, Any]:
    out = {"outcome": r["outcome"], "message": r.get("message"), "found": r.get("found"), "view": r.get("view")}
    if "package" in r:
        out["declarations"] = [ln.strip() for n, (t, _) in r["package"]["files"].items() if n in ("query.h", "Analyzer.cc")
                               for ln in t.splitlines() if "_col" in ln and ("std::vector" in ln or ln.strip().startswith(("int ", "double ", "float ", "bool ")))][:6]
    return out


# --------------------------------------------------------------------------------------------
def check(tier: str, seed: int, t0: float, build: core.BuildStatus) -> int:
    ps = core.proof_status(PROP_FILE, build)
    oc = core.Outcome()
    rng = random.Random(seed * 7919 + 7)
    n_random = 170 if tier == "quick" else 2600
    max_ops = 5 if tier == "quick" else 9
    defaults = run_worker({"defaults": True})
    if "worker_error" in defaults:
        oc.violations.append(core.Violation(key="c07:unproved", what="worker cannot import the implementation: " + defaults["worker_error"],
                                            no_failing_input=True, replay={"broken": defaults["worker_error"]}))
        return core.finish(PID, tier, seed, t0, ps, build, oc, TRUSTED, ASSUME)
    scenarios: List[List[Dict[str, Any]]] = corpus(defaults)
    n_corpus = len(scenarios)
    scenarios += [gen_scenario(rng, max_ops, defaults)[0] for _ in range(n_random)]
    fresh_cache: Dict[str, Any] = {}
    fresh_jobs = {}
    for ops in scenarios:
        fp = fresh_of(dict(ops[-1], backend=probe_backend(ops)))
        fresh_jobs.setdefault(json.dumps(fp, sort_keys=True), fp)
    with cf.ThreadPoolExecutor(max_workers=min(12, (os.cpu_count() or 4))) as ex:
        fr = {k: ex.submit(run_worker, {"ops": [p]}) for k, p in fresh_jobs.items()}
        hr = [ex.submit(run_worker, {"ops": ops}) for ops in scenarios]
        fresh_cache = {k: v.result() for k, v in fr.items()}
        results = [h.result() for h in hr]
    model = core.Model() if build.model_ok else None
    hist = {"ops": {}, "outcomes": {}, "probe_bodies": {}, "mixed_backend_histories": 0, "reused_probe_executor": 0, "stages": {}}
    distinct = set()
    seen_keys = set()
    agree = 0
    unfixed_agree = 0
    for idx, (ops, res) in enumerate(zip(scenarios, results)):
        oc.evaluations += 1
        fres = fresh_cache[json.dumps(fresh_of(dict(ops[-1], backend=probe_backend(ops))), sort_keys=True)]
        if isinstance(res, dict) or isinstance(fres, dict):
            oc.correspondence_breaks.append({"ops": ops, "worker_error": (res if isinstance(res, dict) else fres)["worker_error"]})
            continue
        mixed = len({o["backend"] for o in ops}) > 1
        hist["mixed_backend_histories"] += int(mixed)
        hist["reused_probe_executor"] += int(ops[-1]["who"] != "new")
        hist["ops"][len(ops)] = hist["ops"].get(len(ops), 0) + 1
        hist["probe_bodies"][ops[-1]["body"]] = hist["probe_bodies"].get(ops[-1]["body"], 0) + 1
        for op, r in zip(ops[:-1], res[:-1]):
            k = "/".join(r["outcome"][:2]) + (":" + op["body"] if r["outcome"][0] == "raised" else "")
            hist["outcomes"][k] = hist["outcomes"].get(k, 0) + 1
        if len(ops) >= 3 and any(o.get("md") for o in ops[:-1]):
            distinct.add(json.dumps(ops, sort_keys=True))
        brk = None
        if model is not None:
            brk = compare_with_model(model, defaults, ops, res)
            if brk:
                oc.correspondence_breaks.append({"ops": ops, "difference": brk})
                # does the implementation behave like the wrapper before the fix (the model the _refuted theorems are about)?
                unfixed_agree += int(compare_with_model(model, defaults, ops, res, UNFIXED) is None)
            else:
                agree += 1
                oc.traces_validated_against_impl += 1
        d = probe_diff(res[-1], fres[-1])
        if d:
            key = classify(ops, res, fres, defaults, model is not None and brk is None)
            small, sres, sfres, sd = ops, res, fres, d
            if key not in seen_keys:
                seen_keys.add(key)
                small = shrink(ops)
                again = still_fails(small)
                if again:
                    sd, sres, sfres = again
                else:
                    small = ops
            oc.violations.append(core.Violation(
                key=key,
                what=f"probe {small[-1]['body']} on {probe_backend(small)} ({'reused' if small[-1]['who'] != 'new' else 'new'} executor) after {len(small) - 1} operation(s): {sd}",
                replay={"kind": "history", "ops": small, "after_history": summary(sres[-1]), "fresh_process": summary(sfres[-1]),
                        "history_outcomes": [r["outcome"] for r in sres[:-1]],
                        "broken": "independent oracle (probe after the history vs. the same probe as first query of a fresh interpreter); theorem C07_independent_partial describes the model of the fixed wrapper"}))
    if model is not None:
        model.close()
    oc.distinct_nontrivial = len(distinct)
    oc.rule = (f"corpus of {n_corpus} witness histories + {n_random} random histories of 1..{max_ops} operations (8% bare executor creations; queries: "
               f"{', '.join(f'{b} {w}%' for b, w in BODIES)}; 0-4 declarations each over method types (45% on the main element type, 25% new methods on the other types that carry backend defaults, 15% overriding a default entry), enums, "
               "inject blocks (conflicting names possible), job scripts (missing/cyclic dependencies possible), collections (30% for a foreign backend; 40% overriding a built-in name, 40% a new name used by a probe), C++ functions, docker metadata, 10% malformed dictionaries; "
               "25% with add_extended_md; 6% with a missing output directory; 45% on a reused executor; 25% of the histories mix backends), each run in its own fresh interpreter, "
               "followed by one of 13 probes per backend (undeclared method on the main element type and on the other built-in types that carry default entries, default-typed method, enum, docker metadata with/without registration, job script, inject block, a built-in collection, a collection name only metadata can declare) (50% on a reused executor); the probe alone is run in another fresh interpreter; non-trivial = at least 2 history operations and one declaration; distinct by value")
    oc.samples = scenarios[n_corpus:n_corpus + 3] + scenarios[:1]
    oc.extra = {"input_distribution": hist, "model_agrees_on": agree, "of_the_disagreeing_histories_the_unfixed_variant_of_the_model_agrees_on": unfixed_agree, "model_available": model is not None,
                "fresh_baselines": len(fresh_cache), "default_table_sizes": {b: len(defaults[b]) for b in BACKENDS},
                "repo": str(core.REPO)}
    hyg = core.build_hygiene_cache()
    real = [v for v in oc.violations if not v.no_failing_input]
    known = {k["key"] for k in core.known_findings() if k.get("property") == PID and k.get("status") == "known"}
    if not [v for v in real if v.key not in known] and (ps.broken or oc.correspondence_breaks or model is None or hyg):
        what = ps.broken or (f"correspondence ExecState (fixed wrapper) vs implementation: {json.dumps(oc.correspondence_breaks[0])[:700]}" if oc.correspondence_breaks else
                             ("hygiene gate: " + "; ".join(hyg) if hyg else "model executable could not be built"))
        oc.violations.append(core.Violation(key="c07:unproved", what=what, no_failing_input=True,
                                            replay={"broken": what, "searched": f"{oc.evaluations} histories with the fresh-interpreter oracle, none failed"}))
    return core.finish(PID, tier, seed, t0, ps, build, oc, TRUSTED, ASSUME)


def replay(path: str, build: core.BuildStatus) -> int:
    data = json.loads(open(path).read())
    if data.get("no_failing_input_found"):
        print(f"replay names a broken obligation only: {data.get('broken')}")
        ps = core.proof_status(PROP_FILE, build)
        print("proof status now:", ps.broken or "all theorems check")
        return 1 if ps.broken else 0
    ops = data["ops"]
    r = still_fails(ops)
    print("history:")
    for op in ops[:-1]:
        print("  ", json.dumps(op))
    print("probe:", json.dumps(ops[-1]))
    if r is None:
        print("probe after the history == probe in a fresh interpreter (up to numbering): property holds on this input")
        return 0
    d, res, fres = r
    print("after the history :", json.dumps(summary(res[-1]))[:600])
    print("fresh interpreter :", json.dumps(summary(fres[-1]))[:600])
    print("difference:", d)
    if build.model_ok:
        defaults = run_worker({"defaults": True})
        m = core.Model()
        print("model (fixed wrapper) vs implementation:", compare_with_model(m, defaults, ops, res) or "agree")
        m.close()
    print(f"VIOLATION property={PID} replay={path}")
    return 1
