"""C14 - injected code blocks land once, in order, in their documented places.

Theorems: Properties/C14.v (regions / slots / de-duplication; the slot table is re-proved by computation over
gen/Templates.v, regenerated from the templates, the InjectCodeBlock dataclass and the executors on every run).
Tie H: the extracted model (process_metadata's inject branch, _ib_fetch, info dict, jinja2 rendering of the
regenerated templates) is compared, whole package, with what the three real executors write for generated
metadata lists.  Oracle of the property text (independent of model and translator): in the files the
implementation wrote, the region between hand-written anchors holds exactly the expected lines, in order,
unaltered, and everything outside the regions is identical to the package written without inject_code."""
import json
import logging
import random
import re
import tempfile
from pathlib import Path
from typing import Any, Dict, List, Optional, Tuple

from .. import core, impl

PID = "C14"
PROP_FILE = "Properties/C14.v"
TRUSTED = [
    "Coq 8.16.1 kernel; vm_compute over the regenerated finite slot table (fields x templates)",
    "translator tools/fv/translators/templates.py: mini-Jinja parser (self-tested against jinja2 on a probe environment), Python ast of the InjectCodeBlock dataclass, of executor._ib_fetch / its properties / write_cpp_files and of the three backend executors; fail-closed, unverified",
    "jinja2 semantics ({{x}} inserts the value verbatim, no second rendering pass, no auto-escape, default whitespace options) is a hand model validated by the whole-package comparison on lines containing {{ {% {# #} quotes backslashes <>& non-ASCII newlines",
    "the documented-place table (Model/Inject.v: atlas_places, place_ok) is hand-written from the comments of the dataclass",
    "extraction + OCaml driver; correspondence runs are differential tests bounded by the generator",
    "func_adl's MetaData / extract_metadata (third party) carry the dictionaries unchanged",
]
ASSUME = [
    "metadata values are str or list of str (what func_adl can carry); other metadata types are transparent to the inject_code path",
    "the textual oracle assumes injected lines do not contain the anchor texts that delimit the regions",
]

BACKENDS = ["atlas", "cms_aod", "cms_miniaod"]
QUERIES = {
    "atlas": [
        'ds.Select(lambda e: e.Jets("AntiKt4EMTopoJets").Select(lambda j: j.pt()))',
        'ds.Select(lambda e: e.EventInfo("EventInfo").runNumber())',
    ],
    "cms_aod": ['ds.Select(lambda e: e.Muons("muons").Select(lambda m: m.pt()))'],
    "cms_miniaod": ['ds.Select(lambda e: e.Muons("slimmedMuons").Select(lambda m: m.pt()))'],
}
JOB_SCRIPT = {"metadata_type": "add_job_script", "name": "js1", "script": ["# job option line"], "depends_on": []}

FIELDS_HAND = ["body_includes", "header_includes", "private_members", "instance_initialization", "ctor_lines", "initialize_lines", "link_libraries"]

# ---------------------------------------------------------------------------------------------
# anchors of the property-text oracle (hand-written; independent of the translator)
# (file, start anchor (first occurrence), end anchor (last occurrence), item regex builder)
# ---------------------------------------------------------------------------------------------
def _inc(item: str) -> str:
    return r'#include "' + re.escape(item) + r'"'


ATLAS_REGIONS: Dict[str, Tuple[str, str, str, str]] = {
    # field: (file, start anchor, end anchor, kind); anchors are code, never comments; the start is its first
    # occurrence, the end its last occurrence ("first:" prefix: first occurrence after the start)
    "body_includes": ("query.cxx", '#include "xAODRootAccess/tools/TFileAccessTracer.h"\n', "#include <TTree.h>", "include"),
    "header_includes": ("query.h", "#include <AnaAlgorithm/AnaAlgorithm.h>\n", "class query : public EL::AnaAlgorithm", "include"),
    "private_members": ("query.h", "private:\n", "};\n\n#endif", "line"),
    "instance_initialization": ("query.cxx", ": EL::AnaAlgorithm (name, pSvcLocator)", "first:\n{\n", "init"),
    "ctor_lines": ("query.cxx", "xAOD::TFileAccessTracer::enableDataSubmission(false);\n", "}\n\nStatusCode query :: initialize ()", "line"),
    "initialize_lines": ("query.cxx", "StatusCode query :: initialize ()\n{\n", "return StatusCode::SUCCESS;\n}\n\nStatusCode query :: execute ()", "line"),
    "link_libraries": ("package_CMakeLists.txt", "LINK_LIBRARIES AnaAlgorithmLib ", ")\n\nif (XAOD_STANDALONE)", "lib"),
}
CMS_REGIONS: Dict[str, Tuple[str, str, str, str]] = {
    "body_includes": ("Analyzer.cc", '#include "CommonTools/UtilAlgos/interface/TFileService.h"\n', '#include "TTree.h"', "include"),
}
ANCHOR_TEXTS = sorted({a.replace("first:", "") for t in (ATLAS_REGIONS, CMS_REGIONS) for v in t.values() for a in (v[1], v[2])})


def regions_for(backend: str):
    return ATLAS_REGIONS if backend == "atlas" else CMS_REGIONS


def cut(text: str, start: str, end: str) -> Optional[Tuple[str, str, str]]:
    i = text.find(start)
    if i < 0:
        return None
    if end.startswith("first:"):
        j = text.find(end[6:], i + len(start))
    else:
        j = text.rfind(end)
    if j < 0 or j < i + len(start):
        return None
    return text[: i + len(start)], text[i + len(start) : j], text[j:]


def region_regex(kind: str, base_region: str, lines: List[str]) -> "re.Pattern[str]":
    """What the region may be: the region of the package without inject_code (its trailing white space
    flexible), followed by the injected lines in order, each once, verbatim, separated only by the place's
    separators."""
    ws = r"[ \n]*"
    head = re.escape(base_region.rstrip(" \n")) + ws
    if kind == "include":
        body = "".join(_inc(x) + ws for x in lines)
    elif kind == "line":
        body = "".join(re.escape(x) + ws for x in lines)
    elif kind == "init":
        body = "".join("," + re.escape(x) + ws for x in lines)
    else:  # lib
        ws = r" *"
        head = re.escape(base_region.rstrip(" ")) + ws
        body = "".join(re.escape(x) + " +" for x in lines)
    return re.compile(ws + head + body, re.S)


# ---------------------------------------------------------------------------------------------
# the implementation
# ---------------------------------------------------------------------------------------------
def run_impl(backend: str, src: str, md: List[Dict[str, Any]], capture: bool = False):
    """The repository pipeline on a query with metadata; files are read back as bytes.
    With capture=True the template context of the first rendered file is returned too (used only to learn
    the values the *query* contributes, on runs without inject_code)."""
    import jinja2

    got: List[Dict[str, Any]] = []
    orig = jinja2.Template.new_context

    def patched(self, vars=None, shared=False, locals=None):  # noqa: A002
        if vars is not None and not got:
            got.append(dict(vars))
        return orig(self, vars, shared, locals)

    try:
        a = impl.query_ast(src, md)
    except Exception as e:  # noqa: BLE001
        return ("error", "query-construction:" + type(e).__name__, str(e)[:200])
    import func_adl_xAOD.common.cpp_vars as cpp_vars

    exe = impl.executors()[backend]()
    cpp_vars.unique_var_index = 0  # harness only: same generated variable names in every run (the counter is process-global)
    if capture:
        jinja2.Template.new_context = patched
    try:
        with tempfile.TemporaryDirectory(prefix="fv-c14-") as d:
            out = Path(d)
            try:
                a2 = exe.apply_ast_transformations(a)
                exe.write_cpp_files(a2, out)
            except Exception as e:  # noqa: BLE001
                return ("error", type(e).__name__, str(e)[:300])
            files = {f.name: f.read_bytes().decode("utf-8", "surrogateescape") for f in sorted(out.iterdir())}
    finally:
        jinja2.Template.new_context = orig
        impl.reset_globals()
    return ("ok", files, got[0] if got else None)


# ---------------------------------------------------------------------------------------------
# the property text, executed independently (plain Python, no model, no template parsing)
# ---------------------------------------------------------------------------------------------
def expected_blocks(md: List[Dict[str, Any]], fields: List[str]):
    """('ok', kept blocks as dict field->lines) or ('error',)"""
    kept: List[Dict[str, Any]] = []
    for d in md:
        if d.get("metadata_type") != "inject_code":
            continue
        info = {k: v for k, v in d.items() if k != "metadata_type"}
        if not info:
            continue
        if "name" not in info or any(k != "name" and k not in fields for k in info):
            return ("error",)
        full = {"name": info["name"], **{f: info.get(f, []) for f in fields}}
        same = [b for b in kept if b["name"] == full["name"]]
        if same:
            if same[0] != full:
                return ("error",)
            continue
        kept.append(full)
    return ("ok", kept)


def lines_of_field(kept, f: str) -> List[str]:
    out: List[str] = []
    for b in kept:
        out += list(b[f])  # a str value iterates as characters, as itertools.chain does
    return out


def oracle(backend: str, fields: List[str], md, r, base) -> Optional[Tuple[str, str]]:
    """None when the implementation's outcome satisfies the property text on this input, else (class, what)."""
    exp = expected_blocks(md, fields)
    if exp[0] == "error":
        if r[0] != "error":
            return ("accepted-bad-blocks", "conflicting / malformed inject_code blocks were accepted")
        if r[1] != "ValueError":
            return ("wrong-error", f"bad inject_code blocks raise {r[1]} instead of ValueError")
        return None
    if r[0] == "error":
        return ("rejected-good-blocks", f"well-formed inject_code blocks are refused: {r[1]}: {r[2][:100]}")
    if base[0] != "ok":
        return None
    files, bfiles = r[1], base[1]
    kept = exp[1]
    regs = regions_for(backend)
    per_file: Dict[str, List[str]] = {}
    for f, (fn, a, b, kind) in regs.items():
        per_file.setdefault(fn, []).append(f)
    for fn in bfiles:
        if fn not in files:
            return ("file-missing", f"{fn} is not written")
        if fn not in per_file:
            if files[fn] != bfiles[fn]:
                return ("leak:" + fn, f"{fn} differs from the package without inject_code although no field is documented to land there")
            continue
    for f, (fn, a, b, kind) in regs.items():
        c1, c0 = cut(files[fn], a, b), cut(bfiles[fn], a, b)
        if c1 is None or c0 is None:
            return ("region:" + f, f"the {f} region of {fn} cannot be located (anchor text missing)")
        lines = lines_of_field(kept, f)
        if not region_regex(kind, c0[1], lines).fullmatch(c1[1]):
            return ("region:" + f, f"{fn}: the {f} region is not the expected lines {lines!r}, once each, in order, unaltered")
    # outside the regions nothing may change: blank the regions out, innermost anchors first
    for fn, fs in per_file.items():
        t1, t0 = files[fn], bfiles[fn]
        for f in fs:
            _, a, b, _ = regs[f]
            c1, c0 = cut(t1, a, b), cut(t0, a, b)
            if c1 is None or c0 is None:
                return ("region:" + f, f"the {f} region of {fn} cannot be located")
            t1, t0 = c1[0] + "<R>" + c1[2], c0[0] + "<R>" + c0[2]
        if t1 != t0:
            return ("leak:" + fn, f"{fn} changed outside the documented regions")
    return None


# ---------------------------------------------------------------------------------------------
# generator
# ---------------------------------------------------------------------------------------------
SPECIAL_LINES = [
    "{{ x }}", "{{l}}", "{{i}}", "{% for a in b %}", "{% endfor %}", "{%- endfor -%}", "{# c #}", "#}", "{#", "{{", "}}", "%}", "{%",
    "{{ '{{' }}", "{% raw %}", 'say "hi"', "it's", "back\\slash", "\\n not a newline", "\\", "<a href='x'>&amp;</a>", "a < b && c > d",
    "\u00e9\u00fc\u00df", "\u65e5\u672c\u8a9e", "\U0001f600", "", " ", "  two leading", "trailing  ", "tab\there", "two\nlines", "cr\rhere",
    "$HOME ${x} $(y)", "`z`", "100%", "#include <x>", "int m;", "m(1)", "m = m * 2;", "xAODJet", "//comment", "/* c */", ")", "};", "{", "}",
]
NAMES = ["b1", "b2", "b3", "n\u00e4me", "{{n}}", ""]


def gen_line(rng: random.Random, stats: Dict[str, int]) -> str:
    k = rng.random()
    if k < 0.55:
        s = rng.choice(SPECIAL_LINES)
    elif k < 0.8:
        s = "".join(rng.choice("abcXYZ019_ ;(){}<>&\"'\\%#$*+-=/.,:{}") for _ in range(rng.randint(0, 12)))
    else:
        s = rng.choice(SPECIAL_LINES) + rng.choice([" ", "", "x"]) + rng.choice(SPECIAL_LINES)
    for tag, pat in (("jinja-open", r"\{\{|\{%|\{#"), ("jinja-close", r"\}\}|%\}|#\}"), ("quote", r"[\"']"), ("backslash", r"\\"), ("html", r"[<>&]"),
                     ("non-ascii", r"[^\x00-\x7f]"), ("newline", r"[\n\r]"), ("empty-or-blank", r"^\s*$")):
        if re.search(pat, s):
            stats[tag] = stats.get(tag, 0) + 1
    if any(a in s for a in ANCHOR_TEXTS) or "\n{" in s:
        return "x"
    return s


def gen_block(rng: random.Random, fields: List[str], stats: Dict[str, int]) -> Dict[str, Any]:
    nm = rng.choice(NAMES) if rng.random() < 0.25 else f"blk{rng.randint(0, 10**6)}"
    b: Dict[str, Any] = {"metadata_type": "inject_code", "name": nm}
    k = rng.random()
    chosen = fields if k < 0.15 else [f for f in fields if rng.random() < rng.choice([0.2, 0.5, 0.8])]
    for f in chosen:
        b[f] = [gen_line(rng, stats) for _ in range(rng.choice([0, 1, 1, 2, 2, 3, 5]))]
        stats["field:" + f] = stats.get("field:" + f, 0) + 1
    return b


def other_named(nm: str) -> List[Dict[str, Any]]:
    """metadata of other kinds that has a name: a C++ function, a job-script block (each valid on every backend)"""
    return [{"metadata_type": "add_cpp_function", "name": nm, "include_files": [], "arguments": ["a"], "code": ["auto result = a;"], "return_type": "double"},
            {"metadata_type": "add_job_script", "name": nm, "script": ["# " + nm], "depends_on": []}]


def gen_md(rng: random.Random, fields: List[str], stats: Dict[str, int]) -> List[Dict[str, Any]]:
    md: List[Dict[str, Any]] = []
    for _ in range(rng.choice([0, 1, 1, 2, 2, 3, 3, 4, 6])):
        k = rng.random()
        blocks = [m for m in md if m.get("metadata_type") == "inject_code" and len(m) > 1]
        if k < 0.18 and blocks:  # identical repeat (key order shuffled, absent fields spelled out as [])
            src = rng.choice(blocks)
            items = list(src.items())
            rng.shuffle(items)
            d = dict(items)
            if rng.random() < 0.4:
                for f in fields:
                    if f not in d and rng.random() < 0.5:
                        d[f] = []
            md.append(d)
            stats["kind:repeat"] = stats.get("kind:repeat", 0) + 1
        elif k < 0.28 and blocks:  # same name, different content
            src = dict(rng.choice(blocks))
            f = rng.choice(fields)
            src[f] = list(src.get(f, [])) + [gen_line(rng, stats)] if rng.random() < 0.7 else list(src.get(f, []))[:-1]
            md.append(src)
            stats["kind:same-name-edit"] = stats.get("kind:same-name-edit", 0) + 1
        elif k < 0.31:  # unknown field
            b = gen_block(rng, fields, stats)
            b[rng.choice(["link_libraries_f", "includes", "Name", "body_include_files"])] = ["x"]
            md.append(b)
            stats["kind:unknown-field"] = stats.get("kind:unknown-field", 0) + 1
        elif k < 0.33:  # no name
            b = gen_block(rng, fields, stats)
            del b["name"]
            md.append(b)
            stats["kind:no-name"] = stats.get("kind:no-name", 0) + 1
        elif k < 0.40:
            md.append({"metadata_type": "inject_code"})
            stats["kind:empty"] = stats.get("kind:empty", 0) + 1
        elif k < 0.46:  # type-confused but carried faithfully: a str where a list is expected / a list as name
            b = gen_block(rng, fields, stats)
            if rng.random() < 0.6:
                b[rng.choice(fields)] = rng.choice(["ab", "x;", ""])
            else:
                b["name"] = ["n", "1"]
            md.append(b)
            stats["kind:str-for-list"] = stats.get("kind:str-for-list", 0) + 1
        elif k < 0.50:
            md.append(dict(JOB_SCRIPT))
            stats["kind:other-metadata"] = stats.get("kind:other-metadata", 0) + 1
        elif k < 0.58:  # other metadata carrying the NAME of a code block (before or after it): different kinds do not interact
            named = [m["name"] for m in md if m.get("metadata_type") == "inject_code" and isinstance(m.get("name"), str)]
            nm = rng.choice(named) if named and rng.random() < 0.7 else rng.choice(NAMES)
            md.append(rng.choice(other_named(nm)))
            stats["kind:other-metadata-same-name"] = stats.get("kind:other-metadata-same-name", 0) + 1
        else:
            md.append(gen_block(rng, fields, stats))
            stats["kind:block"] = stats.get("kind:block", 0) + 1
    return md


def directed_cases(fields: List[str]) -> List[List[Dict[str, Any]]]:
    """Small cases that must always be in the run, whatever the seed."""
    full = {"metadata_type": "inject_code", "name": "my_code_block", "body_includes": ["file1.h", "file2.h"], "header_includes": ["file3.h", "file4.h"],
            "private_members": ["int first;"], "instance_initialization": ["first(10)"], "ctor_lines": ["first = first * 10;"],
            "initialize_lines": ["line1", "line2"], "link_libraries": ["lib1", "lib2"]}
    full = {k: v for k, v in full.items() if k in ("metadata_type", "name") or k in fields}
    out = [[], [full], [full, dict(full)], [full, {**full, "body_includes": ["file5.h"]}], [{**full, "link_libraries_f": ["x"]}], [{"metadata_type": "inject_code"}],
           [{"metadata_type": "inject_code", "name": "only-name"}]]
    for o in other_named("my_code_block"):
        out.append([full, o])
        out.append([o, full])
        out.append([o, full, dict(o)])
    for f in fields:
        out.append([{"metadata_type": "inject_code", "name": "one", f: ["{{ x }}", "{% endfor %}", "{# #}", 'q"\\', "<&>", "\u00e9", "", "a\nb"]}])
        out.append([{"metadata_type": "inject_code", "name": "a", f: ["1", "2"]}, {"metadata_type": "inject_code", "name": "b", f: ["3"]},
                    {"metadata_type": "inject_code", "name": "a", f: ["1", "2"]}, {"metadata_type": "inject_code", "name": "c", f: ["2", "1"]}])
    return out


# ---------------------------------------------------------------------------------------------
# model side
# ---------------------------------------------------------------------------------------------
def md_for_model(md: List[Dict[str, Any]]):
    out = []
    for d in md:
        if d.get("metadata_type") != "inject_code":
            continue
        kv = []
        for k, v in d.items():
            if k == "metadata_type":
                continue
            kv.append([k, ["s", v]] if isinstance(v, str) else [k, ["l", list(v)]])
        out.append(kv)
    return out


def qenv_from(wiring, extra_keys, ctx: Dict[str, Any]) -> Optional[List[Any]]:
    """Values the query contributes, read off the template context of the run without inject_code."""
    q = []
    for key, srcs in wiring:
        qv = [e for kind, e in srcs if kind == "qv"]
        if len(qv) > 1:
            return None
        if qv:
            q.append([qv[0], [str(x) for x in ctx.get(key, [])]])
    for k in extra_keys:
        q.append([k, [str(x) for x in ctx.get(k, [])]])
    return q


def non_inject(md):
    return [d for d in md if d.get("metadata_type") != "inject_code"]


# ---------------------------------------------------------------------------------------------
def shrink(md, fails) -> List[Dict[str, Any]]:
    """Greedy: drop dictionaries, then fields, then lines, while the failure persists."""
    cur = [dict(d) for d in md]
    changed = True
    while changed:
        changed = False
        for i in range(len(cur)):
            cand = cur[:i] + cur[i + 1:]
            if fails(cand):
                cur, changed = cand, True
                break
        if changed:
            continue
        for i, d in enumerate(cur):
            for k in [k for k in d if k not in ("metadata_type", "name")]:
                cand = [dict(x) for x in cur]
                del cand[i][k]
                if fails(cand):
                    cur, changed = cand, True
                    break
                v = d[k]
                if isinstance(v, list):
                    for j in range(len(v)):
                        cand = [dict(x) for x in cur]
                        cand[i][k] = v[:j] + v[j + 1:]
                        if fails(cand):
                            cur, changed = cand, True
                            break
                    if changed:
                        break
            if changed:
                break
    return cur


def warm_up():
    """First-use effects (lazy imports that draw a unique name) must not differ between a run and its baseline."""
    for b in BACKENDS:
        run_impl(b, QUERIES[b][0], [])


def check(tier: str, seed: int, t0: float, build: core.BuildStatus) -> int:
    logging.disable(logging.CRITICAL)
    warm_up()
    ps = core.proof_status(PROP_FILE, build)
    oc = core.Outcome()
    refusal = build.gen_errors.get("Templates.v")
    rng = random.Random(f"c14-{seed}")
    n_random = 1500 if tier == "quick" else 30000

    # what the translator read (only used to name the query-side values and the field list; when it refused,
    # the hand-written field list is used and only the oracle runs)
    fields, wiring, extra = list(FIELDS_HAND), None, {}
    if not refusal:
        try:
            from ..translators.templates import read_all

            fields_t, _props, wiring, backends_t = read_all()
            fields = fields_t
            extra = {name: ex for name, _tdir, ex, _temps in backends_t}
        except Exception as e:  # noqa: BLE001
            refusal = f"{type(e).__name__}: {e}"
    model = core.Model() if (build.model_ok and not refusal) else None
    slots = model.call("c14.slots", []) if model else []

    base_cache: Dict[str, Any] = {}

    def baseline(backend: str, src: str, md):
        key = json.dumps([backend, src, non_inject(md)], sort_keys=True)
        if key not in base_cache:
            base_cache[key] = run_impl(backend, src, non_inject(md), capture=True)
        return base_cache[key]

    stats: Dict[str, int] = {}
    outcomes: Dict[str, int] = {}
    distinct = set()
    cases: List[Tuple[str, str, List[Dict[str, Any]]]] = []
    for backend in BACKENDS:
        for md in directed_cases(fields):
            cases.append((backend, QUERIES[backend][0], md))
    n_directed = len(cases)
    for i in range(n_random):
        backend = BACKENDS[0] if rng.random() < 0.6 else rng.choice(BACKENDS[1:])
        cases.append((backend, rng.choice(QUERIES[backend]), gen_md(rng, fields, stats)))

    seen_viol = set()
    for backend, src, md in cases:
        base = baseline(backend, src, md)
        r = run_impl(backend, src, md)
        oc.evaluations += 1
        verdict = oracle(backend, fields, md, r, base)
        tag = f"{backend}:{'ok' if r[0] == 'ok' else r[1]}"
        outcomes[tag] = outcomes.get(tag, 0) + 1
        if verdict is not None:
            cls, what = verdict
            key = f"c14:{cls}" + ("" if backend == "atlas" else ":cms")
            if key not in seen_viol:
                seen_viol.add(key)

                def fails(m, backend=backend, src=src, cls=cls):
                    v = oracle(backend, fields, m, run_impl(backend, src, m), baseline(backend, src, m))
                    return v is not None and v[0] == cls

                small = shrink(md, fails)
                rs = run_impl(backend, src, small)
                vs = oracle(backend, fields, small, rs, baseline(backend, src, small))
                what = vs[1] if vs else what
                oc.violations.append(core.Violation(key=key, what=f"{backend}: {what}", replay={
                    "kind": "inject", "backend": backend, "query": src, "metadata": small, "fields": fields,
                    "implementation": list(rs[:2]) if rs[0] == "error" else {fn: t for fn, t in rs[1].items() if fn in {v[0] for v in regions_for(backend).values()}},
                    "broke": "oracle of the property text on the implementation's files"}))
            continue
        # model vs implementation, whole package
        if model is not None and base[0] == "ok" and base[2] is not None:
            q = qenv_from(wiring, extra.get(backend, []), base[2])
            if q is None:
                oc.correspondence_breaks.append({"backend": backend, "why": "an info key sums several query values; the harness cannot split them"})
                continue
            mr = model.call("c14.package", [backend, q, md_for_model(md)])
            if mr[0] == "error":
                agree = r[0] == "error" and r[1] == mr[1]
            elif mr[0] == "ok":
                agree = r[0] == "ok" and {fn: t for fn, t in mr[1]} == r[1]
            else:
                agree = False
            if not agree:
                diff = None
                if mr[0] == "ok" and r[0] == "ok":
                    mm = {fn: t for fn, t in mr[1]}
                    diff = [fn for fn in sorted(set(mm) | set(r[1])) if mm.get(fn) != r[1].get(fn)]
                oc.correspondence_breaks.append({"backend": backend, "query": src, "metadata": md, "model": mr[0] if mr[0] != "error" else mr, "implementation": r[0] if r[0] == "ok" else list(r[:2]), "files_differ": diff})
                continue
            oc.traces_validated_against_impl += 1
            if r[0] == "ok" and any(len(d) > 2 for d in md if d.get("metadata_type") == "inject_code"):
                distinct.add(json.dumps([backend, md], sort_keys=True))
    if model is not None:
        model.close()

    oc.distinct_nontrivial = len(distinct)
    oc.rule = ("distinct (backend, metadata list) whose package was written and compared whole with the model and which injects at least one field; "
               "error cases and empty lists are compared too but not counted here")
    oc.samples = [[b, m] for b, _s, m in cases[n_directed:n_directed + 6]]
    oc.extra = {
        "cases": {"directed": n_directed, "random": n_random},
        "implementation_outcomes": outcomes,
        "input_distribution": dict(sorted(stats.items())),
        "slot_table": slots,
        "translator_refusal": refusal,
        "oracle": "regions located by hand-written anchors; expected blocks computed in plain Python; everything outside the regions must equal the package written without inject_code",
    }
    unexplained = ps.broken or refusal or oc.correspondence_breaks or not build.model_ok or core.build_hygiene_cache()
    if unexplained and not [v for v in oc.violations if not v.no_failing_input]:
        what = (refusal and f"translator refused: {refusal}") or ps.broken or (oc.correspondence_breaks and f"model and implementation disagree: {json.dumps(oc.correspondence_breaks[0], default=str)[:600]}") \
            or f"model/hygiene: {core.build_hygiene_cache() or 'model executable missing'}"
        oc.violations.append(core.Violation(key="c14:unproved", what=str(what), no_failing_input=True, replay={
            "broken": str(what), "searched": f"{oc.evaluations} generated metadata lists on the three real executors, the property-text oracle accepted all of them"}))
    return core.finish(PID, tier, seed, t0, ps, build, oc, TRUSTED, ASSUME)


def replay(path: str, build: core.BuildStatus) -> int:
    logging.disable(logging.CRITICAL)
    data = json.loads(open(path).read())
    if data.get("no_failing_input_found"):
        ps = core.proof_status(PROP_FILE, build)
        print("broken obligation recorded:", data.get("broken"))
        print("proof status now:", ps.broken or "all theorems check")
        print("translator:", build.gen_errors.get("Templates.v") or "accepts the current tree")
        return 1 if (ps.broken or build.gen_errors.get("Templates.v")) else 0
    backend, src, md = data["backend"], data["query"], data["metadata"]
    fields = data.get("fields") or FIELDS_HAND
    warm_up()
    r = run_impl(backend, src, md)
    base = run_impl(backend, src, non_inject(md))
    print("metadata:", json.dumps(md))
    print("implementation:", r[0] if r[0] == "ok" else r[:3])
    v = oracle(backend, fields, md, r, base)
    if v is None:
        print("property holds on this input")
        return 0
    print("property text violated:", v[1])
    if r[0] == "ok":
        for f, (fn, a, b, _k) in regions_for(backend).items():
            c = cut(r[1][fn], a, b)
            print(f"--- {fn} region of {f}: {c[1]!r}" if c else f"--- {fn}: region of {f} not found")
    print(f"VIOLATION property={PID} replay={path}")
    return 1
