"""C18 - constants in a query denote the same value in the generated code.

Theorems: coq/Properties/C18.v over coq/Model/Consts.v (hand model of visit_Constant, cpp_string_literal,
the argument substitution of process_ast_node on the retrieval lines, the booking / fill statements of the
three back ends) and coq/Model/CppLex.v (the value of a C++ literal).
Tie: correspondence of the extracted model with the real pipeline: a generated constant is planted at one
position of a query (method argument, comparison operand, selected value, bank name, attribute name,
column name, dict key, tree name, second argument of a three-parameter user C++ function), the query is translated by the real executor, and the line the model
predicts must occur in the written source file (same exception class when the constant is refused).
Search / independent oracle: the emitted text after the fixed marker of the position is lexed with the
extracted Coq lexer and the literal's value is compared with the Python constant (strings byte for byte,
ints exactly, floats by correctly rounded conversion of the lexed decimal, declared type of the column)."""
import ast
import json
import math
import random
import re
import struct
import time
from fractions import Fraction
from typing import Any, Dict, List, Optional, Tuple

from .. import core, impl

PID = "C18"
PROP_FILE = "Properties/C18.v"
TRUSTED = [
    "Coq 8.16.1 kernel (coqc); vm_compute only on closed template lines (bank/attribute substitution lemmas) and in the Examples",
    "coq/Model/CppLex.v as the definition of the value of a C++ literal (ISO C++ [lex.icon] [lex.fcon] [lex.bool] [lex.string] [lex.ppnumber]; LP64; "
    "source and execution character set byte-transparent UTF-8; no trigraphs; suffixes, octal/hex integers, \\u \\U refused)",
    "hand model coq/Model/Consts.v of visit_Constant, cpp_string_literal, cpp_ast.replace_whole_words on the built-in retrieval / getAttribute lines, "
    "book_*_ttree.emit and *_ttree_fill.emit, a three-parameter add_cpp_function code line",
    "library facts not proved: Python's repr(float) prints a decimal that rounds back to the same double; a C++ compiler converts a decimal floating literal to the nearest double "
    "(the check's float oracle re-does the second conversion with exact rational arithmetic)",
    "extraction (ExtrOcamlBasic, ExtrOcamlString) + ocaml/main.ml driver + S-expression codec tools/fv/sexp.py",
    "correspondence check = differential test bounded by the generator below; func_adl's own AST passes are not modelled (constants are planted in the final query AST)",
]
ASSUME = [
    "a Python str is represented by its UTF-8 encoding (what the package writer puts in the file); a str that cannot be encoded (lone surrogate) must be refused",
    "a float constant is represented by the text of its repr",
    "unique_name returns the stem followed by a decimal counter (object names are i_obj<k>)",
]

PH = "PH_c18"
COLL = {"atlas": ("Jets", "AntiKt4", ""), "cms_aod": ("Muons", "muons", ""), "cms_miniaod": ("Muons", "slimmedMuons", "pat::MuonCollection")}
MAIN = {"atlas": "query.cxx", "cms_aod": "Analyzer.cc", "cms_miniaod": "Analyzer.cc"}
HEADER = {"atlas": "query.h", "cms_aod": "Analyzer.cc", "cms_miniaod": "Analyzer.cc"}
EXPR_POS = ("arg", "cmp", "cmpf", "select")
# cmpf: the constant next to a value of declared type float (a float constant is still a double literal there)
FLOAT_ELEM = {"atlas": "xAOD::Jet", "cms_aod": "reco::Muon", "cms_miniaod": "pat::Muon"}


def float_md(backend: str):
    return [{"metadata_type": "add_method_type_info", "type_string": FLOAT_ELEM[backend], "method_name": "fl", "return_type": "float"}]
SUBST_POS = ("bank", "attr")
# a user C++ function (add_cpp_function metadata) with three parameters; the constant is passed for the second one
USER_PARAMS = [("jet", "label", "bin"), ("obj", "name", "idx"), ("p", "s", "n"), ("particle", "tag", "pt")]  # = Consts.user_params
USER_POS = tuple(f"arg2.{k}" for k in range(len(USER_PARAMS)))
LITERAL_ARG_POS = ("attr",) + USER_POS  # a non-string constant here is an ordinary literal argument


def user_md(pos: str):
    p0, p1, p2 = USER_PARAMS[int(pos.split(".")[1])]
    return [{"metadata_type": "add_cpp_function", "name": "fill_label", "code": [f"double result = g_labelled_value(*{p0}, {p1}, {p2});"],
             "result": "result", "include_files": [], "arguments": [p0, p1, p2], "return_type": "double"}]
NAME_POS = ("col", "col1", "dictkey", "tree")
BACKENDS = ("atlas", "cms_aod", "cms_miniaod")


def position_class(pos: str) -> str:
    return "expr" if pos in EXPR_POS else ("subst" if (pos in SUBST_POS or pos in USER_POS) else "name")


def query_src(backend: str, pos: str) -> str:
    c, b, _ = COLL[backend]
    P = repr(PH)
    if pos in USER_POS:
        return f'ds.Select(lambda e: e.{c}("{b}").Select(lambda j: fill_label(j, {P}, 3))).AsROOTTTree("f.root", "t", ["c"])'
    return {
        "arg": f'ds.Select(lambda e: e.{c}("{b}").Select(lambda j: j.calc({P}))).AsROOTTTree("f.root", "t", ["c"])',
        "cmp": f'ds.Select(lambda e: e.{c}("{b}").Where(lambda j: j.pt() > {P}).Select(lambda j: j.eta())).AsROOTTTree("f.root", "t", ["c"])',
        "cmpf": f'ds.Select(lambda e: e.{c}("{b}").Where(lambda j: j.fl() > {P}).Select(lambda j: j.eta())).AsROOTTTree("f.root", "t", ["c"])',
        "select": f'ds.Select(lambda e: {P}).AsROOTTTree("f.root", "t", ["c"])',
        "bank": f'ds.Select(lambda e: e.{c}({P}).Select(lambda j: j.pt())).AsROOTTTree("f.root", "t", ["c"])',
        "attr": f'ds.Select(lambda e: e.{c}("{b}").Select(lambda j: j.getAttributeFloat({P}))).AsROOTTTree("f.root", "t", ["c"])',
        "col": f'ds.Select(lambda e: e.{c}("{b}").Select(lambda j: j.pt())).AsROOTTTree("f.root", "t", [{P}])',
        "col1": f'ds.Select(lambda e: e.{c}("{b}").Select(lambda j: j.pt())).AsROOTTTree("f.root", "t", {P})',
        "dictkey": f'ds.Select(lambda e: {{{P}: e.{c}("{b}").Select(lambda j: j.pt())}})',
        "tree": f'ds.Select(lambda e: e.{c}("{b}").Select(lambda j: j.pt())).AsROOTTTree("f.root", {P}, ["c"])',
    }[pos]


def run_impl(backend: str, pos: str, value: Any):
    """Plant `value` at `pos`, translate with the real executor.  ("ok", main text, header text, treename) | ("error", class, msg)"""
    import func_adl_xAOD.common.cpp_vars as cv

    a = impl.query_ast(query_src(backend, pos), user_md(pos) if pos in USER_POS else (float_md(backend) if pos == "cmpf" else None))
    n = 0
    for node in ast.walk(a):
        if isinstance(node, ast.Constant) and type(node.value) is str and node.value == PH:
            node.value = value
            n += 1
    if n != 1:
        raise RuntimeError(f"placeholder planted {n} times")
    impl.executors()  # import everything first: the miniAOD module draws a unique name at import time
    cv.unique_var_index = 0
    r = impl.translate(backend, a)
    impl.reset_globals()
    if r[0] == "error":
        return ("error", r[1], r[2])
    files = r[1]["files"]
    return ("ok", files[MAIN[backend]]["text"], files[HEADER[backend]]["text"], r[1]["treename"])


# --------------------------------------------------------------------------------------------
# wire encodings
# --------------------------------------------------------------------------------------------
def encodable(s: str) -> bool:
    try:
        s.encode("utf-8")
        return True
    except UnicodeEncodeError:
        return False


def wire_const(v: Any):
    if type(v) is bool:
        return ["bool", v]
    if type(v) is int:
        return ["int", str(v)]
    if type(v) is float:
        return ["float", repr(v)]
    if type(v) is str and encodable(v):
        return ["str", v]
    if type(v) is str:
        return None
    return ["other"]


def kind_of(v: Any) -> str:
    return {bool: "bool", int: "int", float: "float", str: "str"}.get(type(v), "other")


def representable(v: Any) -> bool:
    if type(v) is bool:
        return True
    if type(v) is int:
        return abs(v) < 2**63
    if type(v) is float:
        return math.isfinite(v)
    if type(v) is str:
        return encodable(v)
    return False


# --------------------------------------------------------------------------------------------
# markers: the fixed text that precedes the literal at each position (learnt nothing from the implementation
# except the variable names of a calibration run with plain names)
# --------------------------------------------------------------------------------------------
class Calib:
    def __init__(self):
        self.var: Dict[Tuple[str, str], str] = {}
        self.obj: Dict[str, str] = {}
        self.problems: List[str] = []

    def learn(self):
        for b in BACKENDS:
            for pos in ("select", "col", "col1", "dictkey", "tree"):
                r = run_impl(b, pos, 7 if pos == "select" else "c")
                if r[0] != "ok":
                    self.problems.append(f"calibration {b}/{pos}: {r[1:]}")
                    continue
                m = re.findall(r"&(_c\d+)\)", r[1]) or re.findall(r"\b(_c\d+) = 7;", r[1])
                if pos == "select":
                    m = re.findall(r"\b(_c\d+) = 7;", r[1])
                if len(set(m)) != 1:
                    self.problems.append(f"calibration {b}/{pos}: column variable not found")
                    continue
                self.var[(b, pos)] = m[0]
        for b in BACKENDS:
            r = run_impl(b, USER_POS[0], "m")
            m = re.findall(r"g_labelled_value\(\*(i_obj\d+), ", r[1]) if r[0] == "ok" else []
            if len(m) == 1:
                self.obj[b + "/arg2"] = m[0]
            else:
                self.problems.append(f"calibration {b}/arg2: object name not found")
        r = run_impl("atlas", "attr", "m")
        m = re.findall(r"auto result = (i_obj\d+)->getAttribute<float>\(", r[1]) if r[0] == "ok" else []
        if len(m) == 1:
            self.obj["atlas"] = m[0]
        else:
            self.problems.append("calibration atlas/attr: object name not found")


def markers(backend: str, pos: str, calib: Calib) -> List[Tuple[str, str]]:
    """(text before the literal, text that must follow it) for every place the constant must appear."""
    if pos == "arg":
        return [("calc(", ")")]
    if pos == "cmp":
        return [("pt()>", ")")]
    if pos == "cmpf":
        return [("fl()>", ")")]
    if pos == "select":
        return [(calib.var.get((backend, pos), "_c1") + " = ", ";")]
    if pos == "bank":
        return {"atlas": [("evtStore()->retrieve(result, ", "));")], "cms_aod": [("iEvent.getByLabel(", ", result);")],
                "cms_miniaod": [("edm::InputTag(", "))")]}[backend]
    if pos == "attr":
        return [("->getAttribute<float>(", ");")]
    if pos in USER_POS:
        return [("g_labelled_value(*" + calib.obj.get(backend + "/arg2", "i_obj1") + ", ", ", 3);")]
    if pos in ("col", "col1", "dictkey"):
        return [("myTree->Branch(", ", &")]
    if pos == "tree":
        if backend == "atlas":
            return [("ANA_CHECK (book (TTree (", ', "My analysis ntuple")));'), ("auto myTree = tree (", ");"), ("tree(", ")->Fill();")]
        return [("myTree = fs->make<TTree>(", ', "My analysis ntuple");')]
    raise KeyError(pos)


# --------------------------------------------------------------------------------------------
# the independent oracle: lex the implementation's text, compare with the Python constant
# --------------------------------------------------------------------------------------------
def literal_matches(lit, v: Any) -> Optional[str]:
    tag = lit[0]
    k = kind_of(v)
    if k == "str":
        if tag != "str":
            return f"a {tag} literal stands where the string should be"
        return None if lit[1] == v else f"string literal has value {lit[1]!r}"
    if k == "bool":
        return None if (tag == "bool" and (lit[1] == "true") == v) else f"literal {lit} is not the boolean {v}"
    if k == "int":
        return None if (tag == "int" and int(lit[1]) == v) else f"literal {lit} is not the integer {v}"
    if k == "float":
        if tag != "float":
            return f"a {tag} literal ({lit[1:]}) stands where the float should be (kind changed)"
        neg, m, e = lit[1] == "true", int(lit[2]), int(lit[3])
        if neg != (math.copysign(1.0, v) < 0):
            return "sign of the floating literal differs"
        q = Fraction(m) * (Fraction(10) ** e)
        try:
            back = float(q)  # correctly rounded, as a C++ compiler converts the literal
        except OverflowError:
            return "the decimal is out of double range"
        return None if back == abs(v) else f"the literal denotes {back!r}"
    return "constant of a kind that has no C++ literal was emitted"


def oracle(model: core.Model, backend: str, pos: str, v: Any, r, calib: Calib) -> Optional[Tuple[str, str]]:
    """None if the property holds on this run, else (why-class, description)."""
    name_like = position_class(pos) != "expr"
    # an attribute argument that is not a string is an ordinary literal argument
    must_reject = (not representable(v)) or (name_like and pos not in LITERAL_ARG_POS and type(v) is not str)
    if r[0] == "error":
        if must_reject:
            return None
        return ("rejected", f"representable constant refused with {r[1]}: {r[2][:120]}")
    if must_reject:
        return ("not-rejected", "a constant that cannot be represented was accepted")
    text = r[1]
    for pre, post in markers(backend, pos, calib):
        i = text.rfind(pre)
        if i < 0:
            return ("missing", f"the statement that should carry the constant ({pre!r}...) is not in the generated file")
        got = model.call("c18.lex_prefix", text[i + len(pre): i + len(pre) + 6000])
        if got[0] != "some":
            return ("not-a-literal", f"the text after {pre!r} is not a C++ literal: {text[i + len(pre): i + len(pre) + 60]!r}")
        bad = literal_matches(got[1], v)
        if bad:
            return ("wrong-value", f"after {pre!r}: {bad}")
        if not got[2].startswith(post):
            return ("trailing", f"after the literal at {pre!r} comes {got[2][:30]!r}, not {post!r}")
    if pos == "tree" and r[3] != v:
        return ("wrong-value", f"ExecutionInfo tree name is {r[3]!r}")
    if pos == "select" and type(v) is int:
        var = calib.var.get((backend, pos), "_c1")
        m = re.search(r"^\s*([\w:<> ]+?)\s+" + re.escape(var) + r";", r[2], flags=re.M)
        decl = m.group(1).strip() if m else "?"
        if decl == "int" and not (-2**31 <= v < 2**31):
            return ("declared-int-too-narrow", f"column variable {var} is declared int, the constant {v} does not fit")
        if decl not in ("int", "long", "long long", "Long64_t", "double", "float"):
            return ("wrong-type", f"column variable {var} declared {decl!r}")
    return None


# --------------------------------------------------------------------------------------------
# correspondence: the model's prediction must occur in the implementation's file
# --------------------------------------------------------------------------------------------
def correspond(model: core.Model, backend: str, pos: str, v: Any, r, calib: Calib) -> Optional[str]:
    w = wire_const(v)
    if w is None:
        return None  # outside the model's domain (not UTF-8 encodable)
    cls = position_class(pos)
    if cls == "expr":
        mr = model.call("c18.render", w)
        if mr[0] == "error":
            return None if (r[0] == "error" and r[1] == mr[1]) else f"model raises {mr[1]}, implementation: {r[:2]}"
        if r[0] == "error":
            return f"model renders {mr[1]}, implementation raises {r[1]}"
        txt, ty = mr[1]
        for pre, post in markers(backend, pos, calib):
            if (pre + txt + post) not in r[1]:
                return f"model text {pre + txt + post!r} not in the generated file"
        if pos == "select" and ty in ("int", "double", "bool"):
            var = calib.var.get((backend, pos), "_c1")
            if not re.search(r"^\s*" + ty + r"\s+" + re.escape(var) + r";", r[2], flags=re.M):
                return f"model declares {ty} {var}; not found in the header"
        return None
    if pos in USER_POS:
        p0, p1, p2 = USER_PARAMS[int(pos.split(".")[1])]
        mr = model.call("c18.user_call", [p0, p1, p2, calib.obj.get(backend + "/arg2", "i_obj1"), w, "3"])
        if mr[0] == "error":
            return None if (r[0] == "error" and r[1] == mr[1]) else f"model raises {mr[1]}, implementation: {r[:2]}"
        return None if (r[0] == "ok" and mr[1] in r[1]) else f"model line {mr} not in the generated file"
    if type(v) is not str and pos == "attr":
        mr = model.call("c18.render", w)
        if mr[0] == "error":
            return None if (r[0] == "error" and r[1] == mr[1]) else f"model raises {mr[1]}, implementation: {r[:2]}"
        line = f"auto result = {calib.obj.get('atlas', 'i_obj1')}->getAttribute<float>({mr[1][0]});"
        return None if (r[0] == "ok" and line in r[1]) else f"model line {line!r} not in the generated file"
    if type(v) is not str:
        return None if r[0] == "error" else "non-string name accepted (the model has no such case)"
    if r[0] == "error":
        return f"model accepts every string name, implementation raises {r[1]}"
    if pos == "bank":
        mr = model.call("c18.bank", [backend, COLL[backend][2], v])
        return None if (mr[0] == "ok" and mr[1] in r[1]) else f"model line {mr} not in the generated file"
    if pos == "attr":
        mr = model.call("c18.attribute", [calib.obj.get("atlas", "i_obj2"), v])
        return None if (mr[0] == "ok" and mr[1] in r[1]) else f"model line {mr} not in the generated file"
    var = calib.var.get((backend, pos), "_c3")
    if pos == "tree":
        tree, leaves = v, [["c", var]]
    else:
        stem = var[2:]  # the counter
        # cpp_vars.unique_name: the member is "_" + the label with non-identifier characters replaced + the counter
        tree, leaves = "t", [[v, "_" + "".join(c if (c.isascii() and (c.isalnum() or c == "_")) else "_" for c in v) + stem]]
    mr = model.call("c18.book", [backend, tree, leaves])
    lines = list(mr[0]) + [mr[1]]
    if pos == "dictkey":
        lines = list(mr[0])[2:]  # the executor supplies its own default tree name here: only the Branch line is compared
    for ln in lines:
        # the harness reads the file with universal new-lines: a raw CR (possible only in the C++ identifier built
        # from a column name, outside this property's projection) comes back as LF
        if ln.replace("\r\n", "\n").replace("\r", "\n") not in r[1]:
            return f"model line {ln!r} not in the generated file"
    return None


# --------------------------------------------------------------------------------------------
# generators
# --------------------------------------------------------------------------------------------
SPECIAL = ["\u2028", "\u2029", "\x85", '"', "\\", "\n", "\t", "\r", "\0", "\x01", "\x1f", "\x7f", "\x0b", "\x0c", "é", "€", "😀", "\x80", "'", "?", "%", "{", "}", " ", "$", "#", "/", "*"]
FRAGMENTS = ["//", "/*", "*/", "// x", '\\n', '\\"', '\\\\', '\\x41', '\\101', '\\1', '\\g<0>', '"));//', '");', '"+"', "collection_name", "moment_name", "obj_j", "\\u00e9", "??/", "%s", "{0}", "\\"]
BASES = ["AntiKt4EMTopoJets", "pt", "jet_pt", "muons", "CalibratedMuons", "a", "EMFrac", "my tree", "x1"]
EXH_ALPHABET = ["a", '"', "\\", "\n", "0", "n", " ", "é"]


def gen_string(rng: random.Random) -> str:
    u = rng.random()
    if u < 0.12:
        return rng.choice(BASES)
    base = list(rng.choice(BASES))
    k = 1 if u < 0.6 else rng.randint(2, 4)
    for _ in range(k):
        ins = rng.choice(SPECIAL) if rng.random() < 0.65 else rng.choice(FRAGMENTS)
        at = rng.randint(0, len(base))
        base[at:at] = [ins]
    if rng.random() < 0.05:
        return "".join(rng.choice(SPECIAL + ["a", "0"]) for _ in range(rng.randint(0, 5)))
    return "".join(base)


INT_EDGES = [0, 1, -1, 7, 2**31 - 1, 2**31, -(2**31), -(2**31) - 1, 2**32, 2**53 + 1, 2**63 - 1, -(2**63) + 1, 2**63, -(2**63), 2**64, 10**30, -(10**30), 3000000000, -3000000000]
FLOAT_EDGES = [0.0, -0.0, 1.5, -1.5, 0.1, 1 / 3, 1e16, 1e15, 9999999999999998.0, 1e-4, 1e-5, 1.5e-7, 5e-324, 2.2250738585072014e-308, 1.7976931348623157e308,
               -1.7976931348623157e308, 123456789012345680.0, 1e22, 1e23, 1e300, 1e-300, float("inf"), float("-inf"), float("nan"), 2.0**31, 1e100, 0.30000000000000004]
OTHERS = [None, b"bytes", 1j, Ellipsis]


def gen_number(rng: random.Random) -> Any:
    u = rng.random()
    if u < 0.2:
        return rng.choice(INT_EDGES)
    if u < 0.4:
        bits = rng.choice([8, 31, 32, 33, 62, 63, 64, 80])
        z = rng.getrandbits(bits)
        return -z if rng.random() < 0.5 else z
    if u < 0.55:
        return rng.choice(FLOAT_EDGES)
    if u < 0.75:
        return struct.unpack("<d", struct.pack("<Q", rng.getrandbits(64)))[0]  # any bit pattern: subnormals, inf, nan included
    if u < 0.9:
        x = rng.choice([1.0, -1.0]) * rng.random() * float(f"1e{rng.randint(-330, 308)}") if rng.random() < 0.5 else round(rng.uniform(-1000, 1000), rng.randint(0, 6))
        return x
    if u < 0.96:
        return rng.random() < 0.5
    return rng.choice(OTHERS)


def gen_user_case(rng: random.Random) -> Tuple[str, str, Any]:
    """String constant for the second parameter of a three-parameter user function; the other parameters' names
    (and its own) are planted in it, mostly as whole words, sometimes glued to other word characters."""
    b = rng.choice(BACKENDS)
    k = rng.randrange(len(USER_PARAMS))
    if rng.random() < 0.06:
        return (b, USER_POS[k], gen_number(rng))
    words = list(USER_PARAMS[k]) + ["result", "3"]
    parts = [gen_string(rng)] if rng.random() < 0.7 else []
    for _ in range(rng.randint(1, 3)):
        w = rng.choice(words[:3]) if rng.random() < 0.85 else rng.choice(words)
        sep = rng.choice([" ", " ", ",", "(", "-", "\"", "\\", "", "x", "_"])
        parts.insert(rng.randint(0, len(parts)), sep + w + rng.choice([" ", "", ")", "\"", "1", ".", "\n"]))
    return (b, USER_POS[k], "".join(parts))


def gen_case(rng: random.Random) -> Tuple[str, str, Any]:
    if rng.random() < 0.15:
        return gen_user_case(rng)
    b = rng.choice(BACKENDS)
    u = rng.random()
    if u < 0.45:
        pos = rng.choice(EXPR_POS)
        if pos == "select" or rng.random() < 0.7:
            v = gen_number(rng)
        else:
            v = gen_string(rng)
        return (b, pos, v)
    pos = rng.choice(["bank", "bank", "col", "col1", "dictkey", "tree", "tree"] + (["attr", "attr"] if b == "atlas" else []))
    if rng.random() < 0.04:
        v = rng.choice([5, 1.5, None, True, "\ud800x"])  # malformed: a name that is not a (writable) string
    else:
        v = gen_string(rng)
    return (b, pos, v)


def exhaustive_cases(full: bool) -> List[Tuple[str, str, Any]]:
    strs = [""] + EXH_ALPHABET + [x + y for x in EXH_ALPHABET for y in EXH_ALPHABET]
    out: List[Tuple[str, str, Any]] = []
    combos = [("atlas", "bank"), ("cms_aod", "bank"), ("cms_miniaod", "bank"), ("atlas", "arg"), ("atlas", "tree"), ("cms_aod", "tree"), ("cms_miniaod", "col"), ("atlas", "col"), ("atlas", "attr")]
    if not full:
        combos = [("atlas", "bank"), ("cms_miniaod", "bank"), ("cms_aod", "arg"), ("atlas", "tree"), ("cms_miniaod", "col")]
        strs = [""] + EXH_ALPHABET + [x + y for x in EXH_ALPHABET[:4] for y in EXH_ALPHABET[:4]]
    for b, pos in combos:
        for s in strs:
            out.append((b, pos, s))
    for b in BACKENDS:
        for k, ps in enumerate(USER_PARAMS):
            for w in ps:
                for s in (w, f"a {w}", f"{w} b", f"a {w} b", f"x{w}", f"{w}_", f'"{w}"', f"{ps[2]} {ps[0]} {ps[1]}"):
                    out.append((b, USER_POS[k], s))
    for b in BACKENDS:
        for z in INT_EDGES:
            for pos in EXPR_POS:
                out.append((b, pos, z))
        for x in FLOAT_EDGES + [True, False] + OTHERS:
            out.append((b, "arg", x))
            out.append((b, "select", x))
    return out


def nontrivial(v: Any) -> bool:
    if type(v) is str:
        return any(not (c.isalnum() or c == "_") for c in v)
    if type(v) is int and type(v) is not bool:
        return abs(v) >= 2**31
    return type(v) is float or not representable(v)


def describe(v: Any) -> str:
    return f"{type(v).__name__} {v!r}"


def shrink_string(s: str, bad) -> str:
    cur = s
    changed = True
    while changed and len(cur) > 1:
        changed = False
        for i in range(len(cur)):
            cand = cur[:i] + cur[i + 1:]
            if bad(cand):
                cur = cand
                changed = True
                break
    return cur


def jsonable(v: Any):
    if type(v) in (bool, int, str) or v is None:
        return v if type(v) is not str or encodable(v) else {"py": repr(v)}
    if type(v) is float and math.isfinite(v):
        return v
    return {"py": repr(v)}


def unjson(x: Any):
    if isinstance(x, dict) and "py" in x:
        return eval(x["py"], {"inf": float("inf"), "nan": float("nan"), "Ellipsis": Ellipsis})
    return x


# --------------------------------------------------------------------------------------------
def render_columns(backend: str, consts: List[Any]):
    """Translate ds.Select(lambda e: {"c0": K0, "c1": K1, ...}) -> [(declared type, assigned text)] per column, or the error."""
    body = "{" + ", ".join(f'"c{i}": {k!r}' for i, k in enumerate(consts)) + "}"
    a = impl.query_ast(f"ds.Select(lambda e: {body})", None)
    r = impl.translate(backend, a)
    impl.reset_globals()
    if r[0] == "error":
        return ("error", r[1])
    sl = r[1]["slots"]
    decl = {}
    for ln in sl.get("class_decl", []):
        m = re.match(r"^\s*(\S.*\S)\s+(_c\d+?)\d*;\s*$", ln)
        if m:
            decl[re.sub(r"\d+$", "", m.group(2)[:3]) if False else m.group(2)] = m.group(1)
    out = []
    for i in range(len(consts)):
        typ = next((t for ln in sl.get("class_decl", []) for t, nm in [ln.strip().rstrip(";").rsplit(" ", 1)] if re.fullmatch(rf"_c{i}\d+", nm)), None)
        val = next((m.group(1) for ln in sl.get("query_code", []) for m in [re.match(rf"^\s*_c{i}\d+ = (.*);\s*$", ln)] if m), None)
        out.append((typ, val))
    return ("ok", out)


MULTI_CONSTS = [(True, 1.0), (1.0, True), (True, 1), (1, True), (1, 1.0), (1.0, 1), (True, 1.0, 1), (1, 1.0, True), (False, 0.0), (0.0, False), (0, False, 0.0),
                (2, 2.0), (2.0, 2), (1e3, 1000), (1000, 1e3), (0.5, True, 0.5), (True, True, 1.0)]


def pair_line_error(model: core.Model, text: str, s1: str, s2: str) -> Optional[str]:
    """The line `double result = g_pair_value(*o, L1, L2) + g_pair_value(*o, L2, L1);`: L1, L2 literals of s1, s2."""
    i = text.find("g_pair_value(*")
    if i < 0:
        return "the injected call is not in the generated file"
    rest = text[i:]
    for k, want in enumerate((s1, s2, s2, s1)):
        m = re.match([r"g_pair_value\(\*i_obj\d+, ", r", ", r"\) \+ g_pair_value\(\*i_obj\d+, ", r", "][k], rest)
        if not m:
            return f"before argument {k + 1} comes {rest[:30]!r}"
        rest = rest[m.end():]
        got = model.call("c18.lex_prefix", rest[:6000])
        if got[0] != "some":
            return f"not a C++ literal: {rest[:40]!r}"
        bad = literal_matches(got[1], want)
        if bad:
            return f"literal for {want!r}: {bad}"
        rest = got[2]
    return None if rest.startswith(");") else f"after the last literal comes {rest[:30]!r}"


def check(tier: str, seed: int, t0: float, build: core.BuildStatus) -> int:
    import logging

    logging.disable(logging.CRITICAL)
    ps = core.proof_status(PROP_FILE, build)
    oc = core.Outcome()
    rng = random.Random(seed * 7919 + 18)
    model = core.Model() if build.model_ok else None
    calib = Calib()
    calib.learn()
    for p in calib.problems:
        oc.correspondence_breaks.append({"calibration": p})
    n_random = 3000 if tier == "quick" else 30000
    cases: List[Tuple[str, str, Any]] = []
    corpus = core.VERIF / "tools" / "corpus" / "c18.json"
    if corpus.exists():
        cases.extend((b, p, unjson(v)) for b, p, v in json.loads(corpus.read_text()))
    n_corpus = len(cases)
    exh = exhaustive_cases(tier != "quick")
    cases.extend(exh)
    cases.extend(gen_case(rng) for _ in range(n_random))
    hist_pos: Dict[str, int] = {}
    hist_kind: Dict[str, int] = {}
    hist_out = {"accepted": 0, "refused": 0}
    distinct = set()
    seen_keys: Dict[str, int] = {}
    budget = 100 if tier == "quick" else 800
    t_loop = time.time()  # the budget bounds the generated stream only, never the build
    for i_case, (b, pos, v) in enumerate(cases):
        if time.time() - t_loop > budget and i_case >= n_corpus + len(exh):
            oc.extra["stopped_early_after_s"] = budget
            break
        if model is None:
            break
        r = run_impl(b, pos, v)
        oc.evaluations += 1
        hist_pos[f"{b}/{pos}"] = hist_pos.get(f"{b}/{pos}", 0) + 1
        hist_kind[kind_of(v)] = hist_kind.get(kind_of(v), 0) + 1
        hist_out["accepted" if r[0] == "ok" else "refused"] += 1
        if nontrivial(v):
            distinct.add((b, pos, repr(v)))
        bad = oracle(model, b, pos, v, r, calib)
        if bad:
            why, msg = bad
            key = f"c18:{position_class(pos)}:{kind_of(v)}:{why}"
            if b == "cms_miniaod" and pos in ("col", "col1", "dictkey") and 'Branch(f"{var_pair[0]}"' in (r[1] if r[0] == "ok" else ""):
                key = "c18:name:miniaod-branch-literal-fstring"
            seen_keys[key] = seen_keys.get(key, 0) + 1
            if seen_keys[key] > 1 and key not in {k["key"] for k in core.known_findings() if k.get("status") == "known"}:
                continue  # one replay per class; core.finish de-duplicates anyway
            small = v
            if type(v) is str and seen_keys[key] == 1:
                def still(c, _key=key, _b=b, _pos=pos):
                    o = oracle(model, _b, _pos, c, run_impl(_b, _pos, c), calib)
                    return o is not None and f"c18:{position_class(_pos)}:str:{o[0]}" == _key
                small = shrink_string(v, still)
                r = run_impl(b, pos, small)
                msg = (oracle(model, b, pos, small, r, calib) or bad)[1]
            w = wire_const(small)
            oc.violations.append(core.Violation(
                key=key,
                what=f"{b}: constant {describe(small)} at position '{pos}': {msg}",
                replay={"backend": b, "position": pos, "value": jsonable(small), "query": query_src(b, pos).replace(repr(PH), "<constant>"),
                        "implementation": [r[0], (r[1] if r[0] == "error" else None)],
                        "model": (model.call("c18.render", w) if w is not None else None),
                        "broken": "literal oracle (extracted CppLex.lex_prefix) on the implementation's text; theorems C18_str / C18_int / C18_float / C18_names_* describe the model"}))
            continue
        c = correspond(model, b, pos, v, r, calib)
        if c:
            oc.correspondence_breaks.append({"backend": b, "position": pos, "value": repr(v), "difference": c})
        else:
            oc.traces_validated_against_impl += 1
    # the float grammars on every generated float text (recognisers of the theorem vs Python's own repr)
    n_gram = 0
    if model is not None:
        for _ in range(400 if tier == "quick" else 5000):
            x = gen_number(rng)
            if type(x) is not float:
                continue
            g = model.call("c18.float_grammar", repr(x))
            n_gram += 1
            want = ["true", "true" if math.isfinite(x) else "false", "true" if math.isfinite(x) else "false"]
            if g != want:
                oc.correspondence_breaks.append({"float_repr": repr(x), "py_float_repr/py_float_finite/cpp_float_lit": g, "expected": want})
    # several constants in one query: each is rendered as it is when it stands alone (kind and text), whatever other
    # constants of equal value but another kind the query contains
    alone: Dict[Any, Any] = {}
    multi_n = 0
    for b in BACKENDS:
        for consts in MULTI_CONSTS:
            got = render_columns(b, list(consts))
            oc.evaluations += 1
            multi_n += 1
            want = []
            for k in consts:
                key = (b, type(k).__name__, repr(k))
                if key not in alone:
                    r1 = render_columns(b, [k])
                    alone[key] = r1[1][0] if r1[0] == "ok" else ("error", r1[1])
                want.append(alone[key])
            distinct.add((b, "multi", repr(consts)))
            if got[0] != "ok" or list(got[1]) != want:
                oc.violations.append(core.Violation(
                    key="c18:expr:multi:depends-on-other-constants",
                    what=f"{b}: the constants {consts!r} in one query are rendered as {got[1] if got[0] == 'ok' else got}, but standing alone each is rendered as {want}",
                    replay={"kind": "multi", "backend": b, "constants": [[type(k).__name__, repr(k)] for k in consts], "rendered": str(got), "alone": str(want)}))
            else:
                oc.traces_validated_against_impl += 1
    oc.extra["multi_constant_queries"] = multi_n
    # several STRING constants at the same kind of position in one query (the same collection read from different banks, the
    # same attribute method with different names): every constant reaches the generated code, each at its own place
    two_n = 0
    for b in BACKENDS:
        c, bank0, _ = COLL[b]
        for s1, s2 in [("bankAlpha", "bankBeta"), (bank0, bank0 + "Up"), ("x", "x ")]:
            src = (f'ds.Select(lambda e: (e.{c}({s1!r}), e.{c}({s2!r}))).Select(lambda p: '
                   f'{{"n1": p[0].Count(), "n2": p[1].Count(), "n3": p[0].Select(lambda j: j.pt())}})')
            r = impl.translate(b, impl.query_ast(src, None))
            impl.reset_globals()
            oc.evaluations += 1
            two_n += 1
            if r[0] != "ok":
                oc.violations.append(core.Violation(key="c18:name:two-banks-refused", what=f"{b}: {src} refused: {r[1:]}", replay={"kind": "twobanks", "backend": b, "query": src}))
                continue
            text = "".join(f["text"] for f in r[1]["files"].values())
            missing = [s_ for s_ in (s1, s2) if not any((pre + '"' + s_ + '"') in text for pre, _ in markers(b, "bank", None))]
            if missing:
                oc.violations.append(core.Violation(
                    key="c18:name:bank-lost", what=f"{b}: the bank name(s) {missing} of {src} do not reach the generated code as the argument of a retrieval",
                    replay={"kind": "twobanks", "backend": b, "query": src, "missing": missing}))
            else:
                oc.traces_validated_against_impl += 1
    oc.extra["two_bank_queries"] = two_n
    # several string constants as arguments of ONE injected call (so several literals on one line of C++): each literal is
    # its own constant, whatever stands next to it (empty strings, strings that begin or end with a quote or a backslash)
    pair_n = 0
    pair_pool = ["", "", '"', '""', "\\", 'a"', '"a', "x", "5\"", " ", ", ", '", "', "\\\"", "tag", "pt"]
    pair_md = [{"metadata_type": "add_cpp_function", "name": "fill_pair", "code": ["double result = g_pair_value(*jet, first, second) + g_pair_value(*jet, second, first);"],
                "result": "result", "include_files": [], "arguments": ["jet", "first", "second"], "return_type": "double"}]
    if model is not None:
        for b in BACKENDS:
            c, bank0, _ = COLL[b]
            for _ in range(20 if tier == "quick" else 200):
                s1 = rng.choice(pair_pool) if rng.random() < 0.75 else gen_string(rng)
                s2 = rng.choice(pair_pool) if rng.random() < 0.75 else gen_string(rng)
                if not (encodable(s1) and encodable(s2)):
                    continue
                # half of the time the function is called TWICE in the query, with other constants the second time: each call
                # site carries its own constants
                s3 = s4 = None
                if rng.random() < 0.5:
                    s3 = rng.choice(pair_pool) if rng.random() < 0.6 else gen_string(rng)
                    s4 = rng.choice(["second", "x2", ""])
                    if not encodable(s3):
                        s3 = "other"
                    src = f'ds.Select(lambda e: e.{c}("{bank0}").Select(lambda j: fill_pair(j, {s1!r}, {s2!r}) + fill_pair(j, {s3!r}, {s4!r})))'
                else:
                    src = f'ds.Select(lambda e: e.{c}("{bank0}").Select(lambda j: fill_pair(j, {s1!r}, {s2!r})))'
                r = impl.translate(b, impl.query_ast(src, pair_md))
                impl.reset_globals()
                oc.evaluations += 1
                pair_n += 1
                rp = {"kind": "pair", "backend": b, "query": src, "constants": [s1, s2] + ([s3, s4] if s3 is not None else [])}
                if r[0] != "ok":
                    oc.violations.append(core.Violation(key="c18:str:pair-refused", what=f"{b}: {src} refused: {r[1:]}", replay=rp))
                    continue
                text = r[1]["files"][MAIN[b]]["text"]
                bad = pair_line_error(model, text, s1, s2)
                if bad is None and s3 is not None:
                    second = text.find("double result = g_pair_value(*", text.find("g_pair_value(*") + 1)
                    bad = "the second call of the function is not in the generated file" if second < 0 else pair_line_error(model, text[second:], s3, s4)
                    if bad:
                        bad = "second call site: " + bad
                if bad:
                    oc.violations.append(core.Violation(key="c18:str:pair", what=f"{b}: the constants {s1!r}, {s2!r} as arguments of one injected call: {bad}", replay=rp))
                else:
                    oc.traces_validated_against_impl += 1
    oc.extra["two_strings_in_one_injected_call"] = pair_n
    if model is not None:
        model.close()
    oc.distinct_nontrivial = len(distinct)
    oc.rule = (f"corpus ({n_corpus}) + exhaustive part ({len(exh)}: strings of length <= 2 over {EXH_ALPHABET!r} at bank/arg/tree/column/attribute positions, "
               f"{len(INT_EDGES)} integer and {len(FLOAT_EDGES)} float boundary values, booleans, non-literal constants, x 3 back ends) + {n_random} random (45% expression positions: "
               "70% numbers [edges, random widths up to 80 bits, random 64-bit float patterns, scaled decimals, bools, None/bytes/complex], 30% strings; 55% name positions: names built from "
               "real-looking stems with 1-4 planted special characters or escape-looking fragments, 4% non-string / unencodable names); constants are planted in the final query AST; "
               "non-trivial = string with a non-identifier character, |int| >= 2^31, any float, any constant that must be refused; distinct by (back end, position, value)")
    oc.samples = [[b, p, repr(v)] for b, p, v in cases[n_corpus + len(exh): n_corpus + len(exh) + 6]]
    oc.extra.update({"positions": hist_pos, "kinds": hist_kind, "outcomes": hist_out, "float_grammar_cases": n_gram, "model_available": model is not None,
                     "violation_classes_seen": seen_keys})
    known_keys = {k["key"] for k in core.known_findings() if k.get("property") == PID and k.get("status") == "known"}
    unexplained = [x for x in oc.violations if x.key not in known_keys]
    if not unexplained and (ps.broken or oc.correspondence_breaks or model is None or core.build_hygiene_cache()):
        what = ps.broken or (f"correspondence Consts vs the pipeline: {oc.correspondence_breaks[0]}" if oc.correspondence_breaks else
                             ("hygiene gate: " + "; ".join(core.build_hygiene_cache()) if core.build_hygiene_cache() else "model executable could not be built"))
        oc.violations.append(core.Violation(key="c18:unproved", what=what, no_failing_input=True,
                                            replay={"broken": what, "searched": f"{oc.evaluations} planted constants lexed with the extracted lexer, none failed"}))
    return core.finish(PID, tier, seed, t0, ps, build, oc, TRUSTED, ASSUME)


def replay(path: str, build: core.BuildStatus) -> int:
    import logging

    logging.disable(logging.CRITICAL)
    data = json.loads(open(path).read())
    if data.get("no_failing_input_found"):
        print(f"replay names a broken obligation only: {data.get('broken')}")
        ps = core.proof_status(PROP_FILE, build)
        print("proof status now:", ps.broken or "all theorems check")
        return 1 if ps.broken else 0
    if data.get("kind") == "multi":
        conv = {"bool": lambda t: t == "True", "int": int, "float": float}
        consts = [conv[t](txt) for t, txt in data["constants"]]
        got = render_columns(data["backend"], consts)
        want = []
        for k in consts:
            r1 = render_columns(data["backend"], [k])
            want.append(r1[1][0] if r1[0] == "ok" else ("error", r1[1]))
        print("constants:", consts, "\nrendered together:", got, "\nrendered alone:", want)
        if got[0] != "ok" or list(got[1]) != want:
            print(f"VIOLATION property={PID} replay={path}")
            return 1
        return 0
    if data.get("kind") in ("pair", "twobanks"):
        md = None
        if data["kind"] == "pair":
            md = [{"metadata_type": "add_cpp_function", "name": "fill_pair", "code": ["double result = g_pair_value(*jet, first, second) + g_pair_value(*jet, second, first);"],
                   "result": "result", "include_files": [], "arguments": ["jet", "first", "second"], "return_type": "double"}]
        r = impl.translate(data["backend"], impl.query_ast(data["query"], md))
        print("query:", data["query"])
        if r[0] != "ok":
            print("implementation refuses:", r[1:3])
            print(f"VIOLATION property={PID} replay={path}")
            return 1
        if data["kind"] == "pair":
            text = r[1]["files"][MAIN[data["backend"]]]["text"]
            print("emitted:", [ln.strip() for ln in text.splitlines() if "g_pair_value" in ln])
            model = core.Model()
            cs = data["constants"]
            bad = pair_line_error(model, text, cs[0], cs[1])
            if bad is None and len(cs) == 4:
                second = text.find("double result = g_pair_value(*", text.find("g_pair_value(*") + 1)
                bad = "the second call of the function is not in the generated file" if second < 0 else pair_line_error(model, text[second:], cs[2], cs[3])
            model.close()
        else:
            text = "".join(f["text"] for f in r[1]["files"].values())
            bad = [s_ for s_ in data.get("missing", []) if not any((pre + '"' + s_ + '"') in text for pre, _ in markers(data["backend"], "bank", None))]
        print("oracle:", bad or "property holds on this input")
        if bad:
            print(f"VIOLATION property={PID} replay={path}")
            return 1
        return 0
    b, pos, v = data["backend"], data["position"], unjson(data["value"])
    calib = Calib()
    calib.learn()
    model = core.Model()
    r = run_impl(b, pos, v)
    print(f"constant {describe(v)} at '{pos}' on {b}")
    if r[0] == "error":
        print("implementation raises", r[1], r[2][:200])
    else:
        for pre, _ in markers(b, pos, calib):
            i = r[1].rfind(pre)
            print("implementation emits:", repr(r[1][max(i, 0): max(i, 0) + len(pre) + 80]))
    w = wire_const(v)
    if w is not None:
        print("model render:", model.call("c18.render", w))
    bad = oracle(model, b, pos, v, r, calib)
    model.close()
    print("oracle:", f"{bad[0]}: {bad[1]}" if bad else "property holds on this input")
    if bad:
        print(f"VIOLATION property={PID} replay={path}")
        return 1
    return 0
