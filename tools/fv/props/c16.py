"""C16 - runner.sh honours its flags and never reports success after a failed step.

Theorems: coq/Properties/C16.v over the three regenerated scripts (gen/Runner_*.v, translator
tools/fv/translators/shell.py) interpreted by the hand model coq/Model/Shell.v.
Tie: regeneration (fail-closed parser with re-print self-test) + validation of the bash model: the REAL
script is run by the real bash with stub tools in a chroot inside a private mount namespace
(tools/fv/shellbox.py) and exit status, tool log and the whole resulting file tree are compared with the
extracted model, over flag combinations x single failing steps x histories.
Search: an independent oracle of the property text (Python getopt for the flags, nonce freshness for the
output) is evaluated on every bash run; it is what yields a concrete failing scenario."""
import getopt
import json
import random
import subprocess
import time
from concurrent.futures import ThreadPoolExecutor
from typing import Any, Dict, List, Optional, Tuple

from .. import core, shellbox
from ..translators import shell as shell_tr

PID = "C16"
PROP_FILE = "Properties/C16.v"
TRUSTED = [
    "Coq 8.16.1 kernel; vm_compute inside the symbolic execution of the regenerated scripts",
    "translator tools/fv/translators/shell.py (bash subset parser, fail-closed, re-print self-test against the source text)",
    "hand model coq/Model/Shell.v of the bash subset (expansion without IFS splitting/globbing, [ ] tests, getopts, set -e, cd/echo/source/export/eval, here-documents, redirections) - validated against real bash 5.2 by the correspondence below, not verified",
    "tool table (effects of mkdir cp chmod rm cmake make python sudo mkedanlzr scram cmsRun root and the three sourced set-up files) specified once in Shell.v and implemented by the stub tools of tools/fv/shellbox.py; failing steps are atomic (no partial effect) and tools report failure through their exit status",
    "the idiom DIR=\"$( cd \"$( dirname ... )\" && pwd )\" and `pwd` are taken as 'directory of the script' / 'current directory' and are not fault points",
    "sandbox: unshare --mount + chroot, /bin /usr /lib /lib64 /dev bind-mounted read-only; lexical path resolution (no symlinks in the scratch tree)",
    "extraction + OCaml driver + S-expression codec; the correspondence is a differential test bounded by the generator below",
]
ASSUME = [
    "-d / -o words are plain (non-empty, no whitespace, no glob characters); -o words in the theorems range over Shell.dest_words",
    "each invocation carries its own nonce; the destination is fresh when it holds this invocation's nonce",
]

BACKENDS = ["atlas_r21", "cms_r5", "cms_r7"]
DEST_WORDS = ["/results", "/out2", "/out2/named.root", "/nowhere/x.root", "rel_out.root"]
RUN_DIR = {"atlas_r21": "/work/rel/build", "cms_r5": "/work/analysis/Analyzer", "cms_r7": "/work/analysis/Analyzer"}
BUILD_TOOLS = {"atlas_r21": {"cmake", "make"}, "cms_r5": {"mkedanlzr", "scram"}, "cms_r7": {"mkedanlzr", "scram"}}
JOB_TOOL = {"atlas_r21": "python", "cms_r5": "cmsRun", "cms_r7": "cmsRun"}
OUT_PREFIX = {"atlas_r21": "OUT ", "cms_r5": "ROOT OUT ", "cms_r7": "ROOT OUT "}
DEFAULT_CFG = {"filelist": "dir", "release_setup": True, "entrypoint": True, "calib": False, "cvsroot": False}


def script_text(backend: str) -> str:
    return (core.REPO / shell_tr.SCRIPTS[backend]).read_text()


def to_model(sc: Dict[str, Any]):
    c = {**DEFAULT_CFG, **sc["config"]}
    return [[c["filelist"] in ("dir", "both"), c["filelist"] in ("local", "both"), c["release_setup"], c["entrypoint"], c["calib"], c["cvsroot"]],
            [[p, t] for p, t in sorted(c.get("stale", {}).items())],
            [[list(i["args"]), list(i.get("fail", [])), i["nonce"]] for i in sc["history"]]]


def model_run(m: core.Model, backend: str, sc: Dict[str, Any]) -> List[Dict[str, Any]]:
    r = m.call("c16." + backend, to_model(sc))
    out = []
    for x in r:
        out.append({"exit": int(x[0]), "unmodelled": x[1] == "true", "log": [list(e) for e in x[2]], "fs": {k: v for k, v in x[3]}})
    return out


# ------------------------------------------------------------------------------------------
# the property text, evaluated on one real run (independent of the Coq model)
# ------------------------------------------------------------------------------------------
def classify_args(args: List[str]):
    try:
        opts, rest = getopt.getopt(list(args), "d:o:cr")
    except getopt.GetoptError:
        return ("unknown",)
    if rest:
        return ("stray",)
    d = [v for k, v in opts if k == "-d"]
    o = [v for k, v in opts if k == "-o"]
    return ("cfg", any(k == "-c" for k, _ in opts), any(k == "-r" for k, _ in opts), d[-1] if d else None, o[-1] if o else None)


def resolve(cwd: str, p: str) -> str:
    parts = [] if p.startswith("/") else [x for x in cwd.split("/") if x]
    for comp in p.split("/"):
        if comp in ("", "."):
            continue
        if comp == "..":
            parts = parts[:-1]
        else:
            parts.append(comp)
    return "/" + "/".join(parts)


def delivery(backend: str, pre_fs: Dict[str, str], o: Optional[str]) -> str:
    q = resolve(RUN_DIR[backend], o if o is not None else "/results")
    return q + "/ANALYSIS.root" if pre_fs.get(q) == "D" else q


def fresh_anywhere(fs: Dict[str, str], pre_fs: Dict[str, str], nonce: str, backend: str) -> List[str]:
    """files outside the job's working tree that hold this invocation's output"""
    work = RUN_DIR[backend].rsplit("/", 1)[0] if backend != "atlas_r21" else "/work/rel"
    out = []
    for k, v in fs.items():
        if v.startswith("F") and f"OUT {nonce}\n" in v and not (k.startswith(work + "/")):
            out.append(k)
    return out


def oracle(backend: str, cfg: Dict[str, Any], pre_fs: Dict[str, str], inv: Dict[str, Any], r: Dict[str, Any]) -> Optional[Tuple[str, str]]:
    """None if the run satisfies the property text, else (class, description)."""
    cls = classify_args(inv["args"])
    tools = [e[1] for e in r["log"]]
    nonce = inv["nonce"]
    if cls[0] == "unknown":
        if r["exit"] != 10:
            return ("flags", f"unknown flag in {inv['args']} but exit status {r['exit']} (10 required)")
        if tools:
            return ("flags", f"unknown flag in {inv['args']} but tools were run: {tools[:3]}")
        return None
    if cls[0] == "stray":
        if r["exit"] != 1:
            return ("flags", f"stray argument in {inv['args']} but exit status {r['exit']} (1 required)")
        return None
    _, c, rr, d, o = cls
    failed = [i for i, s in enumerate(r["status"]) if s != 0]
    built = [t for t in tools if t in BUILD_TOOLS[backend]]
    job = [t for t in tools if t == JOB_TOOL[backend]]
    if rr and built:
        return ("phases", f"-r given but build tools ran: {built}")
    if c and job:
        return ("phases", f"-c given but the analysis job ran")
    dest = delivery(backend, pre_fs, o)
    fresh = fresh_anywhere(r["fs"], pre_fs, nonce, backend)
    if failed:
        if r["exit"] == 0:
            return ("success-after-failed-step", f"step {failed[0]} ({' '.join(r['log'][failed[0]][1:])}) failed but the script exited 0")
        if fresh:
            return ("fresh-output-after-failure", f"step {failed[0]} failed (exit {r['exit']}) but {fresh} holds this run's output")
        return None
    if r["exit"] != 0:
        # no tool failed: a builtin did (cd into a missing build, missing set-up file, redirection); nothing may be delivered
        if fresh:
            return ("fresh-output-after-failure", f"exit {r['exit']} but {fresh} holds this run's output")
        return None
    # exit 0, nothing failed
    if not rr and set(built) != BUILD_TOOLS[backend]:
        return ("phases", f"no -r, exit 0, but build tools run were {built}")
    if not c and not job:
        return ("phases", "no -c, exit 0, but the analysis job did not run")
    if not c:
        want_input = (d + "\n") if d is not None else shellbox.FILELIST
        want = OUT_PREFIX[backend] + nonce + "\n" + want_input
        got = r["fs"].get(dest)
        if got is None or f"OUT {nonce}\n" not in got:
            return ("ok-without-output", f"exit 0 but {dest} does not hold this run's output (holds {got!r})")
        if got != "F" + want:
            return ("input", f"{dest} holds {got!r}; the job should have read exactly {want_input!r}")
        extra = [k for k in fresh if k != dest]
        if extra:
            return ("delivery", f"output also delivered to {extra}")
    return None


# ------------------------------------------------------------------------------------------
# scenario generation
# ------------------------------------------------------------------------------------------
def flag_args(c: bool, r: bool, d: Optional[str], o: Optional[str], rng: Optional[random.Random] = None) -> List[str]:
    items: List[List[str]] = []
    if c:
        items.append(["-c"])
    if r:
        items.append(["-r"])
    if d is not None:
        items.append(["-d", d])
    if o is not None:
        items.append(["-o", o])
    if rng is not None:
        rng.shuffle(items)
        # attached and combined spellings
        items = [[it[0] + it[1]] if len(it) == 2 and rng.random() < 0.3 else it for it in items]
        flat: List[str] = []
        for it in items:
            if len(it) == 1 and len(it[0]) == 2 and flat and len(flat[-1]) == 2 and flat[-1][1] in "cr" and rng.random() < 0.4:
                flat[-1] = flat[-1] + it[0][1]
            else:
                flat.extend(it)
        if rng.random() < 0.1:
            flat.append("--")
        return flat
    return [x for it in items for x in it]


def configs_for(backend: str) -> List[Dict[str, Any]]:
    base = [{}, {"filelist": "local"}, {"filelist": "none"}, {"filelist": "both"}]
    if backend == "atlas_r21":
        base += [{"calib": True}, {"release_setup": False}, {"calib": True, "filelist": "local"}]
    else:
        base += [{"cvsroot": True, "entrypoint": False}, {"entrypoint": False}, {"cvsroot": True}]
    return base


def prefix_for(kind: str) -> List[Dict[str, Any]]:
    return {"fresh": [], "built": [{"args": ["-c"]}], "ran": [{"args": []}]}[kind]


def number(sc_hist: List[Dict[str, Any]], tag: str) -> List[Dict[str, Any]]:
    return [{**inv, "nonce": f"{tag}n{i}"} for i, inv in enumerate(sc_hist)]


def gen_scenarios(backend: str, tier: str, rng: random.Random, m: core.Model) -> List[Dict[str, Any]]:
    scs: List[Dict[str, Any]] = []
    quick = tier == "quick"
    ds = [None, "/data/x.root"]
    os_ = [None] + DEST_WORDS

    def steps_of(cfg, hist) -> int:
        r = model_run(m, backend, {"config": cfg, "history": number(hist, "p")})
        return len(r[-1]["log"])

    # (1) every flag combination, no fault, from a fresh package / after a build / after a full run
    for pre in ("fresh", "built", "ran"):
        for c in (False, True):
            for r in (False, True):
                for d in ds:
                    for o in os_:
                        scs.append({"kind": f"flags/{pre}", "config": {}, "history": prefix_for(pre) + [{"args": flag_args(c, r, d, o)}]})
    # (2) every single failing step of the run, for flag sets that reach different phases
    fault_flags = [(False, False, None, None), (True, False, None, None), (False, True, "/data/x.root", "/out2"), (False, True, None, "/out2/named.root"),
                   (False, False, "/data/x.root", "rel_out.root")]
    if not quick:
        fault_flags = [(c, r, d, o) for c in (False, True) for r in (False, True) for d in ds for o in os_]
    for cfg in ([{}] if quick else configs_for(backend)):
        for (c, r, d, o) in fault_flags:
            pre = "built" if r else "fresh"
            hist = prefix_for(pre) + [{"args": flag_args(c, r, d, o)}]
            n = steps_of(cfg, hist)
            for k in range(n):
                h2 = prefix_for(pre) + [{"args": flag_args(c, r, d, o), "fail": [k]}]
                scs.append({"kind": "fault", "config": cfg, "history": h2})
    # (3) environments
    for cfg in configs_for(backend):
        for pre in ("fresh", "built"):
            for (c, r, d, o) in [(False, pre == "built", None, None), (False, pre == "built", "/data/x.root", "/out2")]:
                scs.append({"kind": "config", "config": cfg, "history": prefix_for(pre) + [{"args": flag_args(c, r, d, o)}]})
    # (4) malformed command lines
    bad = [["-x"], ["-c", "-x"], ["-d"], ["-o"], ["foo"], ["-c", "foo"], ["-r", "foo", "-c"], ["--", "foo"], ["-"], ["-cx"], ["--bad"], ["-r", "-d"], ["--"], ["-c", "--"]]
    for a in bad:
        scs.append({"kind": "malformed", "config": {}, "history": [{"args": ["-c"]}, {"args": a}]})
    # (5) histories: a build (possibly failing), then runs with their own -d / -o, faults, re-builds, malformed lines
    n_hist = 40 if quick else 500
    max_len = 3 if quick else 5
    for _ in range(n_hist):
        cfg = rng.choice(configs_for(backend)) if rng.random() < 0.3 else {}
        if rng.random() < 0.25:
            cfg = {**cfg, "stale": {rng.choice(["/results/ANALYSIS.root", "/out2/ANALYSIS.root", "/out2/named.root"]): "OLD\n"}}
        hist: List[Dict[str, Any]] = []
        first = rng.random()
        hist.append({"args": ["-c"] if first < 0.6 else ([] if first < 0.9 else ["-r"])})
        if rng.random() < 0.15:
            hist[0]["fail"] = [rng.randrange(0, 22)]
        for _ in range(rng.randint(1, max_len)):
            x = rng.random()
            if x < 0.75:
                inv = {"args": flag_args(rng.random() < 0.1, True, rng.choice(ds + ["/data/y.root"]), rng.choice(os_), rng)}
            elif x < 0.85:
                inv = {"args": flag_args(rng.random() < 0.5, False, rng.choice(ds), rng.choice(os_), rng)}
            else:
                inv = {"args": rng.choice(bad)}
            if rng.random() < 0.3:
                inv["fail"] = [rng.randrange(0, 8)]
            hist.append(inv)
        scs.append({"kind": "history", "config": cfg, "history": hist})
    for i, sc in enumerate(scs):
        sc["history"] = number(sc["history"], f"s{i}")
    return scs


# ------------------------------------------------------------------------------------------
# running
# ------------------------------------------------------------------------------------------
def run_bash(backend: str, script: str, scs: List[Dict[str, Any]], workers: int = 8) -> List[List[Dict[str, Any]]]:
    if not scs:
        return []
    chunks = [scs[i::workers] for i in range(workers)]
    with shellbox.Box("c16") as box:
        def job(k):
            payload = [{"config": {**DEFAULT_CFG, **c["config"]}, "history": c["history"]} for c in chunks[k]]
            return box.run(script, backend, payload, slot=k) if payload else []
        with ThreadPoolExecutor(max_workers=workers) as ex:
            parts = list(ex.map(job, range(workers)))
    out: List[Any] = [None] * len(scs)
    for k in range(workers):
        for j, r in enumerate(parts[k]):
            out[k + j * workers] = r
    return out


def strip_slots(backend: str, fs: Dict[str, str]) -> Dict[str, str]:
    """the file tree without the places runs are allowed to write (the slots of built_world)"""
    rd = RUN_DIR[backend]
    keep = {}
    for k, v in fs.items():
        if k.startswith(("/results/", "/out2/")):
            continue
        if k in (rd + "/filelist.txt", rd + "/rel_out.root", rd + "/ANALYSIS.root") or k == rd + "/bogus" or k.startswith(rd + "/bogus/"):
            continue
        keep[k] = v
    return keep


def family_closure(backend: str, sc: Dict[str, Any], bash: List[Dict[str, Any]]) -> Optional[str]:
    """after a successful build every later invocation must leave the tree unchanged outside the slots"""
    base = None
    for i, (inv, rb) in enumerate(zip(sc["history"], bash)):
        if base is not None:
            now = strip_slots(backend, rb["fs"])
            if now != base:
                ks = sorted(k for k in set(now) | set(base) if now.get(k) != base.get(k))
                return f"invocation {i} {inv['args']} changed {ks[:3]} outside the slots of built_world"
        elif rb["exit"] == 0:
            cls = classify_args(inv["args"])
            if cls[0] == "cfg" and not cls[2]:
                base = strip_slots(backend, rb["fs"])
    return None


def judge(backend: str, sc: Dict[str, Any], bash: List[Dict[str, Any]], model: Optional[List[Dict[str, Any]]]):
    """-> (property failure or None, correspondence break or None)"""
    cfg = {**DEFAULT_CFG, **sc["config"]}
    bad = None
    brk = None
    pre_fs: Dict[str, str] = {}
    for i, (inv, rb) in enumerate(zip(sc["history"], bash)):
        if i == 0:
            pre_fs = {"/results": "D", "/out2": "D", **{p: "F" + t for p, t in cfg.get("stale", {}).items()}}
        if bad is None:
            o = oracle(backend, cfg, pre_fs, inv, rb)
            if o:
                bad = (i, o[0], o[1])
        if model is not None and brk is None:
            rm = model[i]
            diffs = []
            if rm["unmodelled"]:
                diffs.append("model reached a construct it does not cover")
            if rm["exit"] != rb["exit"]:
                diffs.append(f"exit status: bash {rb['exit']} model {rm['exit']}")
            if rm["log"] != rb["log"]:
                k = next((j for j, (a, b) in enumerate(zip(rm["log"] + [None] * 99, rb["log"] + [None] * 99)) if a != b), 0)
                diffs.append(f"tool log differs at step {k}: bash {rb['log'][k] if k < len(rb['log']) else None} model {rm['log'][k] if k < len(rm['log']) else None}")
            if rm["fs"] != rb["fs"]:
                ks = sorted(k for k in set(rm["fs"]) | set(rb["fs"]) if rm["fs"].get(k) != rb["fs"].get(k))
                diffs.append(f"file tree differs at {ks[:3]}: bash {[rb['fs'].get(k) for k in ks[:3]]} model {[rm['fs'].get(k) for k in ks[:3]]}")
            if diffs:
                brk = {"invocation": i, "args": inv["args"], "diffs": diffs}
        pre_fs = rb["fs"]
    return bad, brk


def shrink(backend: str, script: str, sc: Dict[str, Any], cls: str) -> Dict[str, Any]:
    cur = sc

    def still(c):
        rb = run_bash(backend, script, [c], workers=1)[0]
        b, _ = judge(backend, c, rb, None)
        return b is not None and b[1] == cls

    changed = True
    while changed:
        changed = False
        h = cur["history"]
        cands = [{**cur, "history": h[:i] + h[i + 1:]} for i in range(len(h))]
        cands += [{**cur, "history": h[:i] + [{k: v for k, v in h[i].items() if k != "fail"}] + h[i + 1:]} for i in range(len(h)) if h[i].get("fail")]
        if cur["config"]:
            cands.append({**cur, "config": {}})
        for c in cands:
            if c["history"] and still(c):
                cur = c
                changed = True
                break
    return cur


GETOPTS_ALPHABET = ["-c", "-r", "-d", "-o", "-cr", "-rc", "-dX", "-o/out2", "-x", "--", "-", "foo", "-cx", "-cd", "--bad", "-:", "X", "-rdY"]


def getopts_correspondence(m: core.Model, rng: random.Random, n: int) -> Tuple[int, List[Any]]:
    breaks = []
    prog = 'while getopts "d:o:cr" opt 2>/dev/null; do printf "%s\\t%s\\n" "$opt" "$OPTARG"; done; echo "N $((OPTIND-1))"'
    lists = [[a] for a in GETOPTS_ALPHABET] + [[rng.choice(GETOPTS_ALPHABET) for _ in range(rng.randint(0, 5))] for _ in range(n)]
    for args in lists:
        r = subprocess.run(["/bin/bash", "-c", prog, "x"] + args, text=True, capture_output=True, timeout=30)
        lines = r.stdout.splitlines()
        evs = [ln.split("\t") for ln in lines[:-1]]
        cnt = lines[-1].split()[1] if lines else "?"
        mr = m.call("c16.getopts", ["d:o:cr", args])
        mev = [list(e) for e in mr[0]]
        # the scripts leave at the first '?', and OPTIND is only used when no '?' was seen
        cut = next((i for i, e in enumerate(evs) if e[0] == "?"), None)
        if cut is not None:
            ok = mev[: cut + 1] == [[e[0], e[1] if e[0] != "?" else ""] for e in evs[: cut + 1]]
        else:
            ok = mev == evs and mr[1] == cnt
        if not ok:
            breaks.append({"args": args, "bash": [evs, cnt], "model": [mev, mr[1]]})
    return len(lists), breaks


# words outside the plain-word assumption of the model: judged on bash alone by the property oracle
ODD_WORDS = ["/data/a  b.root", "/data/*", "/data/a b.root"]


def odd_word_runs(backend: str, script: str) -> List[Tuple[Dict[str, Any], Tuple[int, str, str]]]:
    scs = [{"kind": "odd-word", "config": {}, "history": number([{"args": ["-c"]}, {"args": ["-r", "-d", w]}], f"w{i}")} for i, w in enumerate(ODD_WORDS)]
    res = run_bash(backend, script, scs, workers=3)
    out = []
    for sc, rb in zip(scs, res):
        bad, _ = judge(backend, sc, rb, None)
        if bad:
            out.append((sc, bad))
    return out


def check(tier: str, seed: int, t0: float, build: core.BuildStatus) -> int:
    ps = core.proof_status(PROP_FILE, build)
    oc = core.Outcome()
    rng = random.Random(seed * 7919 + 16)
    refusals = {k: v for k, v in build.gen_errors.items() if k.startswith("Runner_")}
    why_no_box = shellbox.sandbox_available()
    model = core.Model() if build.model_ok else None
    hist: Dict[str, int] = {}
    exits: Dict[str, int] = {}
    lens: Dict[int, int] = {}
    distinct = set()
    per_backend: Dict[str, Any] = {}
    if not why_no_box and model is not None:
        n_go, go_breaks = getopts_correspondence(model, rng, 150 if tier == "quick" else 1500)
        oc.evaluations += n_go
        for b in go_breaks[:3]:
            oc.correspondence_breaks.append({"getopts": b})
        for backend in BACKENDS:
            script = script_text(backend)
            scs = gen_scenarios(backend, tier, rng, model)
            bash = run_bash(backend, script, scs)
            n_ok = 0
            n_closure = 0
            for sc, rb in zip(scs, bash):
                rm = None if backend + ".v" in [k.replace("Runner_", "") for k in refusals] else model_run(model, backend, sc)
                bad, brk = judge(backend, sc, rb, rm)
                fc = family_closure(backend, sc, rb)
                if fc and not brk:
                    brk = {"invocation": -1, "args": [], "diffs": ["family closure (assumed by C16_histories_partial): " + fc]}
                n_closure += sum(1 for _ in sc["history"]) if not fc else 0
                oc.evaluations += len(sc["history"])
                hist[sc["kind"]] = hist.get(sc["kind"], 0) + 1
                lens[len(sc["history"])] = lens.get(len(sc["history"]), 0) + 1
                for r in rb:
                    exits[str(r["exit"])] = exits.get(str(r["exit"]), 0) + 1
                if any(r["log"] for r in rb):
                    distinct.add(json.dumps([backend, sc["config"], [[i["args"], i.get("fail", [])] for i in sc["history"]]], sort_keys=True))
                if bad:
                    small = shrink(backend, script, sc, bad[1])
                    rb2 = run_bash(backend, script, [small], workers=1)[0]
                    b2, _ = judge(backend, small, rb2, None)
                    oc.violations.append(core.Violation(
                        key=f"c16:{bad[1]}", what=f"{backend} runner.sh, history {[i['args'] + (['<fail step %s>' % i['fail']] if i.get('fail') else []) for i in small['history']]}: {b2[2] if b2 else bad[2]}",
                        replay={"kind": "scenario", "backend": backend, "scenario": small, "bash": [{k: r[k] for k in ('exit', 'log', 'status')} for r in rb2],
                                "broken": "property oracle on the real bash run (theorems C16_* describe the model of the script)"}))
                elif brk:
                    oc.correspondence_breaks.append({"backend": backend, "scenario": {k: sc[k] for k in ("config", "history")}, **brk})
                else:
                    n_ok += 1
                    oc.traces_validated_against_impl += len(sc["history"])
            # words outside the model's plain-word assumption
            odd = odd_word_runs(backend, script)
            oc.evaluations += len(ODD_WORDS)
            for sc, bad in odd:
                oc.violations.append(core.Violation(
                    key="c16:unquoted-input-word", what=f"{backend} runner.sh {sc['history'][-1]['args']}: {bad[2]}",
                    replay={"kind": "scenario", "backend": backend, "scenario": sc, "broken": "property oracle on the real bash run; the word is outside the plain-word fragment of the theorems"}))
            per_backend[backend] = {"scenarios": len(scs), "agreeing_with_model_and_property": n_ok, "odd_word_failures": len(odd), "invocations_consistent_with_family_closure": n_closure}
        oc.samples = [{"backend": "atlas_r21", "config": s["config"], "history": s["history"]} for s in scs[-3:]]
    if model is not None:
        model.close()
    oc.distinct_nontrivial = len(distinct)
    oc.rule = ("per backend: all 48 flag sets (c,r,d,o over 5 destination words) x {fresh, built, ran} without fault; every single failing step index of representative "
               "(quick) / all (thorough) flag sets x environments; environment variants (filelist place, set-up files, calibration cache, CVSROOT); malformed command lines; "
               "random histories (build, then <=3/5 runs with own -d/-o, shuffled/attached/combined flag spellings, stale destination files, faults); getopts event lists vs bash; "
               "non-trivial = at least one tool step executed; distinct by (backend, environment, history)")
    oc.extra = {"scenario_kinds": hist, "exit_status_histogram": exits, "history_length_histogram": lens, "per_backend": per_backend,
                "sandbox": why_no_box or "unshare --mount + chroot", "translator_refusals_c16": refusals}
    concrete = [v for v in oc.violations if not v.no_failing_input]
    known_keys = {k["key"] for k in core.known_findings() if k.get("property") == PID and k.get("status") == "known"}
    unexplained = ps.broken or refusals or oc.correspondence_breaks or model is None or why_no_box or core.build_hygiene_cache()
    if unexplained and not [v for v in concrete if v.key not in known_keys]:
        what = (refusals and f"translator refused: {refusals}") or ps.broken or (oc.correspondence_breaks and f"bash model vs real bash: {oc.correspondence_breaks[0]}") or \
               (why_no_box and f"sandbox unavailable: {why_no_box}") or (core.build_hygiene_cache() and f"hygiene gate: {core.build_hygiene_cache()}") or "model executable could not be built"
        oc.violations.append(core.Violation(key="c16:unproved", what=str(what), no_failing_input=True,
                                            replay={"broken": str(what), "searched": f"{oc.evaluations} real bash invocations judged by the property oracle, none failed"}))
    return core.finish(PID, tier, seed, t0, ps, build, oc, TRUSTED, ASSUME)


def replay(path: str, build: core.BuildStatus) -> int:
    data = json.loads(open(path).read())
    if data.get("no_failing_input_found"):
        print("replay names a broken obligation only:", data.get("broken"))
        ps = core.proof_status(PROP_FILE, build)
        print("proof status now:", ps.broken or "all theorems check")
        return 1 if ps.broken else 0
    backend, sc = data["backend"], data["scenario"]
    script = script_text(backend)
    rb = run_bash(backend, script, [sc], workers=1)[0]
    rm = None
    if build.model_ok:
        m = core.Model()
        rm = model_run(m, backend, sc)
        m.close()
    for i, (inv, r) in enumerate(zip(sc["history"], rb)):
        print(f"invocation {i}: runner.sh {' '.join(inv['args'])} fail={inv.get('fail', [])}: bash exit {r['exit']}, steps {[' '.join(e[1:]) for e in r['log']][-4:]}, statuses {r['status'][-4:]}"
              + (f"; model exit {rm[i]['exit']}" if rm else ""))
        print("   destination files:", {k: v for k, v in r["fs"].items() if k.startswith(("/results/", "/out2/")) or k.endswith("rel_out.root")})
    bad, _ = judge(backend, sc, rb, None)
    print("oracle:", bad[2] if bad else "property holds on this scenario")
    if bad:
        print(f"VIOLATION property={PID} replay={path}")
        return 1
    return 0
