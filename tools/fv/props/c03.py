"""C03 - output tree schema and returned descriptor match the query's final shape.

* proof status of Properties/C03.v (schema theorems over the hand model TreeSchema.v, soundness of the verified
  checker fill_consistent over Exec, output-file constants regenerated from the templates);
* correspondence: every terminal form x 1..4 columns x column kinds x name lists x 3 backends (structured
  enumeration + malformed stream) and qgen random queries: booking lines, class declarations, tree name, file name
  and exception class of the real implementation against the extracted model;
* the extracted checker fill_consistent is run on the IR parsed from the code the implementation emits (round-trip
  checked), for every accepted case;
* an independent oracle of the property text on the implementation's output: names / order from the query source,
  element types from the reference semantics evaluated on sample events (Python int -> int, float -> floating,
  bool -> bool, list -> vector), storage distinctness, descriptor = (file the runner delivers, booked tree).
"""
import ast
import json
import random
import re
from typing import Any, Dict, List, Optional, Tuple

from .. import core, cxx, impl, qgen, semrun
from ..translators import outfile

PID = "C03"
PROP_FILE = "Properties/C03.v"
BACKENDS = ["atlas", "cms_aod", "cms_miniaod"]
PREFIX = {"atlas": "atlas_xaod", "cms_aod": "cms_aod", "cms_miniaod": "cms_miniaod"}
TRUSTED = [
    "Coq 8.16.1 kernel, vm_compute (C03_file_is_written, examples)",
    "hand model coq/Model/TreeSchema.v of get_as_ROOT / call_ResultTTree / get_ttree_type / unique_name / book_*_ttree.emit; its input abstraction (column representations, terminal form, name counter) is produced by the harness from the generated query",
    "Cpp/IR.v + Cpp/Exec.v (stand-in C++ semantics, shared) and the fail-closed parser tools/fv/cxx.py, round-trip checked against the emitted text per case",
    "fail-closed translator tools/fv/translators/outfile.py (regexes over runner.sh, ATestRun_eljob.py, analyzer_cfg.py, copy_root_tree.C; ast over ast_to_cpp_translator.py); what EventLoop / TFileService / cp do with those names is modelled by atlas_delivers / cms_delivers",
    "extraction (ExtrOcamlBasic, ExtrOcamlString), OCaml driver, S-expression codec",
    "the correspondence and the oracle are tests bounded by the generators below; ROOT's TTree::Branch is not run",
]
ASSUME = [
    "forall-events / forall-member-states / forall-event-sequences / forall-programs part of the storage claim is proved (C03_fill_*); the forall-queries part is sampled: the checker is run on the program emitted for each generated query",
    "expression typing (int stays int, / and conditional double, comparison bool) is decided by the translator's visitors, which are not modelled: it is checked by the oracle on generated queries, the theorems take the column's element type text as input",
]

# ------------------------------------------------------------------------------------------------
# column kinds
# ------------------------------------------------------------------------------------------------
C = 'e.Muons("m")'
# label, source, colrep (model input), oracle type class of a scalar entry ("i" | "f" | "b"), vector depth
COLS_E = [
    ("int", f"{C}.Count()", ["val", "int", []], "i", 0),
    ("div", f"{C}.Count()/2", ["val", "double", []], "f", 0),
    ("cmp", f"{C}.Count() > 1", ["val", "bool", []], "b", 0),
    ("cond", f"(1 if {C}.Count() > 1 else 2)", ["val", "double", []], "f", 0),
    # a power is computed by std::pow: floating whatever the operands are (Count() ** -1 is not an integer)
    ("pow_int", f"{C}.Count() ** 2", ["val", "double", []], "f", 0),
    ("pow_neg", f"{C}.Count() ** -1", ["val", "double", []], "f", 0),
    ("v_pow", f"{C}.Select(lambda j: j.nTrk() ** 2)", ["seq", ["val", "double", []]], "f", 1),
    ("v_dbl", f"{C}.Select(lambda j: j.pt())", ["seq", ["val", "double", []]], "f", 1),
    ("v_int", f"{C}.Select(lambda j: j.nTrk())", ["seq", ["val", "int", []]], "i", 1),
    ("v_bool", f"{C}.Select(lambda j: j.isGood())", ["seq", ["val", "bool", []]], "b", 1),
    ("v_float", f"{C}.Select(lambda j: j.charge())", ["seq", ["val", "float", []]], "f", 1),
    ("v_flt_tt", f"{C}.Select(lambda j: j.flt())", ["seq", ["val", "float", ["double"]]], "f", 1),
    ("v_color_tt", f"{C}.Select(lambda j: j.color())", ["seq", ["val", "MyNS::Color", ["int"]]], None, 1),
    ("v_qual_tt", f"{C}.Select(lambda j: j.qual())", ["seq", ["val", "MyNS::Quality", ["double"]]], None, 1),
    # 2-D over a tree_type method: the unchanged code types the inner sequence by cpp_type(), i.e. it ignores the
    # element's declared tree_type there (documented behaviour, kept as the expectation)
    ("vv_color_tt", f"{C}.Select(lambda j: j.hits().Select(lambda h: j.color()))", ["seq", ["seq", ["val", "MyNS::Color", ["int"]]]], None, 2),
    ("vv_flt_tt", f"{C}.Select(lambda j: j.hits().Select(lambda h: j.flt()))", ["seq", ["seq", ["val", "float", ["double"]]]], None, 2),
    ("vv_dbl", f"{C}.Select(lambda j: j.vals())", ["seq", ["coll", "std::vector<double>"]], "f", 2),
    ("vv_int", f"{C}.Select(lambda j: j.hits().Select(lambda h: h + 1))", ["seq", ["seq", ["val", "int", []]]], "i", 2),
]
COLS_J = [
    ("int", "j.nTrk()", ["val", "int", []], "i", 0),
    ("dbl", "j.pt()", ["val", "double", []], "f", 0),
    ("bool", "j.isGood()", ["val", "bool", []], "b", 0),
    ("float", "j.charge()", ["val", "float", []], "f", 0),
    ("flt_tt", "j.flt()", ["val", "float", ["double"]], "f", 0),
    ("color_tt", "j.color()", ["val", "MyNS::Color", ["int"]], None, 0),
    ("qual_tt", "j.qual()", ["val", "MyNS::Quality", ["double"]], None, 0),
    ("v_color_tt", "j.hits().Select(lambda h: j.color())", ["seq", ["val", "MyNS::Color", ["int"]]], None, 1),
    ("cmp", "j.pt() > 1", ["val", "bool", []], "b", 0),
    # a method nobody declared for THIS class (another class declares the same name as int): the documented default double
    # a method declared to return a const-qualified VALUE: the column stores the value type (a const column cannot be filled)
    ("cflt", "j.cflt()", ["val", "float", []], "f", 0),
    ("cflt_arith", "j.cflt() * 2", ["val", "float", []], "f", 0),
    ("v_cflt", "j.hits().Select(lambda h: j.cflt())", ["seq", ["val", "float", []]], "f", 1),
    ("undecl", "j.undecl()", ["val", "double", []], None, 0),
    ("v_undecl", "j.hits().Select(lambda h: j.undecl())", ["seq", ["val", "double", []]], None, 1),
    ("div", "j.nTrk()/2", ["val", "double", []], "f", 0),
    ("pow_int", "j.nTrk() ** 2", ["val", "double", []], "f", 0),
    ("pow_lit", "2 ** j.nTrk()", ["val", "double", []], "f", 0),
    ("cond", "(j.pt() if j.pt() > 1 else j.eta())", ["val", "double", []], "f", 0),
    ("v_int", "j.hits().Select(lambda h: h + 1)", ["seq", ["val", "int", []]], "i", 1),
    ("v_dbl", "j.vals().Select(lambda v: v * 2)", ["seq", ["val", "double", []]], "f", 1),
]
# The C++ column type the property text demands for each structured kind: scalar / vector / vector of vectors of the
# element type the expression has, where a method declared with a tree_type has that leaf type (written by hand,
# independently of the model; 2-D over a tree_type method: see the comment above).
EXPECT_TYPE = {
    "E": {"int": "int", "div": "double", "cmp": "bool", "cond": "double", "pow_int": "double", "pow_neg": "double", "v_pow": "std::vector<double>", "v_dbl": "std::vector<double>", "v_int": "std::vector<int>",
          "v_bool": "std::vector<bool>", "v_float": "std::vector<float>", "v_flt_tt": "std::vector<double>", "v_color_tt": "std::vector<int>",
          "v_qual_tt": "std::vector<double>", "vv_color_tt": "std::vector<std::vector<MyNS::Color>>", "vv_flt_tt": "std::vector<std::vector<float>>",
          "vv_dbl": "std::vector<std::vector<double>>", "vv_int": "std::vector<std::vector<int>>"},
    "J": {"cflt": "float", "cflt_arith": "float", "v_cflt": "std::vector<float>", "undecl": "double", "v_undecl": "std::vector<double>", "int": "int", "dbl": "double", "bool": "bool", "float": "float", "pow_int": "double", "pow_lit": "double", "flt_tt": "double", "color_tt": "int", "qual_tt": "double",
          "v_color_tt": "std::vector<int>", "cmp": "bool", "div": "double", "cond": "double", "v_int": "std::vector<int>", "v_dbl": "std::vector<double>"},
}
# malformed columns: raw collection (not iterated), nested structure, sequence of structures
BAD_E = [
    ("seq_of_tuple", f"{C}.Select(lambda j: (j.pt(), j.eta()))", ["seq", ["struct", False]]),
    ("nested_tuple", f"({C}.Count(), 2)", ["struct", False]),
]
BAD_J = [
    ("raw_coll", "j.vals()", ["coll", "std::vector<double>"]),
]
NAMES = ["a", "b", "pt", "n_trk", "x", "y", "Z", "jet_pt"]


class Case:
    def __init__(self, backend, scope, cols, form, names=None, tree=None, fresh=False):
        self.backend, self.scope, self.cols, self.form, self.names, self.tree, self.fresh = backend, scope, cols, form, names, tree, fresh

    def row_src(self) -> str:
        srcs = [c[1] for c in self.cols]
        if self.form == "dict":
            return "{" + ", ".join(f"'{k}': {s}" for k, s in zip(self.names, srcs)) + "}"
        if self.form == "list":
            return "[" + ", ".join(srcs) + "]"
        if self.form in ("bare", "explicit_bare"):
            return srcs[0]
        return "(" + ", ".join(srcs) + ("," if len(srcs) == 1 else "") + ")"

    def src(self) -> str:
        head = f"ds.Select(lambda e: {self.row_src()})" if self.scope == "E" else f"ds.SelectMany(lambda e: {C}).Select(lambda j: {self.row_src()})"
        if self.form.startswith("explicit"):
            head += f'.AsROOTTTree("out.root", "{self.tree}", {self.names!r})'
        return head

    def model_terminal(self):
        if self.form.startswith("explicit"):
            n = ["str", self.names] if isinstance(self.names, str) else ["list", list(self.names)]
            return ["explicit", n, self.tree]
        return ["implicit"]

    def model_row(self):
        reps = [c[2] for c in self.cols]
        if self.form == "dict":
            return ["dict", [[k, r] for k, r in zip(self.names, reps)]]
        if self.form in ("bare", "explicit_bare"):
            return ["single", reps[0]]
        return ["tuple", reps]

    # ---- the property text, independently of the model
    def oracle_names(self) -> List[str]:
        if self.form.startswith("explicit"):
            return [self.names] if isinstance(self.names, str) else list(self.names)
        if self.form == "dict":
            return list(self.names)
        if self.form == "bare":
            return ["col1"]
        return [f"col{i}" for i in range(len(self.cols))]

    def oracle_tree(self) -> str:
        return self.tree if self.form.startswith("explicit") else PREFIX[self.backend] + "_tree"

    def ncols(self) -> int:
        return 1 if self.form in ("bare", "explicit_bare") else len(self.cols)

    def describe(self) -> Dict[str, Any]:
        return {"backend": self.backend, "scope": self.scope, "tree": self.tree, "query": self.src(), "form": self.form, "columns": [c[0] for c in self.cols], "names": self.names, "fresh_name_counter": self.fresh}


def metadata(uni: qgen.Universe):
    md = uni.metadata()
    for t in [t for _, t in uni.colls.values()]:
        md.append({"metadata_type": "add_method_type_info", "type_string": t, "method_name": "flt", "return_type": "float", "tree_type": "double"})
        md.append({"metadata_type": "add_method_type_info", "type_string": t, "method_name": "color", "return_type": "MyNS::Color", "tree_type": "int"})
        md.append({"metadata_type": "add_method_type_info", "type_string": t, "method_name": "qual", "return_type": "MyNS::Quality", "tree_type": "double"})
        md.append({"metadata_type": "add_method_type_info", "type_string": t, "method_name": "cflt", "return_type": "const float"})
    # the same method name declared on a class no query touches: it says nothing about the classes the queries use
    md.append({"metadata_type": "add_method_type_info", "type_string": "FvNS::Unrelated", "method_name": "undecl", "return_type": "int"})
    md.append({"metadata_type": "add_method_type_info", "type_string": "FvNS::Unrelated_v1", "method_name": "undecl", "return_type": "int"})
    return md


def sample_events(rng, uni):
    evs = []
    for sizes in ([2, 3], [1, 2], [3]):
        ev = qgen.gen_event(rng, uni, [("Muons", "m")], sizes=sizes)
        for o, m, v in list(ev["meths"]):
            if m == "charge":
                ev["meths"].append([o, "flt", v])
            if m in ("vals", "hits") and len(v) == 1:
                v.append(["d", 1, 2] if m == "vals" else ["i", 3])
        evs.append(ev)
    return evs


def py_kind(v, depth=0) -> Optional[Tuple[str, int]]:
    """(scalar class, vector depth) of a reference value in wire form; None when undetermined (empty vector)."""
    t = v[0]
    if t == "v":
        for x in v[1:]:
            k = py_kind(x, depth + 1)
            if k:
                return k
        return None
    if t == "i":
        return ("i", depth)
    if t == "d":
        return ("f", depth)
    if t == "b":
        return ("b", depth)
    return None


def type_matches(ctype: str, kind: Tuple[str, int]) -> bool:
    cls, depth = kind
    t = ctype
    for _ in range(depth):
        m = re.match(r"^std::vector<(.*)>$", t)
        if not m:
            return False
        t = m.group(1)
    if t.startswith("std::vector<"):
        return False
    return t in {"i": ("int",), "f": ("double", "float"), "b": ("bool",)}[cls]


def delivered_file(backend: str) -> str:
    """File name under the output directory that the backend's runner delivers (from the templates, in Python;
    the Coq side proves the same over the regenerated constants)."""
    if backend == "atlas":
        stream, sample, sub, src = outfile.atlas_consts()
        return src.rsplit("/", 1)[-1] if src == f"./{sub}/data-{stream}/{sample}.root" else "?"
    k = outfile.cms_consts(backend)
    return k[6] if k[0] == k[2] and k[3] and k[1] == k[6] else "?"


# ------------------------------------------------------------------------------------------------
# running one case
# ------------------------------------------------------------------------------------------------
class Result:
    def __init__(self):
        self.status = ""
        self.error = None
        self.book: List[str] = []
        self.decl: List[str] = []
        self.tree = None
        self.file = None
        self.prog = None
        self.note = ""
        self.body_not_cpp = False  # per-event code outside C++ by a known C02 finding: schema-only decision


def run_impl(backend: str, src: str, md, model, fresh=False) -> Result:
    import func_adl_xAOD.common.cpp_vars as cv

    r = Result()
    if fresh:
        cv.unique_var_index = 0  # the state of a freshly started interpreter (first query of a process)
    try:
        a = impl.query_ast(src, md)
    except Exception as e:  # noqa: BLE001
        r.status, r.error = "front", type(e).__name__
        return r
    t = impl.translate(backend, a)
    impl.reset_globals()
    if t[0] == "error":
        r.status, r.error, r.note = "error", t[1], t[2]
        return r
    sl = t[1]["slots"]
    r.status = "ok"
    r.book = [l.strip() for l in sl.get("book_code", []) if l.strip() not in ("", "{", "}")]
    r.decl = [l.strip() for l in sl.get("class_decl", []) if l.strip()]
    r.tree, r.file = t[1]["treename"], t[1]["filename"]
    try:
        prog, ql = cxx.parse_program(backend, sl)
        semrun._resolve_tokens(prog)
        rt = cxx.roundtrip(model, prog[4], ql)
        if rt is not None:
            r.note = "roundtrip: " + rt
        else:
            r.prog = prog
    except cxx.ParseError as e:
        r.note = f"unparsed: {e}"
        from . import c02
        if "else without a preceding if" in str(e) and "agg_summand_outer_only" in c02.source_features(src):
            # the per-event code is not C++ for a reason C02 lists as a known finding (c02:agg-summand-outer-only): the
            # schema (booking, members, tree) is still decided here; what needs the body (fill consistency) is not
            try:
                r.prog, _ = cxx.parse_program(backend, dict(sl, query_code=["{", "}"]))
                r.body_not_cpp = True
            except cxx.ParseError:
                r.prog = None
    return r


_TOKEN_DECL = re.compile(r"^edm::EDGetTokenT<.*> \w+;$")


def schema_lines(r: Result) -> Tuple[List[str], List[str]]:
    """booking lines and class declarations that belong to the tree (token members / initialisations of CMS
    collections belong to C06)."""
    book = [l for l in r.book if "consumes<" not in l]
    decl = [l for l in r.decl if not _TOKEN_DECL.match(l)]
    return book, decl


def first_index(r: Result, first_name: str) -> Optional[int]:
    for l in r.book:
        m = cxx._BRANCH.match(l)
        if m:
            v = m.group("v")
            # cpp_vars.unique_name: characters that cannot be part of a C++ identifier become "_"
            pre = "_" + "".join(c if (c.isascii() and (c.isalnum() or c == "_")) else "_" for c in first_name)
            if v.startswith(pre) and v[len(pre):].isdigit():
                return int(v[len(pre):])
            return None
    return None


_SIMPLE_ESC = {"n": "\n", "t": "\t", "r": "\r", "a": "\a", "b": "\b", "f": "\f", "v": "\v", "\\": "\\", '"': '"', "'": "'", "?": "?"}


def cxx_unescape(text: str) -> str:
    """The value of the C++ string literal whose body (between the quotes) is `text`: simple, octal and hex escapes; the bytes
    are read as UTF-8 (what ROOT sees).  Unknown escapes are kept verbatim, so that they show up as a difference."""
    out = bytearray()
    i = 0
    while i < len(text):
        c = text[i]
        if c != "\\" or i + 1 >= len(text):
            out += c.encode("utf-8")
            i += 1
            continue
        d = text[i + 1]
        if d in _SIMPLE_ESC:
            out += _SIMPLE_ESC[d].encode()
            i += 2
        elif d in "01234567":
            j = i + 1
            while j < len(text) and j < i + 4 and text[j] in "01234567":
                j += 1
            out.append(int(text[i + 1:j], 8) & 0xFF)
            i = j
        elif d == "x":
            j = i + 2
            while j < len(text) and text[j] in "0123456789abcdefABCDEF":
                j += 1
            out.append(int(text[i + 2:j] or "0", 16) & 0xFF)
            i = j
        else:
            out += (c + d).encode("utf-8")
            i += 2
    return out.decode("utf-8", errors="replace")


def oracle(case: Case, r: Result, uni, evs, model) -> Optional[Tuple[str, str]]:
    """Property text on the implementation's output.  Returns (key, description) of a violation or None."""
    names = case.oracle_names()
    if case.ncols() != len(names):
        if r.status != "error" or r.error != "RuntimeError":
            return ("c03:count-mismatch-accepted", f"{case.ncols()} column(s) but {len(names)} label(s): outcome {r.status} {r.error}, RuntimeError expected")
        return None
    if r.status != "ok":
        return None  # refusal of a well-counted query: C09's subject
    if r.prog is None:
        return ("c03:unparsed", f"emitted package outside the IR grammar: {r.note}")
    members, tree, branches, extra, body = r.prog
    bn = [cxx_unescape(b[0]) for b in branches]
    if bn != names:
        return ("c03:branch-names" if branches else "c03:no-branches", f"booked branch names {bn} != names of the final expression {names}")
    bv = [b[1] for b in branches]
    if len(set(bv)) != len(bv):
        return ("c03:class-var-collision", f"two columns share one class variable: {bv}")
    mt: Dict[str, List[str]] = {}
    for t, n in members:
        mt.setdefault(n, []).append(t)
    for v in bv:
        if len(mt.get(v, [])) != 1:
            return ("c03:class-var-collision" if len(mt.get(v, [])) > 1 else "c03:undeclared-variable", f"branch variable {v} is declared {len(mt.get(v, []))} time(s) as a class member")
    if tree != case.oracle_tree() or r.tree != tree:
        return ("c03:tree-name", f"booked tree {tree!r}, descriptor tree {r.tree!r}, expected {case.oracle_tree()!r}")
    if r.file != delivered_file(case.backend):
        return ("c03:file-name", f"descriptor file {r.file!r} but the runner delivers {delivered_file(case.backend)!r}")
    fc = [True] if r.body_not_cpp else model.call("c03.fillcheck", [case.backend == "atlas", r.prog])
    if fc[0] not in (True, "true"):
        return ("c03:fill-inconsistent", f"fill_consistent rejects the emitted program (branches_ok={fc[1]}, columns={fc[2]})")
    # element types by construction of the structured case (property text: vector of the element's leaf type)
    if case.scope in EXPECT_TYPE and len(case.cols) == len(bv):
        for i, c in enumerate(case.cols):
            want = EXPECT_TYPE[case.scope].get(c[0])
            if want is not None and mt[bv[i]][0] != want:
                return ("c03:column-type", f"column {names[i]} ({c[0]}: {c[1]}) is declared {mt[bv[i]][0]}, the final expression's element type demands {want}")
    # element types from the reference semantics
    src = case.src()
    kinds: List[Optional[Tuple[str, int]]] = [None] * len(names)
    try:
        for ev in evs:
            ref = qgen.reference_event(src, ev, uni)
            if ref[0] != "rows":
                continue
            for row in ref[1]:
                for i, v in enumerate(row[: len(kinds)]):
                    k = py_kind(v)
                    if k is not None and (kinds[i] is None or (kinds[i][0] == "i" and k[0] == "f")):
                        kinds[i] = k  # an int seen next to a float is Python's empty sum (0), not the element type
    except (qgen.RefUnsupported, Exception):  # noqa: BLE001
        return None
    cas = column_asts(src)
    for i, k in enumerate(kinds):
        if k is not None and k[0] == "i" and cas is not None and i < len(cas) and floating_by_text(cas[i]):
            k = ("f", k[1])  # property text: real division and conditionals are floating whatever their operands
        if k is not None and k[0] == "i" and getattr(case, "random", False) and type_matches(mt[bv[i]][0], ("f", k[1])):
            continue  # random queries: an int-only observation does not decide (empty Sum() is the int 0 in Python); "int stays int" is decided by the structured cases
        if k is not None and not type_matches(mt[bv[i]][0], k):
            return ("c03:column-type", f"column {names[i]} is declared {mt[bv[i]][0]} but the expression is {'vector^%d of ' % k[1] if k[1] else ''}{ {'i': 'int', 'f': 'floating', 'b': 'bool'}[k[0]] }")
    return None


def correspond(case: Case, r: Result, model) -> Optional[str]:
    """implementation vs extracted model; None when they agree."""
    idx = 0
    names = case.oracle_names()
    if r.status == "ok":
        i = first_index(r, names[0]) if names else None
        if i is None:
            return f"cannot read the name index off the first branch variable: {r.book}"
        idx = i
    m = model.call("c03.schema", [case.backend, idx, case.model_terminal(), case.model_row()])
    if m[0] == "error":
        if r.status == "error" and r.error == m[1]:
            return None
        return f"model {m} vs implementation {r.status} {r.error} {r.note[:80]}"
    if m[0] != "ok":
        return f"model refused the input: {m}"
    if r.status != "ok":
        return f"model accepts, implementation {r.status} {r.error}: {r.note[:100]}"
    s = m[1]
    book, decl = schema_lines(r)
    if book != s[3]:
        return f"booking lines {book} != model {s[3]}"
    if decl != s[2]:
        return f"class declarations {decl} != model {s[2]}"
    if [r.file, r.tree] != s[6]:
        return f"descriptor {[r.file, r.tree]} != model {s[6]}"
    return None


# ------------------------------------------------------------------------------------------------
# generation
# ------------------------------------------------------------------------------------------------
def gen_cases(rng: random.Random, tier: str) -> List[Case]:
    cases: List[Case] = []
    per_n = 3 if tier == "quick" else 14
    for be in BACKENDS:
        for scope, pool, bad in (("E", COLS_E, BAD_E), ("J", COLS_J, BAD_J)):
            # every single column kind, every 1-column terminal form
            for c in pool:
                cases.append(Case(be, scope, [c], "bare"))
                cases.append(Case(be, scope, [c], "dict", names=[rng.choice(NAMES)]))
                cases.append(Case(be, scope, [c], "explicit_bare", names=rng.choice(NAMES), tree="t1"))
                # a bare value (scalar, 1-D or 2-D sequence) under an explicit name LIST: exactly one label is right,
                # 0 / 2 / 3 labels are a count mismatch (RuntimeError) although nothing is a tuple
                cases.append(Case(be, scope, [c], "explicit_bare", names=[rng.choice(NAMES)], tree="t1"))
                cases.append(Case(be, scope, [c], "explicit_bare", names=[], tree="t1"))
                cases.append(Case(be, scope, [c], "explicit_bare", names=rng.sample(NAMES, 2), tree="t1"))
                cases.append(Case(be, scope, [c], "explicit_bare", names=rng.sample(NAMES, 3), tree="mytree"))
            for n in (1, 2, 3, 4):
                for _ in range(per_n):
                    cols = [rng.choice(pool) for _ in range(n)]
                    nm = rng.sample(NAMES, n)
                    cases.append(Case(be, scope, cols, "tuple"))
                    cases.append(Case(be, scope, cols, "list"))
                    cases.append(Case(be, scope, cols, "dict", names=nm))
                    cases.append(Case(be, scope, cols, "explicit", names=nm, tree=rng.choice(["mytree", "t", "atlas_xaod_tree"])))
                    # tree names that are not identifiers: the job must book, fill and report exactly the given name
                    cases.append(Case(be, scope, cols, "explicit", names=nm, tree=rng.choice(["my tree", "analysis/nominal", " padded ", "t-1.x", "a  b", "Tree:1", "x/y/z"])))
                    # column labels that are not identifiers (ROOT branch names may be any text: "jet.pt", "n-jets"): the branch keeps the
                    # label, its storage is a class member with a C++ name
                    odd = ["jet.pt", "n-jets", "n jets", "class", "p\u00e9", "\u03b7", "a/b", "x:y", "_", "9lives", "d\"q"]
                    cases.append(Case(be, scope, cols, "explicit", names=rng.sample(odd, n), tree="mytree"))
                    k = rng.choice(["few", "many", "str", "dup", "empty", "digit"])
                    if k == "few":
                        names: Any = nm[:-1]
                    elif k == "many":
                        names = nm + ["extra"]
                    elif k == "str":
                        names = "onename"
                    elif k == "dup":
                        names = [nm[0]] * n
                    elif k == "empty":
                        names = []
                    else:
                        names = [x + str(rng.randrange(0, 30)) for x in nm]
                    cases.append(Case(be, scope, cols, "explicit", names=names, tree="mytree"))
            # malformed columns
            for b in bad:
                if b[0] != "nested_tuple":  # a bare tuple IS the row
                    cases.append(Case(be, scope, [(b[0], b[1], b[2], None, 0)], "bare"))
                cases.append(Case(be, scope, [pool[0], (b[0], b[1], b[2], None, 0)], "tuple"))
                cases.append(Case(be, scope, [pool[0], (b[0], b[1], b[2], None, 0)], "dict", names=["p", "q"]))
                cases.append(Case(be, scope, [pool[0], (b[0], b[1], b[2], None, 0)], "explicit", names=["p", "q"], tree="t"))
        # the class-variable collision: first query of a process, a name that extends another by digits
        cols = [COLS_J[0]] * 11
        cases.append(Case(be, "J", cols, "explicit", names=["a1", "b", "c", "d", "e", "f", "g", "h", "i", "k", "a"], tree="t", fresh=True))
    return cases


def _last_select_body(src: str):
    tree = ast.parse(src, mode="eval").body
    if isinstance(tree, ast.Call) and isinstance(tree.func, ast.Attribute) and tree.func.attr == "AsROOTTTree":
        tree = tree.func.value
    while isinstance(tree, ast.Call) and isinstance(tree.func, ast.Attribute) and tree.func.attr == "Where":
        tree = tree.func.value
    if isinstance(tree, ast.Call) and isinstance(tree.func, ast.Attribute) and tree.func.attr == "Select" and isinstance(tree.args[0], ast.Lambda):
        return tree.args[0].body
    return None


def column_asts(src: str):
    """the expressions of the final row's columns, in order (None when the query does not end in a Select)."""
    body = _last_select_body(src)
    if body is None:
        return None
    if isinstance(body, ast.Dict):
        return list(body.values)
    if isinstance(body, (ast.Tuple, ast.List)):
        return list(body.elts)
    return [body]


def floating_by_text(node: ast.AST) -> bool:
    """the column's value is produced by a conditional or a real division (possibly inside the element lambda of
    a sequence column): the property text makes it floating even when Python would compute an int"""
    n = node
    while isinstance(n, ast.Call) and isinstance(n.func, ast.Attribute) and n.func.attr == "Select" and isinstance(n.args[0], ast.Lambda):
        n = n.args[0].body
    return isinstance(n, ast.IfExp) or (isinstance(n, ast.BinOp) and isinstance(n.op, ast.Div))


def final_shape(src: str):
    """(names, tree or None) of a generated query from its source: the last Select's lambda body."""
    tree = ast.parse(src, mode="eval").body
    given = None
    if isinstance(tree, ast.Call) and isinstance(tree.func, ast.Attribute) and tree.func.attr == "AsROOTTTree":
        given = (ast.literal_eval(tree.args[2]), ast.literal_eval(tree.args[1]))
        tree = tree.func.value
    if not (isinstance(tree, ast.Call) and isinstance(tree.func, ast.Attribute) and tree.func.attr in ("Select", "SelectMany", "Where")):
        return None
    while isinstance(tree, ast.Call) and isinstance(tree.func, ast.Attribute) and tree.func.attr == "Where":
        tree = tree.func.value
    if not (isinstance(tree, ast.Call) and isinstance(tree.func, ast.Attribute) and tree.func.attr == "Select"):
        return None if given is None else ([given[0]] if isinstance(given[0], str) else list(given[0]), given[1])
    body = tree.args[0].body
    if given is not None:
        return ([given[0]] if isinstance(given[0], str) else list(given[0]), given[1])
    if isinstance(body, ast.Dict):
        return ([k.value for k in body.keys], None)
    if isinstance(body, (ast.Tuple, ast.List)):
        return ([f"col{i}" for i in range(len(body.elts))], None)
    return (["col1"], None)


# ------------------------------------------------------------------------------------------------
# check
# ------------------------------------------------------------------------------------------------
def check(tier: str, seed: int, t0: float, build: core.BuildStatus) -> int:
    import logging

    logging.disable(logging.CRITICAL)
    ps = core.proof_status(PROP_FILE, build)
    oc = core.Outcome()
    rng = random.Random(seed * 7919 + 3)
    model = core.Model() if build.model_ok else None
    hist: Dict[str, int] = {}
    forms: Dict[str, int] = {}
    distinct = set()
    checker_accepts = 0
    samples = []
    unis = {be: qgen.Universe(be) for be in BACKENDS}
    mds = {be: metadata(unis[be]) for be in BACKENDS}
    evs = {be: sample_events(rng, unis[be]) for be in BACKENDS}
    gen_refusal = build.gen_errors.get("OutFile.v")
    if model is not None:
        cases = gen_cases(rng, tier)
        for case in cases:
            src = case.src()
            r = run_impl(case.backend, src, mds[case.backend], model, fresh=case.fresh)
            oc.evaluations += 1
            k = f"{case.backend}:{r.status}" + (f":{r.error}" if r.error else "")
            hist[k] = hist.get(k, 0) + 1
            forms[case.form + f"/{len(case.cols)}"] = forms.get(case.form + f"/{len(case.cols)}", 0) + 1
            if r.status == "front":
                continue
            if len(case.cols) >= 2 or case.form != "bare":
                distinct.add(src)
            bad = oracle(case, r, unis[case.backend], evs[case.backend], model)
            if bad:
                d = case.describe()
                d.update({"kind": "structured", "implementation": {"status": r.status, "error": r.error, "book": r.book, "class_decl": r.decl, "treename": r.tree, "filename": r.file}, "oracle": bad[1]})
                oc.violations.append(core.Violation(key=bad[0], what=f"{case.backend}: {src[:160]}: {bad[1]}", replay=d))
                continue
            if r.status == "ok":
                checker_accepts += 1
            why = correspond(case, r, model)
            if why:
                d = case.describe()
                d.update({"why": why})
                oc.correspondence_breaks.append(d)
            else:
                oc.traces_validated_against_impl += 1
                if len(samples) < 6 and r.status == "ok" and len(case.cols) > 1:
                    samples.append({"backend": case.backend, "query": src, "book": r.book, "class_decl": r.decl, "descriptor": [r.file, r.tree]})
        # random queries of the shared generator
        n_rand = 40 if tier == "quick" else 400
        feats: Dict[str, int] = {}
        rand_ok = 0
        for be in BACKENDS:
            uni = unis[be]
            for _ in range(n_rand):
                src, q = qgen.gen_query(rng, uni, depth=rng.choice([1, 2, 3]))
                fs = final_shape(src)
                if fs is None:
                    continue
                r = run_impl(be, src, uni.metadata(), model)
                oc.evaluations += 1
                k = f"qgen:{be}:{r.status}" + (f":{r.error}" if r.error else "")
                hist[k] = hist.get(k, 0) + 1
                if r.status != "ok":
                    continue
                for f in q.feat:
                    feats[f] = feats.get(f, 0) + 1
                distinct.add(src)
                case = Case(be, "Q", [], "explicit" if fs[1] else "qgen", names=fs[0], tree=fs[1])
                case.random = True  # type: ignore
                case.src = lambda s=src: s  # type: ignore
                case.oracle_names = lambda n=fs[0]: list(n)  # type: ignore
                case.ncols = lambda n=fs[0]: len(n)  # type: ignore
                qevs = [qgen.gen_event(rng, uni, q.uses, sizes=[1, 2, 3]) for _ in range(3)]
                bad = oracle(case, r, uni, qevs, model)
                if bad:
                    oc.violations.append(core.Violation(key=bad[0], what=f"{be}: {src[:160]}: {bad[1]}",
                                                        replay={"kind": "qgen", "backend": be, "query": src, "features": sorted(q.feat), "names": fs[0], "tree": fs[1],
                                                                "implementation": {"book": r.book, "class_decl": r.decl, "treename": r.tree, "filename": r.file}, "oracle": bad[1]}))
                else:
                    rand_ok += 1
                    checker_accepts += 1
                    if r.body_not_cpp:
                        oc.extra["qgen_schema_only(body not C++: known C02 finding agg-summand-outer-only)"] = oc.extra.get("qgen_schema_only(body not C++: known C02 finding agg-summand-outer-only)", 0) + 1
        oc.extra.update({"qgen_feature_histogram": feats, "qgen_queries_passing_oracle": rand_ok})
        # the SAME query object handed to the translator again (a kept query executed twice): the job must book and fill
        # the same tree as the first time - the returned descriptor names that tree both times
        for be in BACKENDS:
            main = {"atlas": "Jets", "cms_aod": "Muons", "cms_miniaod": "Muons"}[be]
            for qsrc in (f'ds.SelectMany(lambda e: e.{main}("b1")).Select(lambda j: (j.pt(), j.eta())).AsROOTTTree("f.root", "t", ["a", "b"])',
                         f'ds.Select(lambda e: e.{main}("b1").Count())',
                         f'ds.Select(lambda e: {{"n": e.{main}("b1").Count(), "pts": e.{main}("b1").Select(lambda j: j.pt())}})'):
                a = impl.query_ast(qsrc, None)
                shapes = []
                for again in range(3):
                    t = impl.translate(be, a)
                    impl.reset_globals()
                    oc.evaluations += 1
                    if t[0] != "ok":
                        shapes.append(("error", t[1]))
                        continue
                    sl = t[1]["slots"]
                    decl = [re.sub(r"\d+;$", ";", l.strip()) for l in sl.get("class_decl", []) if l.strip()]
                    branches = [re.sub(r"\d+\);$", ");", l.strip()) for l in sl.get("book_code", []) if "Branch(" in l]
                    fills = sum(1 for l in sl.get("query_code", []) if "Fill()" in l)
                    shapes.append((t[1]["treename"], t[1]["filename"], tuple(decl), tuple(branches), fills))
                hist[f"again:{be}:{'same' if len(set(shapes)) == 1 else 'DIFFERENT'}"] = hist.get(f"again:{be}:{'same' if len(set(shapes)) == 1 else 'DIFFERENT'}", 0) + 1
                if len(set(shapes)) != 1:
                    oc.violations.append(core.Violation(
                        key="c03:retranslation-differs",
                        what=f"{be}: the same query object translated again gives a different tree: first {shapes[0]!r}, then {[x for x in shapes[1:] if x != shapes[0]][0]!r}: {qsrc}",
                        replay={"kind": "again", "backend": be, "query": qsrc, "shapes": [list(map(str, x)) for x in shapes]}))
                else:
                    oc.traces_validated_against_impl += 1
        model.close()
    oc.distinct_nontrivial = len(distinct)
    oc.samples = samples
    oc.rule = ("structured: 3 backends x {event-level, object-level rows} x every column kind as bare/dict/explicit single column + 1..4 columns sampled from "
               f"{len(COLS_E)} event-level / {len(COLS_J)} object-level kinds (int, /, comparison, conditional, bool, float-declared, float with tree_type, 1-D, 2-D) x "
               "{tuple, list, dict, explicit right count, explicit few/many/single string/duplicate/empty/digit-suffixed names} + malformed columns (raw collection, nested tuple, "
               "sequence of tuples) + the fresh-counter collision case; then qgen random queries (depth 1-3) per backend; non-trivial = not a single bare column; distinct by source")
    oc.extra.update({"outcome_histogram": hist, "terminal_form_histogram": forms, "programs_accepted_by_fill_consistent": checker_accepts,
                     "forall_part": "events, member states, event sequences and IR programs: proved; queries: sampled (counts above)",
                     "duplicate_given_names": "booked as given with distinct variables (conforms to the text: only positional defaults are required to be distinct); duplicate dict keys are refused by func_adl's front end (TypeError)"})
    known_keys = {k["key"] for k in core.known_findings() if k.get("property") == PID and k.get("status") == "known"}
    if all(v.key in known_keys for v in oc.violations) and (ps.broken or oc.correspondence_breaks or model is None or gen_refusal or core.build_hygiene_cache()):
        what = ps.broken or (f"translator outfile.py refused: {gen_refusal}" if gen_refusal else None) or (
            f"correspondence TreeSchema vs implementation: {oc.correspondence_breaks[0]}" if oc.correspondence_breaks else
            ("hygiene gate: " + "; ".join(core.build_hygiene_cache()) if core.build_hygiene_cache() else "model executable could not be built"))
        oc.violations.append(core.Violation(key="c03:unproved", what=what, no_failing_input=True,
                                            replay={"broken": what, "searched": f"{oc.evaluations} cases with the schema oracle and fill_consistent, none failed"}))
    return core.finish(PID, tier, seed, t0, ps, build, oc, TRUSTED, ASSUME)


def replay(path: str, build: core.BuildStatus) -> int:
    import logging

    logging.disable(logging.CRITICAL)
    data = json.loads(open(path).read())
    if data.get("no_failing_input_found"):
        print(f"replay names a broken obligation only: {data.get('broken')}")
        ps = core.proof_status(PROP_FILE, build)
        print("proof status now:", ps.broken or "all theorems check")
        return 1 if ps.broken else 0
    be = data["backend"]
    if data.get("kind") == "again":
        a = impl.query_ast(data["query"], None)
        shapes = []
        for _ in range(3):
            t = impl.translate(be, a)
            impl.reset_globals()
            shapes.append(("error", t[1]) if t[0] != "ok" else
                          (t[1]["treename"], len([l for l in t[1]["slots"].get("class_decl", []) if l.strip()]),
                           sum(1 for l in t[1]["slots"].get("book_code", []) if "Branch(" in l), sum(1 for l in t[1]["slots"].get("query_code", []) if "Fill()" in l)))
        print("(tree, members, branches, fills) per translation of the same query object:", shapes)
        if len(set(shapes)) != 1:
            print(f"VIOLATION property={PID} replay={path}")
            return 1
        return 0
    uni = qgen.Universe(be)
    model = core.Model()
    src = data["query"]
    r = run_impl(be, src, metadata(uni), model, fresh=bool(data.get("fresh_name_counter")))
    print("query:", src)
    print("implementation:", r.status, r.error or "", "\n  book:", r.book, "\n  class_decl:", r.decl, "\n  descriptor:", [r.file, r.tree])
    names = data.get("names")
    case = None
    if data.get("kind") == "structured" and data.get("scope") in ("E", "J"):
        pool = {c[0]: c for c in (COLS_E if data["scope"] == "E" else COLS_J)}
        pool.update({b[0]: (b[0], b[1], b[2], None, 0) for b in (BAD_E if data["scope"] == "E" else BAD_J)})
        if all(l in pool for l in data["columns"]):
            case = Case(be, data["scope"], [pool[l] for l in data["columns"]], data["form"], names=names, tree=data.get("tree"), fresh=bool(data.get("fresh_name_counter")))
            if case.src() != src:
                case = None
    if case is None:
        fs = final_shape(src)
        if fs is None and names is None:
            print("cannot derive the final shape")
            return 1
        nm = fs[0] if fs else ([names] if isinstance(names, str) else list(names))
        case = Case(be, "Q", [], "explicit" if (fs and fs[1]) else "qgen", names=nm, tree=(fs[1] if fs else None))
        case.random = data.get("kind") == "qgen"  # type: ignore
        case.src = lambda s=src: s  # type: ignore
        case.oracle_names = lambda n=nm: list(n)  # type: ignore
        ncol = len(data["columns"]) if data.get("columns") and data.get("form") not in ("bare", "explicit_bare") else (1 if data.get("columns") else len(nm))
        case.ncols = lambda n=ncol: n  # type: ignore
    rng = random.Random(1)
    bad = oracle(case, r, uni, sample_events(rng, uni), model)
    model.close()
    print("oracle:", bad[1] if bad else "property holds on this input")
    if bad:
        print(f"VIOLATION property={PID} replay={path}")
        return 1
    return 0
