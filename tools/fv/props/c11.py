"""C11 - injected C++ functions are applied hygienically at every call site.

Theorems: coq/Properties/C11.v over coq/Model/WordSubst.v (hand model of Python re.sub for the two pattern
shapes used, of the re replacement-template language, and of cpp_ast.py: replace_whole_words,
build_CPPCodeValue, process_ast_node, cpp_ast_finder).  Tie: (A) the re model against Python's re on
generated strings, (B) build_CPPCodeValue + process_ast_node of /repo (real generated_code, stub visitor)
against the extracted model on generated specifications, (C) cpp_ast_finder on generated trees, (D)
end-to-end traces through the three executors with metadata-declared and built-in functions.
Search: an independent oracle of the property text (Python tokeniser, simultaneous map) applied to the
implementation's own output at function level and end to end."""
import ast
import json
import random
import re
from typing import Any, Dict, List, Optional, Tuple

from .. import core, impl

PID = "C11"
PROP_FILE = "Properties/C11.v"
TRUSTED = [
    "Coq 8.16.1 kernel (coqc); vm_compute only in the refutation witnesses and non-vacuity Examples",
    "hand model coq/Model/WordSubst.v: Python re.sub (leftmost scan, ordered alternation, empty-match/must-advance rule) for \\bNAME\\b and \\b(?:N1|..|Nk)\\b on byte strings with ASCII word characters; re replacement templates; cpp_ast.py functions; unique_name; arbitrary_statement; set_var without conversion; block.emit",
    "Python's re module itself (validated against the model on generated strings, not proved)",
    "extraction (ExtrOcamlBasic, ExtrOcamlString) + ocaml/main.ml driver + S-expression codec tools/fv/sexp.py",
    "correspondence = differential test bounded by the generators below; the stub visitor stands for visitor.get_rep / resolve_id (argument C++ text is an arbitrary string in the theorems)",
    "cpp_types.parse_type / terminal.__str__ (C10) for the rendered return type; func_adl and the translator for the argument expressions of the end-to-end traces",
]
ASSUME = [
    "ASCII text: \\w = [A-Za-z0-9_] (non-ASCII identifiers are outside the model and are not generated)",
    "formal parameter names and the method object name are identifiers (non-empty, word characters); other names are covered by the correspondence only",
    "the counter behind unique_name only grows within a translation",
]

WORD = re.compile(r"[A-Za-z0-9_]+|[^A-Za-z0-9_]+")


# ------------------------------------------------------------------------------------------------
# the property text, as an independent oracle
# ------------------------------------------------------------------------------------------------
def spec_subst(binding: List[Tuple[str, str]], line: str) -> str:
    m: Dict[str, str] = {}
    for k, v in binding:
        m.setdefault(k, v)
    return "".join(m.get(t, t) for t in WORD.findall(line))


def is_ident(s: str) -> bool:
    return re.fullmatch(r"[A-Za-z0-9_]+", s) is not None


def wire(s: str) -> str:
    """Python str with code points < 256 -> the byte string the model talks about (as the codec carries it)."""
    return s.encode("latin-1", "replace").decode("utf-8", "surrogateescape")


# ------------------------------------------------------------------------------------------------
# (A) Python re against the model
# ------------------------------------------------------------------------------------------------
ALPH_A = list("ab_1 0\\g<>(.-x;n7")


TEMPLATE_PIECES = ["\\g<0>", "\\g<00>", "\\g<a>", "\\g<_b1>", "\\g<1>", "\\g<", "\\g<>", "\\g<a b>", "\\n", "\\t", "\\1", "\\12", "\\012", "\\0", "\\08",
                   "\\123", "\\377", "\\400", "\\\\", "x", "(", "\\(", "\\q", "\\_", "a->b", "\\"]


def rnd_str(rng: random.Random, alph: List[str], n: int) -> str:
    return "".join(rng.choice(alph) for _ in range(rng.randint(0, n)))


def py_resub(p: str, repl: str, s: str):
    try:
        return ["ok", wire(re.sub(r"\b" + re.escape(p) + r"\b", repl, s))]
    except Exception as e:  # noqa: BLE001
        return ["error", type(e).__name__]


# ------------------------------------------------------------------------------------------------
# (B) build_CPPCodeValue + process_ast_node of /repo
# ------------------------------------------------------------------------------------------------
Spec = Dict[str, Any]


def spec_wire(sp: Spec):
    t = sp["rtype"]
    return [sp["name"], sp["includes"], sp["args"], sp["code"], sp["result"], [t[0], t[1], t[2]], sp["is_coll"],
            [sp["method_obj"]] if sp["method_obj"] is not None else []]


def style_wire(style):
    return ["func"] if style[0] == "func" else ["method", style[1]]


class _Lines:
    def __init__(self):
        self.lines: List[str] = []

    def add_line(self, ln):
        self.lines.append(ln)


def impl_call(case: Dict[str, Any]):
    import func_adl_xAOD.common.cpp_ast as ca
    import func_adl_xAOD.common.cpp_representation as crep
    import func_adl_xAOD.common.cpp_types as ctyp
    import func_adl_xAOD.common.cpp_vars as cvars
    from func_adl_xAOD.common.generated_code import generated_code

    sp, style, recv, reps = case["spec"], case["style"], case["recv"], case["reps"]
    saved = cvars.unique_var_index
    try:
        cvars.unique_var_index = case["counter"]
        spec = ca.CPPCodeSpecification(sp["name"], list(sp["includes"]), list(sp["args"]), list(sp["code"]), sp["result"],
                                       ctyp.CPPParsedTypeInfo(sp["rtype"][0], sp["rtype"][1], sp["rtype"][2]), sp["is_coll"], sp["method_obj"])
        func = ast.Name(id=sp["name"]) if style[0] == "func" else ast.Attribute(value=ast.Name(id=style[1]), attr=sp["name"])
        call = ast.Call(func=func, args=[ast.Constant(value=i) for i in range(len(reps))], keywords=[])
        try:
            call = ca.build_CPPCodeValue(spec, call)
        except Exception as e:  # noqa: BLE001
            return ["error", type(e).__name__]
        cv = call.func
        cv.link_libraries = list(cv.link_libraries) + list(case["llibs"])
        cv.fields = [(crep.cpp_variable(n, None, ctyp.terminal(t)), init) for t, n, init in case["fields"]]
        gc = generated_code()
        for i in case["incs"]:
            gc.add_include(i)
        for i in case["libs"]:
            gc.add_link_library(i)

        class _R:
            def __init__(self, t):
                self.t = t
                self.rep = self

            def as_cpp(self):
                return self.t

        class _V:
            _gc = gc

            def resolve_id(self, _id):
                return _R(recv)

            def get_rep(self, node):
                return _R(reps[node.value])

        try:
            rep = ca.process_ast_node(_V(), gc, call)
        except Exception as e:  # noqa: BLE001
            return ["error", type(e).__name__]
        q, b = _Lines(), _Lines()
        gc.emit_query_code(q)
        gc.emit_book_code(b)
        render = q.lines
        decl = render[1][:-1].rsplit(" ", 1) if len(render) > 1 and render[1].endswith(";") and " " in render[1] else ["?", "?"]
        block = render[3:-2]
        cls = [s[:-2].rsplit(" ", 1) for s in gc.class_declaration_code()]
        return ["ok", [decl, list(gc.include_files()), list(gc.link_libraries()), block, cls, b.lines[1:-1], rep.as_cpp(),
                       str(cvars.unique_var_index), render]]
    finally:
        cvars.unique_var_index = saved


def model_call(model: core.Model, case: Dict[str, Any], which: str = "fixed"):
    r = model.call("c11.call", [which, spec_wire(case["spec"]), style_wire(case["style"]), case["recv"], case["reps"],
                                case["counter"], case["incs"], case["libs"], [list(f) for f in case["fields"]], case["llibs"]])
    return r


def case_valid(case) -> bool:
    sp, style = case["spec"], case["style"]
    return len(case["reps"]) == len(sp["args"]) and ((style[0] == "func") == (sp["method_obj"] is None))


def case_in_scope(case) -> bool:
    """The property's quantifier: distinct identifier names."""
    sp = case["spec"]
    names = list(sp["args"]) + ([sp["method_obj"]] if sp["method_obj"] is not None else [])
    return all(is_ident(n) for n in names) and len(set(names)) == len(names)


def type_text(sp: Spec) -> str:
    t = ("const " if sp["rtype"][2] else "") + sp["rtype"][0] + "*" * sp["rtype"][1]
    return f"std::vector<{t}>" if sp["is_coll"] else t


def oracle_call(case, res) -> Optional[Tuple[str, str]]:
    """Property text on one function-level result. Returns (class, description) of the failure."""
    sp, style = case["spec"], case["style"]
    if not case_valid(case):
        if res[0] != "error":
            return ("accepted-bad-call", "call with wrong arity or call style was not rejected")
        if res[1] != "ValueError":
            return ("accepted-bad-call", f"wrong arity/style raised {res[1]} instead of ValueError")
        return None
    if not case_in_scope(case):
        return None
    slash = any("\\" in r for r in case["reps"] + [case["recv"]])
    klass = "template-interpreted" if slash else "sequential-substitution"
    if res[0] != "ok":
        return (klass, f"valid call raised {res[1]}")
    decl, incs, libs, block, _cls, _book, result, counter, render = res[1]
    binding = ([(sp["method_obj"], case["recv"])] if sp["method_obj"] is not None else []) + list(zip(sp["args"], case["reps"]))
    if len(block) != len(sp["code"]) + 1:
        return ("block-shape", f"block has {len(block)} statements for {len(sp['code'])} code lines")
    for got, line in zip(block, sp["code"]):
        want = wire(spec_subst(binding, line))
        if got not in (want, want + ";"):
            return (klass, f"code line {line!r} with {binding} became {got!r}, the property demands {want!r}")
    rvar = decl[1]
    if block[-1] != f"{rvar} = {sp['result']};":
        return ("block-shape", f"block ends in {block[-1]!r}, not in '{rvar} = {sp['result']};'")
    if result != rvar or not rvar.startswith(sp["name"]) or rvar in (sp["args"] + [sp["result"]]):
        return ("result-var", f"returned {result!r}, declared {rvar!r}")
    if decl[0].replace(" ", "") != type_text(sp).replace(" ", ""):
        return ("result-type", f"result declared as {decl[0]!r}, specification says {type_text(sp)!r}")
    if render[:3] != ["{", f"{decl[0]} {rvar};", "{"] or render[-2:] != ["}", "}"]:
        return ("block-shape", f"declaration / own block not in place: {render}")
    if not set(sp["includes"]) | set(case["incs"]) <= set(incs):
        return ("includes", f"include files {sp['includes']} not all added: {incs}")
    if int(counter) <= case["counter"]:
        return ("result-var", "unique counter did not advance")
    return None


P_NAMES = ["pt", "eta", "phi", "x", "y", "obj", "i_obj", "result", "e1", "a"]
ARG_TEXTS = ["i_obj->pt()", "i_obj->eta()", "i_obj.phi()", "x", "y", "1.5", "(x+y)", "obj", "a->x->y", "jets1", "\"emf\"", "eta", "pt*2",
             "'\\n'", "\"C:\\data\"", "s\\1", "\\g<0>", "a\\\\b", "result", "MyF3", ""]
CODE_LINES = ["auto result = pt*eta;", "auto d = eta - phi", "auto result = obj->get(x, y);", "double xpt = pt + pt_2 + ptx + _pt;",
              "auto result = sqrt(x*x + y*y);", "result = i_obj->pt();", "auto r = a.a->a(a);", "auto result = e1 + 1e1 + e1;", "", ";",
              "auto result = std::vector<float>(obj.x);", "x", "y y  y"]


def gen_case(rng: random.Random, malformed: bool) -> Dict[str, Any]:
    k = rng.randint(0, 4)
    if malformed and rng.random() < 0.6:
        pool = P_NAMES + ["", "a.b", "$x", "pt", "x y", "->", "1"]
        args = [rng.choice(pool) for _ in range(k)]
    else:
        args = rng.sample(P_NAMES, k)
    is_method = rng.random() < 0.35
    mo = None
    if is_method:
        left = [n for n in P_NAMES if n not in args]
        mo = rng.choice(P_NAMES + [""]) if malformed and rng.random() < 0.3 else rng.choice(left)
    code = []
    for _ in range(rng.randint(0, 3)):
        if rng.random() < 0.5:
            code.append(rng.choice(CODE_LINES))
        else:
            toks = []
            for _ in range(rng.randint(1, 7)):
                toks.append(rng.choice(args + P_NAMES[:4] + ["xpt", "pt_2", "result"] if args else P_NAMES[:4]))
                toks.append(rng.choice([" ", "*", "->", "(", ")", ".", " + ", ";", "", "_", "2", "::", "\\"]))
            code.append("".join(toks))
    sp = {"name": rng.choice(["MyF", "DeltaR", "F1", "getAttr", "f_2"]), "includes": rng.sample(["a.h", "b.h", "vector", "math.h"], rng.randint(0, 3)),
          "args": args, "code": code, "result": rng.choice(["result", "result", "r", "pt"]),
          "rtype": [rng.choice(["double", "float", "int", "xAOD::Jet"]), rng.choice([0, 0, 0, 1, 2]), rng.random() < 0.15],
          "is_coll": rng.random() < 0.25, "method_obj": mo}
    nreps = k
    style = ("method", rng.choice(["j", "e", "obj"])) if is_method else ("func",)
    if rng.random() < 0.08:
        nreps = max(0, k + rng.choice([-1, 1, 2]))
    if rng.random() < 0.06:
        style = ("func",) if is_method else ("method", "j")
    reps = [rng.choice(ARG_TEXTS + args) for _ in range(nreps)]
    fields = []
    if rng.random() < 0.1:
        fields = [["edm::EDGetTokenT<X>", "_tok" + str(i), rng.choice(["consumes<X>(edm::InputTag(x))", "pt", "f(eta, collection_name)"])] for i in range(rng.randint(1, 2))]
    return {"spec": sp, "style": list(style), "recv": rng.choice(["i_obj5", "jet", "i_obj->eta()", "x"]), "reps": reps, "counter": rng.randint(0, 120),
            "incs": rng.sample(["a.h", "z.h", "vector"], rng.randint(0, 2)), "libs": rng.sample(["xAODJet", "L"], rng.randint(0, 1)),
            "fields": fields, "llibs": rng.sample(["xAODJet", "M"], rng.randint(0, 1))}


def shrink_case(case, bad) -> Dict[str, Any]:
    cur = json.loads(json.dumps(case))
    changed = True
    while changed:
        changed = False
        cands = []
        for i in range(len(cur["spec"]["code"])):
            c = json.loads(json.dumps(cur))
            del c["spec"]["code"][i]
            cands.append(c)
        for i, line in enumerate(cur["spec"]["code"]):
            toks = WORD.findall(line)
            for k in range(len(toks)):
                c = json.loads(json.dumps(cur))
                c["spec"]["code"][i] = "".join(toks[:k] + toks[k + 1:])
                cands.append(c)
        if len(cur["reps"]) == len(cur["spec"]["args"]):
            for i in range(len(cur["reps"])):
                c = json.loads(json.dumps(cur))
                del c["reps"][i]
                del c["spec"]["args"][i]
                cands.append(c)
        for key, val in (("fields", []), ("llibs", []), ("incs", []), ("libs", []), ("counter", 0)):
            if cur[key] != val:
                c = json.loads(json.dumps(cur))
                c[key] = val
                cands.append(c)
        if cur["spec"]["includes"]:
            c = json.loads(json.dumps(cur))
            c["spec"]["includes"] = []
            cands.append(c)
        for c in cands:
            if bad(c):
                cur, changed = c, True
                break
    return cur


# ------------------------------------------------------------------------------------------------
# (C) cpp_ast_finder
# ------------------------------------------------------------------------------------------------
def gen_tree(rng: random.Random, depth: int, names: List[str]):
    r = rng.random()
    if depth <= 0 or r < 0.25:
        return rng.choice([["name", rng.choice(["j", "e", "x"] + names)], ["leaf", "1"]])
    if r < 0.4:
        return ["attr", gen_tree(rng, depth - 1, names), rng.choice(names + ["pt"])]
    if r < 0.85:
        f = rng.choice([["name", rng.choice(names + ["g"])], ["attr", ["name", "j"], rng.choice(names + ["pt"])],
                        ["attr", gen_tree(rng, depth - 1, names), rng.choice(names + ["pt"])], gen_tree(rng, depth - 1, names)])
        return ["call", f, [gen_tree(rng, depth - 1, names) for _ in range(rng.randint(0, 3))]]
    return ["node", "tuple", [gen_tree(rng, depth - 1, names) for _ in range(rng.randint(0, 3))]]


def tree_to_ast(t):
    k = t[0]
    if k == "name":
        return ast.Name(id=t[1], ctx=ast.Load())
    if k == "leaf":
        return ast.Constant(value=int(t[1]))
    if k == "attr":
        return ast.Attribute(value=tree_to_ast(t[1]), attr=t[2], ctx=ast.Load())
    if k == "call":
        return ast.Call(func=tree_to_ast(t[1]), args=[tree_to_ast(a) for a in t[2]], keywords=[])
    return ast.Tuple(elts=[tree_to_ast(a) for a in t[2]], ctx=ast.Load())


def ast_to_tree(a):
    import func_adl_xAOD.common.cpp_ast as ca

    if isinstance(a, ast.Name):
        return ["name", a.id]
    if isinstance(a, ast.Constant):
        return ["leaf", str(a.value)]
    if isinstance(a, ast.Attribute):
        return ["attr", ast_to_tree(a.value), a.attr]
    if isinstance(a, ast.Call):
        if isinstance(a.func, ca.CPPCodeValue):
            inst = list(a.func.replacement_instance_obj) if a.func.replacement_instance_obj is not None else []
            return ["cpp", a.func.result, inst, [ast_to_tree(x) for x in a.args]]
        return ["call", ast_to_tree(a.func), [ast_to_tree(x) for x in a.args]]
    return ["node", "tuple", [ast_to_tree(x) for x in a.elts]]


def impl_finder(tbl: List[Tuple[str, Spec]], tree):
    import func_adl_xAOD.common.cpp_ast as ca
    import func_adl_xAOD.common.cpp_types as ctyp

    names = {}
    for n, sp in tbl:
        spec = ca.CPPCodeSpecification(sp["name"], list(sp["includes"]), list(sp["args"]), list(sp["code"]), sp["result"],
                                       ctyp.CPPParsedTypeInfo(*sp["rtype"]), sp["is_coll"], sp["method_obj"])
        names.setdefault(n, (lambda call_node, md=spec: ca.build_CPPCodeValue(md, call_node)))
    try:
        return ["ok", ast_to_tree(ca.cpp_ast_finder(names).visit(tree_to_ast(tree)))]
    except Exception as e:  # noqa: BLE001
        return ["error", type(e).__name__]


# ------------------------------------------------------------------------------------------------
# (D) end to end
# ------------------------------------------------------------------------------------------------
BACKENDS = {"atlas": ('e.Jets("AntiKt4")', "->", "query.cxx"), "cms_aod": ('e.Muons("muons")', ".", "Analyzer.cc"),
            "cms_miniaod": ('e.Muons("slimmedMuons")', ".", "Analyzer.cc")}


def md_of(sp: Spec) -> Dict[str, Any]:
    d = {"metadata_type": "add_cpp_function", "name": sp["name"], "include_files": sp["includes"], "arguments": sp["args"], "code": sp["code"],
         "result_name": sp["result"], "return_type": ("const " if sp["rtype"][2] else "") + sp["rtype"][0] + "*" * sp["rtype"][1]}
    if sp["is_coll"]:
        d["return_is_collection"] = True
    if sp["method_obj"] is not None:
        d["method_object"] = sp["method_obj"]
        d["instance_object"] = "xAOD::Jet_v1"
    return d


# expression trees of the query: ("leaf", python source, kind) | ("call", spec name, style, [args])
def q_src(t) -> str:
    if t[0] == "leaf":
        return t[1]
    inner = ", ".join(q_src(a) for a in t[3])
    return f"j.{t[1]}({inner})" if t[2] == "method" else f"{t[1]}({inner})"


def leaf_cpp(t, var: str, arrow: str) -> str:
    if t[2] == "method":  # j.pt()
        return f"{var}{arrow}{t[1][2:]}"
    return t[1]


def calls_preorder(t, out):
    if t[0] == "call":
        out.append(t)
        for a in t[3]:
            calls_preorder(a, out)
    return out


def extract_loop(text: str) -> Optional[Tuple[str, List[str], List[List[str]]]]:
    """(loop variable, declarations of the loop body, the blocks directly inside it)."""
    lines = [ln.strip() for ln in text.splitlines() if ln.strip()]
    for i, ln in enumerate(lines):
        m = re.match(r"for \(auto &&(\w+) : ", ln)
        if m and i + 1 < len(lines) and lines[i + 1] == "{":
            j = i + 2
            decls = []
            while j < len(lines) and lines[j] != "{" and lines[j].endswith(";") and "=" not in lines[j] and not lines[j].startswith("for "):
                decls.append(lines[j])
                j += 1
            blocks = []
            while j < len(lines) and lines[j] == "{":
                k = j + 1
                blk = []
                while k < len(lines) and lines[k] != "}":
                    blk.append(lines[k])
                    k += 1
                blocks.append(blk)
                j = k + 1
            return m.group(1), decls, blocks
    return None


def e2e_expected(tree, specs: Dict[str, Spec], var: str, arrow: str, decls: List[str]):
    """Expected blocks in emission order, or a description of what is wrong with the declarations."""
    pre = calls_preorder(tree, [])
    names = {}
    pat = re.compile(r".* (?:" + "|".join(re.escape(sp["name"]) for sp in specs.values()) + r")\d+;$")
    decls = [d for d in decls if pat.match(d)]
    if len(decls) < len(pre):
        return None, f"{len(pre)} calls but {len(decls)} result declarations"
    for node, d in zip(pre, decls):
        sp = specs[node[1]]
        ty, nm = d[:-1].rsplit(" ", 1)
        if ty.replace(" ", "") != type_text(sp).replace(" ", "") or not re.fullmatch(re.escape(sp["name"]) + r"\d+", nm):
            return None, f"call of {sp['name']} declared as {d!r}, expected type {type_text(sp)!r}"
        names[id(node)] = nm
    if len(set(names.values())) != len(names):
        return None, f"COLLISION result variables not fresh: {sorted(names.values())}"
    blocks = []

    def go(node) -> str:
        if node[0] == "leaf":
            return leaf_cpp(node, var, arrow)
        sp = specs[node[1]]
        texts = [go(a) for a in node[3]]
        binding = ([(sp["method_obj"], var)] if sp["method_obj"] is not None else []) + list(zip(sp["args"], texts))
        blk = []
        for line in sp["code"]:
            w = spec_subst(binding, line)
            blk.append(w if w.endswith(";") else w + ";")
        blk.append(f"{names[id(node)]} = {sp['result']};")
        blocks.append(blk)
        return names[id(node)]

    go(tree)
    return blocks, None


def run_e2e(backend: str, tree, specs: Dict[str, Spec], builtin: bool = False):
    coll, arrow, fname = BACKENDS[backend]
    tail = ".Count()" if specs[tree[1]].get("count_result") else ""
    src = f"ds.SelectMany(lambda e: {coll}).Select(lambda j: {q_src(tree)}{tail})"
    md = [] if builtin else [md_of(sp) for sp in specs.values()]
    try:
        a = impl.query_ast(src, md)
        r = impl.translate(backend, a)
    except Exception as e:  # noqa: BLE001
        r = ("error", type(e).__name__, str(e)[:200])
    impl.reset_globals()
    return src, md, r, fname, arrow


def tree_valid(tree, specs) -> bool:
    for node in calls_preorder(tree, []):
        sp = specs[node[1]]
        if len(node[3]) != len(sp["args"]) or ((node[2] == "method") != (sp["method_obj"] is not None)):
            return False
    return True


def oracle_e2e(backend, tree, specs, r, fname, arrow) -> Optional[Tuple[str, str, Any]]:
    if not tree_valid(tree, specs):
        if r[0] != "error" or r[1] != "ValueError":
            return ("accepted-bad-call", f"wrong arity / call style not rejected with ValueError: {r[:2] if r[0] == 'error' else 'accepted'}", None)
        return None
    if r[0] != "ok":
        return ("sequential-substitution", f"valid query raised {r[1]}: {r[2]}", None)
    text = r[1]["files"][fname]["text"]
    ex = extract_loop(text)
    if ex is None:
        return ("block-shape", "no loop body found in the emitted code", None)
    var, decls, blocks = ex
    want, why = e2e_expected(tree, specs, var, arrow, decls)
    if want is None:
        return ("result-var-collision" if why.startswith("COLLISION") else "result-type", why, {"declarations": decls})
    got = blocks[: len(want)]
    if got != want:
        for g, w in zip(got, want):
            if g != w:
                return ("sequential-substitution", f"emitted block {g} but the property demands {w}", {"emitted_blocks": got, "expected_blocks": want})
        return ("block-shape", f"{len(got)} blocks emitted, {len(want)} expected", {"emitted_blocks": got, "expected_blocks": want})
    for node in calls_preorder(tree, []):
        for inc in specs[node[1]]["includes"]:
            if f'#include "{inc}"' not in text and f"#include <{inc}>" not in text:
                return ("includes", f"include file {inc} of {node[1]} missing from {fname}", None)
    return None


E2E_PARAMS = ["pt", "eta", "phi", "x", "m", "obj"]
E2E_LEAVES = [("leaf", "j.pt()", "method"), ("leaf", "j.eta()", "method"), ("leaf", "j.phi()", "method"), ("leaf", "1.5", "const"), ("leaf", "2.0", "const")]


def gen_e2e(rng: random.Random):
    specs: Dict[str, Spec] = {}
    for name in rng.sample(["MyF", "Calc", "Gfun"], rng.randint(1, 2)):
        k = rng.randint(1, 3)
        args = rng.sample(E2E_PARAMS, k)
        mo = rng.choice([p for p in E2E_PARAMS if p not in args]) if rng.random() < 0.25 else None
        code = []
        for _ in range(rng.randint(1, 2)):
            toks = ["auto ", rng.choice(["t", "xpt", "pt_2", "v"]) + str(len(code)), " = "]
            for _ in range(rng.randint(1, 4)):
                toks.append(rng.choice(args + ([mo] if mo else []) + ["xpt", "pt_2", "1.0"]))
                toks.append(rng.choice(["*", " + ", " - "]))
            toks.append("1")
            code.append("".join(toks) + rng.choice([";", ""]))
        if mo and rng.random() < 0.6:
            # the C++ TYPE of the receiver named in the code (a cast, a typed local): it is text, not a placeholder - only the
            # formal parameters and the method object are replaced
            code.append(rng.choice([f"const xAOD::Jet_v1 *typed{len(code)} = static_cast<const xAOD::Jet_v1 *>({mo});",
                                    f"auto k{len(code)} = xAOD::Jet_v1::kind({mo});",
                                    f"xAOD::Jet_v1 copy{len(code)}(*{mo});"]))
        if rng.random() < 0.35:
            # a statement that ENDS IN A CLOSING BRACE, sent without its semicolon: every supplied line is one terminated statement
            code.append(rng.choice([f"double arr{len(code)}[2] = {{{args[0]}, 1.0}}", f"auto fn{len(code)} = [&](double q) {{ return q + {args[0]}; }}",
                                    f"struct S{len(code)} {{ double v; }}"]))
        code.append("auto result = " + " + ".join(args) + (f" + {mo}->pt()" if mo and False else "") + ";")
        specs[name] = {"name": name, "includes": rng.sample(["a.h", "b.h"], rng.randint(0, 2)), "args": args, "code": code, "result": "result",
                       "rtype": ["double", 0, False], "is_coll": False, "method_obj": mo}

    def tree(depth):
        name = rng.choice(list(specs))
        sp = specs[name]
        n = len(sp["args"])
        if rng.random() < 0.06:
            n = max(0, n + rng.choice([-1, 1]))
        style = "method" if sp["method_obj"] is not None else "func"
        if rng.random() < 0.05:
            style = "func" if style == "method" else "method"
        args = [tree(depth - 1) if depth > 0 and rng.random() < 0.3 else rng.choice(E2E_LEAVES) for _ in range(n)]
        return ("call", name, style, args)

    t = tree(2)
    if rng.random() < 0.3:
        # a function that returns a COLLECTION: return_type is the ELEMENT type (which may itself be a vector); the result
        # variable must be a std::vector of exactly that element type
        el = rng.choice(["double", "float", "int", "std::vector<float>", "vector<double>", "std::vector<int>", "std::vector<std::vector<float>>"])
        specs["Vfun"] = {"name": "Vfun", "includes": rng.sample(["a.h", "b.h"], rng.randint(0, 1)), "args": ["x"],
                         "code": [f"std::vector<{el}> result;", f"if (x > 0) result.push_back({el}());"], "result": "result",
                         "rtype": [el, 0, False], "is_coll": True, "method_obj": None, "count_result": True}
        t = ("call", "Vfun", "func", [t])
    return t, specs


def builtin_cases():
    import func_adl_xAOD.common.math_utils as mu

    d = mu.DeltaRSpec
    dr = {"name": d.name, "includes": list(d.include_files), "args": list(d.arguments), "code": list(d.code), "result": d.result,
          "rtype": [d.cpp_return_type.name, d.cpp_return_type.pointer_depth, d.cpp_return_type.is_const], "is_coll": False, "method_obj": None}
    L = {n: ("leaf", f"j.{n}()", "method") for n in ("pt", "eta", "phi")}
    out = []
    for be in BACKENDS:
        out.append((be, ("call", "DeltaR", "func", [L["eta"], L["phi"], L["phi"], L["eta"]]), {"DeltaR": dr}))
        out.append((be, ("call", "DeltaR", "func", [("call", "DeltaR", "func", [L["eta"], L["phi"], L["pt"], L["pt"]]), L["phi"], ("leaf", "1.5", "const"), L["eta"]]), {"DeltaR": dr}))
        out.append((be, ("call", "DeltaR", "func", [L["eta"], L["phi"]]), {"DeltaR": dr}))
    # jets: specification read back from the CPPCodeValue the repository builds
    import func_adl_xAOD.atlas.xaod.jets as jets
    import func_adl_xAOD.common.cpp_vars as cvars

    for nm, coll in (("getAttributeFloat", False), ("getAttributeVectorFloat", True)):
        call = ast.Call(func=ast.Attribute(value=ast.Name(id="j"), attr=nm), args=[ast.Constant(value="emf")], keywords=[])
        saved = cvars.unique_var_index
        cv = jets.get_jet_methods()[nm](call).func
        rep = cv.result_rep(None)
        cvars.unique_var_index = saved
        base = re.sub(r"\d+$", "", rep.as_cpp())
        ty = str(rep.cpp_type())
        sp = {"name": base, "includes": list(cv.include_files), "args": list(cv.args), "code": list(cv.running_code), "result": cv.result,
              "rtype": [ty, 0, False], "is_coll": False, "method_obj": cv.replacement_instance_obj[0], "count_result": coll}
        out.append(("atlas", ("call", nm, "method", [("leaf", '"emf"', "const")]), {nm: sp}))
    return out


COLLISION_TREE = None


def collision_case():
    """F12 called when the counter is c and F1 called when it is 10c+k: both results are named F12<c>..."""
    mk = lambda n: {"name": n, "includes": [], "args": ["x"], "code": ["auto result = x;"], "result": "result", "rtype": ["double", 0, False], "is_coll": False, "method_obj": None}  # noqa: E731
    specs = {"F1": mk("F1"), "F12": mk("F12"), "Add2": {"name": "Add2", "includes": [], "args": ["a", "b"], "code": ["auto result = a + b;"], "result": "result",
                                                           "rtype": ["double", 0, False], "is_coll": False, "method_obj": None}}
    f1 = [("call", "F1", "func", [("leaf", f"{i}.0", "const")]) for i in range(2, 16)]
    rest = f1[-1]
    for lf in reversed(f1[:-1]):
        rest = ("call", "Add2", "func", [lf, rest])
    t = ("call", "Add2", "func", [("call", "F12", "func", [("leaf", "1.0", "const")]), rest])
    return t, specs


# ------------------------------------------------------------------------------------------------
def check(tier: str, seed: int, t0: float, build: core.BuildStatus) -> int:
    import logging

    logging.disable(logging.CRITICAL)
    ps = core.proof_status(PROP_FILE, build)
    oc = core.Outcome()
    rng = random.Random(seed * 7919 + 11)
    quick = tier == "quick"
    model = core.Model() if build.model_ok else None
    extra: Dict[str, Any] = {"model_available": model is not None}

    # (A) re model against Python re
    nA = 20000 if quick else 300000
    okA = 0
    errA: Dict[str, int] = {}
    for _ in range(nA):
        p, repl, s = rnd_str(rng, ALPH_A, 3), rnd_str(rng, ALPH_A, 7), rnd_str(rng, ALPH_A, 12)
        if rng.random() < 0.5:
            p = rng.choice(["a", "b_1", "x", "ab", "n7"])
        if rng.random() < 0.3:
            repl = "".join(rng.choice(TEMPLATE_PIECES) for _ in range(rng.randint(1, 4)))
        r = py_resub(p, repl, s)
        oc.evaluations += 1
        errA[r[1] if r[0] == "error" else "ok"] = errA.get(r[1] if r[0] == "error" else "ok", 0) + 1
        if model is not None:
            rm = model.call("c11.resub", [p, repl, s])
            if rm != r:
                oc.correspondence_breaks.append({"what": "re.sub model vs Python re", "pattern_name": p, "template": repl, "subject": s, "python": r, "model": rm})
            else:
                okA += 1
    extra["re_template_cases"] = {"n": nA, "agree": okA, "outcomes": errA}

    # (B) function level
    nB = 12000 if quick else 200000
    distinct = set()
    histB = {"valid_in_scope": 0, "valid_malformed_names": 0, "bad_call": 0, "with_backslash": 0, "interfering": 0}
    okB = 0
    corpus = core.VERIF / "tools" / "corpus" / "c11.json"
    cases = json.loads(corpus.read_text()) if corpus.exists() else []
    n_corpus = len(cases)
    cases += [gen_case(rng, malformed=(i % 4 == 3)) for i in range(nB)]
    seen_fn_keys = set()
    for case in cases:
        ri = impl_call(case)
        oc.evaluations += 1
        valid, scope = case_valid(case), case_in_scope(case)
        histB["bad_call" if not valid else ("valid_in_scope" if scope else "valid_malformed_names")] += 1
        if any("\\" in x for x in case["reps"]):
            histB["with_backslash"] += 1
        if valid and scope and any(a in WORD.findall(t) for a in case["spec"]["args"] for t in case["reps"]):
            histB["interfering"] += 1
        if valid and len(case["spec"]["code"]) >= 1 and len(case["spec"]["args"]) >= 2:
            distinct.add(json.dumps([case["spec"], case["reps"], case["style"]], sort_keys=True))
        bad = oracle_call(case, ri)
        if bad:
            histB["property_failures"] = histB.get("property_failures", 0) + 1
            if model is not None and model_call(model, case, "seq") in (ri, ["ok", [wire(x) if isinstance(x, str) else x for x in ri[1]]] if ri[0] == "ok" else ri):
                histB["failures_predicted_by_sequential_model"] = histB.get("failures_predicted_by_sequential_model", 0) + 1
            if bad[0] in seen_fn_keys:
                continue
            seen_fn_keys.add(bad[0])
            small = shrink_case(case, lambda c: (oracle_call(c, impl_call(c)) or ("",))[0] == bad[0])
            rs = impl_call(small)
            why = oracle_call(small, rs)
            oc.violations.append(core.Violation(
                key="c11:" + bad[0], what=f"process_ast_node on code {small['spec']['code']} with {list(zip(small['spec']['args'], small['reps']))}: {why[1]}",
                replay={"kind": "function", "case": small, "implementation": rs,
                        "model_fixed_code": model_call(model, small) if model else None,
                        "model_sequential_code": model_call(model, small, "seq") if model else None,
                        "broken": "property oracle (tokenise, map all names at once) on the implementation's emitted block; theorem subst_is_simultaneous describes the one-pass code, C11_sequential_refuted the loop"}))
            continue
        if model is not None:
            rm = model_call(model, case)
            if rm != ri and not (ri[0] == "ok" and rm[0] == "ok" and [wire(x) if isinstance(x, str) else x for x in ri[1]] == rm[1]):
                oc.correspondence_breaks.append({"what": "build_CPPCodeValue+process_ast_node vs model", "case": case, "implementation": ri, "model": rm})
            else:
                okB += 1
    extra["function_level"] = {"n": len(cases), "corpus": n_corpus, "agree_with_model": okB, "classes": histB}

    # (C) finder
    nC = 4000 if quick else 60000
    okC = 0
    histC = {"ok": 0, "ValueError": 0}
    for _ in range(nC):
        tbl = []
        for n in rng.sample(["F", "G", "M"], rng.randint(1, 3)):
            k = rng.randint(0, 2)
            tbl.append((n, {"name": n, "includes": [], "args": ["p%d" % i for i in range(k)], "code": [], "result": "res_" + n, "rtype": ["double", 0, False],
                            "is_coll": False, "method_obj": "obj" if (n == "M" or rng.random() < 0.2) else None}))
        tree = gen_tree(rng, 3, [n for n, _ in tbl])
        ri = impl_finder(tbl, tree)
        oc.evaluations += 1
        histC[ri[1] if ri[0] == "error" else "ok"] = histC.get(ri[1] if ri[0] == "error" else "ok", 0) + 1
        if model is not None:
            rm = model.call("c11.finder", [[[n, spec_wire(sp)] for n, sp in tbl], tree])
            if rm != ri:
                oc.correspondence_breaks.append({"what": "cpp_ast_finder vs model", "table": tbl, "tree": tree, "implementation": ri, "model": rm})
            else:
                okC += 1
    extra["finder"] = {"n": nC, "agree_with_model": okC, "outcomes": histC}

    # (D) end to end
    nD = 240 if quick else 3000
    e2e = {"ok": 0, "rejected_as_demanded": 0, "builtin_ok": 0, "nested": 0, "repeated_or_multi_call": 0}
    seen_e2e = set()

    def one(backend, tree, specs, builtin=False):
        src, md, r, fname, arrow = run_e2e(backend, tree, specs, builtin)
        oc.evaluations += 1
        bad = oracle_e2e(backend, tree, specs, r, fname, arrow)
        if bad is None:
            if not tree_valid(tree, specs):
                e2e["rejected_as_demanded"] += 1
            else:
                e2e["builtin_ok" if builtin else "ok"] += 1
                oc.traces_validated_against_impl += 1
                if len(calls_preorder(tree, [])) >= 2:
                    distinct.add(src + json.dumps(md, sort_keys=True))
            return
        if bad[0] in seen_e2e:
            if bad[0] == "result-var-collision":
                return
            return
        seen_e2e.add(bad[0])
        oc.violations.append(core.Violation(
            key="c11:" + bad[0], what=f"{backend}: {src}: {bad[1]}",
            replay={"kind": "e2e", "backend": backend, "tree": tree, "specs": specs, "builtin": builtin, "query": src, "metadata": md,
                    "outcome": (r[:3] if r[0] == "error" else "ok"), "detail": bad[2],
                    "broken": "property oracle on the emitted package (theorems C11_call_site / subst_is_simultaneous describe the one-pass code)"}))

    # directed: the documented swap on every backend
    swap = {"MyF": {"name": "MyF", "includes": ["a.h"], "args": ["pt", "eta"], "code": ["auto xpt = pt + pt_2;", "auto result = xpt*eta;"], "result": "result",
                    "rtype": ["double", 0, False], "is_coll": False, "method_obj": None}}
    for be in BACKENDS:
        one(be, ("call", "MyF", "func", [("leaf", "j.eta()", "method"), ("leaf", "j.pt()", "method")]), swap)
    for i in range(nD):
        tree, specs = gen_e2e(rng)
        n_calls = len(calls_preorder(tree, []))
        if n_calls >= 2:
            e2e["repeated_or_multi_call"] += 1
        if any(a[0] == "call" for a in tree[3]):
            e2e["nested"] += 1
        one(list(BACKENDS)[i % 3], tree, specs)
    for be, tree, specs in builtin_cases():
        one(be, tree, specs, builtin=True)
    ct, cs = collision_case()
    import func_adl_xAOD.common.cpp_vars as cvars

    saved = cvars.unique_var_index
    cvars.unique_var_index = 0
    one("atlas", ct, cs)
    cvars.unique_var_index = max(saved, cvars.unique_var_index)
    extra["end_to_end"] = dict(e2e, n=nD + 3 + len(builtin_cases()) + 1)
    # (E) a call site whose code is generated more than once (a sequence consumed twice): every copy is substituted afresh,
    # with the names of the loop it sits in - checked with the Coq-defined scope checker of C02 on the emitted program
    twice = 0
    if model is not None:
        from .. import cxx, qgen as _qgen, semrun
        from . import c02 as _c02

        fmd = {"metadata_type": "add_cpp_function", "name": "fv_twice", "include_files": [], "arguments": ["x"], "code": ["auto result = x * 2.0;"], "return_type": "double"}
        for be in BACKENDS:
            coll = BACKENDS[be][0]
            shapes = [f"ds.Select(lambda e: {coll}.Select(lambda j: fv_twice(j.pt()))).Select(lambda vs: (vs.Count(), vs.Sum()))",
                      f"ds.Select(lambda e: {coll}.Where(lambda j: fv_twice(j.eta()) < 1.0)).Select(lambda js: (js.Count(), js.Select(lambda k: k.pt())))",
                      f"ds.Select(lambda e: {coll}.Select(lambda j: fv_twice(j.pt()) + fv_twice(j.eta()))).Select(lambda vs: (vs.Sum(), vs.Count(), vs.Select(lambda v: v * 2)))"]
            if be == "atlas":
                shapes.append(f"ds.Select(lambda e: {coll}.Where(lambda j: DeltaR(j.eta(), j.phi(), 0.0, 0.0) < 0.4)).Select(lambda js: (js.Count(), js.Select(lambda k: k.pt())))")
            for src in shapes:
                a = impl.query_ast(src, [fmd])
                r = impl.translate(be, a)
                impl.reset_globals()
                oc.evaluations += 1
                twice += 1
                rep = {"kind": "twice", "backend": be, "query": src, "metadata": [fmd]}
                if r[0] != "ok":
                    oc.violations.append(core.Violation(key="c11:twice-refused", what=f"{be}: {src} refused: {r[1:]}", replay=rep))
                    continue
                try:
                    prog, ql = cxx.parse_program(be, r[1]["slots"])
                    semrun._resolve_tokens(prog)
                    res = model.call("c02.check", [prog, _c02.method_table(_qgen.Universe(be))])
                    bad_scope = ([f"{x[0]}: {n}" for x in res[1:] if x[0] in ("well_scoped", "unique_decls") for n in x[1]] if res[0] == "ok" else [f"model refused the program: {res}"])
                except cxx.ParseError as e:
                    bad_scope = [f"emitted code outside the C++ subset: {e}"]
                if bad_scope:
                    oc.violations.append(core.Violation(
                        key="c11:second-copy-not-substituted", what=f"{be}: a call site generated twice: the emitted code is not well-scoped ({bad_scope[0][:120]}) - {src}",
                        replay={**rep, "static_checker": bad_scope[:4], "emitted": [str(x) for x in r[1]["slots"].get("query_code", [])]}))
                else:
                    oc.traces_validated_against_impl += 1
    extra["call_sites_generated_twice"] = twice
    # (F) an injected METHOD called in the second of two consecutive Where steps (func_adl fuses them into one lambda with a fresh
    # parameter): the method object is the element of the loop the call sits in - the innermost one - also when the same
    # parameter name is bound further out
    fused = 0
    mmd = {"metadata_type": "add_cpp_function", "name": "fv_m", "include_files": [], "arguments": ["k"], "code": ["auto result = fv_get(obj_j) * k;"],
           "return_type": "double", "method_object": "obj_j", "instance_object": "xAOD::Jet_v1"}
    for be in BACKENDS:
        coll = BACKENDS[be][0]
        shapes = [f"ds.Select(lambda e: {coll}.Where(lambda j: j.pt() > 1.0).Where(lambda j: j.fv_m(2.0) < 9.0).Count())",
                  f"ds.Select(lambda e: {coll}.Where(lambda a: a.pt() > 1.0).Where(lambda b: b.fv_m(2.0) < 9.0).Select(lambda c: c.fv_m(3.0)))",
                  f"ds.Select(lambda e: {coll}.Select(lambda j: {coll}.Where(lambda t: t.pt() > j.pt()).Where(lambda j: j.fv_m(1.0) < 3.0).Count()))"]
        for src in shapes:
            try:
                r = impl.translate(be, impl.query_ast(src, [mmd]))
            except Exception as e:  # noqa: BLE001
                r = ("error", type(e).__name__, str(e)[:200])
            impl.reset_globals()
            oc.evaluations += 1
            fused += 1
            rep = {"kind": "twice", "backend": be, "query": src, "metadata": [mmd]}
            if r[0] != "ok":
                oc.violations.append(core.Violation(key="c11:fused-where-refused", what=f"{be}: a valid query with an injected method in the second of two Where steps is refused: {r[1:]} - {src}", replay=rep))
                continue
            lines = [str(x).strip() for x in r[1]["slots"].get("query_code", []) if str(x).strip()]
            bad = None
            for i, ln in enumerate(lines):
                m = re.match(r"auto result = fv_get\((\w+)\) \* ", ln)
                if not m:
                    continue
                depth, var = 0, None
                for back in range(i - 1, -1, -1):
                    if lines[back] == "}":
                        depth += 1
                    elif lines[back] == "{":
                        if depth:
                            depth -= 1
                        elif back > 0:
                            f = re.match(r"for \(auto &&(\w+) : ", lines[back - 1])
                            if f:
                                var = f.group(1)
                                break
                if var is not None and m.group(1) != var:
                    bad = f"the method object of {ln!r} is {m.group(1)}, the element of the loop it sits in is {var}"
            if bad:
                oc.violations.append(core.Violation(key="c11:wrong-receiver", what=f"{be}: {bad} - {src}", replay={**rep, "emitted": lines}))
            else:
                oc.traces_validated_against_impl += 1
    extra["injected_method_in_fused_where"] = fused

    if model is not None:
        model.close()
    oc.violations.sort(key=lambda v: 0 if v.replay.get("kind") == "e2e" else 1)  # prefer the query-level replay of a class
    oc.distinct_nontrivial = len(distinct)
    oc.rule = (f"(A) {nA} random (name, template, subject) triples over the alphabet {''.join(ALPH_A)!r} against Python re; "
               f"(B) corpus ({n_corpus}) + {nB} generated specifications x call sites (0-4 parameter names from a pool that overlaps the argument texts, 25% malformed-name stream, "
               f"8% wrong arity, 6% wrong style, argument texts with backslashes, fields, include/library lists) through build_CPPCodeValue + process_ast_node with the real generated_code; "
               f"(C) {nC} random call trees of depth <= 3 through cpp_ast_finder; (D) {nD} generated queries + swap/built-in/collision cases through the three executors; "
               f"non-trivial = valid call with >= 2 parameters and >= 1 code line (B) or >= 2 call sites (D); distinct by value")
    oc.samples = [cases[n_corpus], cases[n_corpus + 1], {"query": q_src(gen_e2e(random.Random(seed))[0])}]
    oc.extra = extra
    known_keys = {k["key"] for k in core.known_findings() if k.get("property") == PID and k.get("status") == "known"}
    if not [v for v in oc.violations if v.key not in known_keys] and (ps.broken or oc.correspondence_breaks or model is None or core.build_hygiene_cache()):
        what = ps.broken or (f"correspondence: {json.dumps(oc.correspondence_breaks[0], default=str)[:700]}" if oc.correspondence_breaks else
                             ("hygiene gate: " + "; ".join(core.build_hygiene_cache()) if core.build_hygiene_cache() else "model executable could not be built"))
        oc.violations.append(core.Violation(key="c11:unproved", what=what, no_failing_input=True,
                                            replay={"broken": what, "searched": f"{oc.evaluations} inputs with the property oracle, none failed"}))
    elif oc.violations and (ps.broken or oc.correspondence_breaks):
        extra["also_broken"] = ps.broken or oc.correspondence_breaks[0]
    return core.finish(PID, tier, seed, t0, ps, build, oc, TRUSTED, ASSUME)


def replay(path: str, build: core.BuildStatus) -> int:
    import logging

    logging.disable(logging.CRITICAL)
    data = json.loads(open(path).read())
    if data.get("no_failing_input_found"):
        print(f"replay names a broken obligation only: {data.get('broken')}")
        ps = core.proof_status(PROP_FILE, build)
        print("proof status now:", ps.broken or "all theorems check")
        return 1 if ps.broken else 0
    if data.get("kind") == "function":
        case = data["case"]
        ri = impl_call(case)
        print("specification:", json.dumps(case["spec"]))
        print("call:", case["style"], "receiver C++:", case["recv"], "argument C++:", case["reps"])
        print("implementation:", ri)
        if build.model_ok:
            m = core.Model()
            print("model (one-pass code):", model_call(m, case))
            print("model (sequential loop):", model_call(m, case, "seq"))
            m.close()
        why = oracle_call(case, ri)
        print("oracle:", why[1] if why else "property holds on this input")
        bad = why is not None
    else:
        def tup(t):
            return ("leaf", t[1], t[2]) if t[0] == "leaf" else ("call", t[1], t[2], [tup(a) for a in t[3]])

        tree, specs, backend = tup(data["tree"]), data["specs"], data["backend"]
        if data.get("key") == "c11:result-var-collision":
            import func_adl_xAOD.common.cpp_vars as cvars

            cvars.unique_var_index = 0
        src, md, r, fname, arrow = run_e2e(backend, tree, specs, data.get("builtin", False))
        print("backend:", backend)
        print("query:", src)
        print("metadata:", json.dumps(md))
        why = oracle_e2e(backend, tree, specs, r, fname, arrow)
        if r[0] == "ok":
            ex = extract_loop(r[1]["files"][fname]["text"])
            print("emitted loop body:", json.dumps(ex, indent=1) if ex else "?")
        else:
            print("outcome:", r)
        print("oracle:", why[1] if why else "property holds on this input")
        bad = why is not None
    if bad:
        print(f"VIOLATION property={PID} replay={path}")
        return 1
    return 0
