"""C02 - every accepted query yields a complete, self-consistent, compilable package.

Proved (coq/Properties/C02.v over coq/Cpp/Static.v, Exec.v): the static checkers unique_decls / well_scoped /
types_ok are sound for the execution semantics, for ALL IR programs x all events x all member states x all
event sequences.  Sampled (this file): the extracted checkers (`c02.check`) are run on the program parsed from
what the implementation emits NOW for generated queries on the three backends - translation validation.
Tested (runtime facts): file set, mode bit of the entry script, residual template directives, slot/file tie,
booking lines.  Thorough tier: g++ -fsyntax-only of the raw emitted text against a stand-in data model
generated from qgen.Universe is the independent oracle of "compilable" and validates the checkers."""
import ast
import collections
import hashlib
import json
import os
import random
import re
import shutil
import subprocess
import time
from pathlib import Path
from typing import Any, Dict, List, Optional, Tuple

from .. import core, cxx, impl, qgen, semrun

PID = "C02"
PROP_FILE = "Properties/C02.v"
BACKENDS = ["atlas", "cms_aod", "cms_miniaod"]
ALLOW = ["range", "first", "aggregate", "int_true_division", "selectmany_seq_column", "selectmany_inside", "shared_shapes", "index", "flatseq"]
TRUSTED = [
    "Coq 8.16.1 kernel (coqc); vm_compute only in the witness Examples",
    "Cpp/IR.v + Cpp/Exec.v as the meaning of the emitted C++ subset (shared with C01/C03-C05); the theorems are about Exec, g++ validates the checkers' verdicts on samples",
    "emitted-text -> IR parser tools/fv/cxx.py (fail-closed, every program re-printed by the extracted Coq printer and compared line by line with the emitted text)",
    "extraction (ExtrOcamlBasic, ExtrOcamlString) + ocaml/main.ml driver + S-expression codec",
    "forall-queries part is SAMPLED (generator tools/fv/qgen.py + the % / outer-summand templates of this file); forall-events / forall-histories part is proved",
    "g++ 12 -std=c++17 -fsyntax-only against a stand-in data model generated from qgen.Universe (the property says 'as declared'; the real ATLAS/CMS headers are absent)",
]
ASSUME = [
    "types_ok_sound: events respect the declared data model (a method declared int/bool never yields a double: ev_ok) and the member state is well typed (true of the initial state, preserved - proved)",
    "package completeness, mode bits, residual directives and the slot/file tie are runtime facts: tested, not proved (generic rendering theorem is C14's)",
]


# ------------------------------------------------------------------------------------------------
# queries
# ------------------------------------------------------------------------------------------------
def method_table(uni: qgen.Universe) -> List[List[str]]:
    mt = [[m, "double"] for m in uni.dbl_methods] + [["color", "MyNS::Color"]]
    for m, t in uni.declared.items():
        if not t.startswith("vec_"):
            mt.append([m, t])
    return mt


def seeded(uni: qgen.Universe) -> List[Tuple[str, set]]:
    """Small fixed queries: one per defect family and their well-formed neighbours."""
    cs = list(uni.colls)
    a, b = cs[0], cs[1]
    return [
        # a math function of several arguments whose LATER argument lives deeper than the first (inside a First() loop)
        (f'ds.Select(lambda e: atan2(e.{a}("b1").Count(), e.{b}("b2").First().phi()))', {"first", "math2"}),
        (f'ds.Select(lambda e: hypot(2.0, e.{a}("b1").First().pt()) + 1)', {"first", "math2"}),
        (f'ds.Select(lambda e: (pow(e.{a}("b1").First().eta(), e.{b}("b1").First().eta()), e.{a}("b1").Count()))', {"first", "math2"}),
        (f'ds.Select(lambda e: e.{a}("b1").Select(lambda j: j.nTrk() % 2))', {"mod"}),
        (f'ds.Select(lambda e: e.{a}("b1").Select(lambda j: j.pt() % 2))', {"mod"}),
        (f'ds.Select(lambda e: e.{a}("b1").Count() % 3)', {"mod"}),
        (f'ds.Select(lambda e: e.{a}("b1").Select(lambda j: e.{b}("b1").Select(lambda t: j.eta()).Sum()))', set()),
        (f'ds.Select(lambda e: e.{a}("b1").Select(lambda s2: e.{b}("b1").Select(lambda s4: e.{a}("b1").Select(lambda s5: s2.eta()).Sum()).Sum()))', set()),
        (f'ds.Select(lambda e: {{"a": e.{a}("b1").Select(lambda j: j.pt()), "b": e.{b}("b2").Count()}})', set()),
        (f'ds.Select(lambda e: {{"a": e.{a}("b1").First().pt(), "b": Range(0, 3).Select(lambda r: r*2)}})', {"first", "range"}),
        (f'ds.Select(lambda e: DeltaR(e.{a}("b1").First().eta(), e.{a}("b1").First().phi(), 1.0, 2.0))', {"inject"}),
        (f'ds.Select(lambda e: fv_mix(e.{a}("b1").First().eta(), e.{b}("b2").Count()))', {"inject"}),
        (f'ds.Select(lambda e: e.{a}("b1").Select(lambda o: DeltaR(o.eta(), o.phi(), e.{b}("b1").First().eta(), e.{b}("b1").First().phi())))', {"inject"}),
        # a method with a tree_type override (C++ enum stored as int) as scalar, 1-D and 2-D column: the class member, the
        # local vectors and what is pushed into them must agree
        (f'ds.SelectMany(lambda e: e.{a}("b1")).Select(lambda j: j.color())', {"tree_type"}),
        (f'ds.Select(lambda e: e.{a}("b1").Select(lambda j: j.color()))', {"tree_type"}),
        (f'ds.Select(lambda e: e.{a}("b1").Select(lambda j: j.hits().Select(lambda h: j.color())))', {"tree_type"}),
        (f'ds.Select(lambda e: e.{a}("b1").Select(lambda j: e.{b}("b1").Select(lambda t: t.color())))', {"tree_type"}),
        # one collection call whose code is generated twice: first inside a loop (Range) and again at event level (the cached
        # value is not visible there); what it declares at class level (miniAOD: the token) is still declared once
        (f'ds.Select(lambda e: e.{a}("b1")).Select(lambda ms: (Range(0, 2).Select(lambda i: ms.Count()), ms.Count()))', {"range", "revisit"}),
        (f'ds.Select(lambda e: e.{a}("b1")).Select(lambda ms: (Range(0, 2).Select(lambda i: ms.Select(lambda m: m.pt()).Sum()), ms.Select(lambda m: m.eta())))', {"range", "revisit"}),
        # strings with characters that need escaping (or that look like comment / line boundaries) as bank, tree and label: the
        # generated source is still well-formed
        (f'ds.Select(lambda e: e.{a}(\'Calib"Jets\').Count()).AsROOTTTree("f.root", \'my"tree\', ["n"])', {"odd_strings"}),
        (f'ds.Select(lambda e: e.{a}("back\\\\slash//x").Select(lambda j: j.pt())).AsROOTTTree("f.root", "t\\\\", ["a\\"b"])', {"odd_strings"}),
        (f'ds.Select(lambda e: e.{a}("line\\u2028sep").Count())', {"odd_strings"}),
        # column labels that are not C++ identifiers: the class member that stores the column still has a C++ name
        (f'ds.Select(lambda e: (e.{a}("b1").Count(), e.{b}("b1").Select(lambda t: t.pt()))).AsROOTTTree("f.root", "t", ["n-jets", "trk.pt"])', {"odd_labels"}),
        (f'ds.Select(lambda e: e.{a}("b1").Count()).AsROOTTTree("f.root", "my tree", ["n jets"])', {"odd_labels"}),
        ((f'ds.Select(lambda e: e.{a}("b1").First().getAttributeFloat("emf"))' if uni.backend == "atlas"
          else f'ds.Select(lambda e: isNonnull(e.{a}("b1").First()))'), {"inject"}),
    ]


def mod_query(rng: random.Random, uni: qgen.Universe) -> Tuple[str, set]:
    c = rng.choice(list(uni.colls))
    ops = ["j.nTrk()", "j.nTrk()", "j.hits().Sum()", "j.pt()", "j.charge()", "2", "3", "2.5", f'e.{c}("b2").Count()']
    x, y = rng.choice(ops), rng.choice(ops)
    k = rng.random()
    if k < 0.6:
        return f'ds.Select(lambda e: e.{c}("b1").Select(lambda j: ({x} % {y})))', {"mod"}
    if k < 0.8:
        return f'ds.Select(lambda e: e.{c}("b1").Where(lambda j: ({x} % {y}) == 0).Select(lambda j: j.pt()))', {"mod"}
    return f'ds.Select(lambda e: e.{c}("b1").Select(lambda j: (({x} + 1) % {y}) * 2))', {"mod"}


def outer_summand_query(rng: random.Random, uni: qgen.Universe) -> Tuple[str, set]:
    cs = list(uni.colls)
    a, b, c = rng.choice(cs), rng.choice(cs), rng.choice(cs)
    m = rng.choice(uni.dbl_methods)
    agg = rng.choice([".Sum()", ".Sum()", ".Aggregate(0.0, lambda acc, v: acc + v*2)"])
    k = rng.random()
    if k < 0.4:
        return f'ds.Select(lambda e: e.{a}("b1").Select(lambda o: e.{b}("b1").Select(lambda s: e.{c}("b1").Select(lambda t: o.{m}()){agg})))', set()
    if k < 0.7:
        return f'ds.Select(lambda e: e.{a}("b1").Select(lambda o: e.{b}("b1").Where(lambda w: e.{c}("b2").Select(lambda t: o.{m}()){agg} > 1).Count()))', set()
    return f'ds.Select(lambda e: e.{a}("b1").Select(lambda o: (o.{m}() if o.nTrk() > 1 else e.{b}("b1").Select(lambda s: (e.{c}("b1").Select(lambda t: s.{m}()){agg} if s.isGood() else 1.0)).Sum())))', {"ifexp"}

# the first line is a statement that ends in a closing brace and is sent WITHOUT its semicolon (the translator terminates every line)
MIX_MD = {"metadata_type": "add_cpp_function", "name": "fv_mix", "include_files": [], "arguments": ["a", "b"],
          "code": ["double fv_pair[2] = {a*2.0, b}", "auto result = fv_pair[0] + fv_pair[1];"], "return_type": "double"}


def user_block_errors(prog) -> List[str]:
    """Every line of an injected C++ function's block is a terminated statement (each supplied line is one statement; the translator
    adds the semicolon when the line was sent without one)."""
    out: List[str] = []

    def walk(x):
        if isinstance(x, list):
            if len(x) >= 2 and x[0] == "user" and isinstance(x[1], list) and all(isinstance(l, str) for l in x[1]):
                for ln in x[1]:
                    if not ln.rstrip().endswith(";"):
                        out.append(ln.strip())
            else:
                for y in x:
                    walk(y)

    walk(prog)
    return out


# two inject_code blocks whose code lines repeat (closing braces, the same guard in two places, #if/#endif pairs): every line is
# C++ text that must reach the files as often as it was sent, or the package no longer compiles
INJECT_BLOCKS = [
    {"metadata_type": "inject_code", "name": "fv_blk_a", "body_includes": ["vector"], "header_includes": ["vector"],
     "private_members": ["struct fv_a_t {", "int n;", "};", "fv_a_t m_fv_a;", "#ifdef FV_EXTRA", "int m_fv_extra_a;", "#endif"],
     "instance_initialization": ["m_fv_a()"],
     "ctor_lines": ["if (name.size() > 3) {", "m_fv_a.n = 1;", "}", "else {", "m_fv_a.n = 2;", "}"],
     "initialize_lines": ["for (int fv_i = 0; fv_i < 2; fv_i++) {", "m_fv_a.n += fv_i;", "}"]},
    {"metadata_type": "inject_code", "name": "fv_blk_b", "body_includes": ["vector", "string"], "header_includes": ["string"],
     "private_members": ["struct fv_b_t {", "int n;", "};", "fv_b_t m_fv_b;", "#ifdef FV_EXTRA", "int m_fv_extra_b;", "#endif"],
     "instance_initialization": ["m_fv_b()"],
     "ctor_lines": ["if (name.size() > 3) {", "m_fv_b.n = 1;", "}"],
     "initialize_lines": ["for (int fv_i = 0; fv_i < 2; fv_i++) {", "m_fv_b.n += fv_i;", "}"]},
]


def metadata(uni: qgen.Universe):
    """Universe metadata + one two-argument injected C++ function (a CPPCodeValue like the built-in DeltaR) + two code blocks."""
    return uni.metadata() + [MIX_MD] + INJECT_BLOCKS


def cpp_balance(text: str) -> Optional[str]:
    """None if (), [] and {} nest properly in the C++ text outside comments, string and character literals, and every
    #if/#ifdef/#ifndef has its #endif; otherwise what is wrong."""
    stack: List[Tuple[str, int]] = []
    pairs = {")": "(", "]": "[", "}": "{"}
    i, n, line = 0, len(text), 1
    cond = 0
    while i < n:
        ch = text[i]
        if ch == "\n":
            line += 1
            i += 1
        elif text.startswith("//", i):
            j = text.find("\n", i)
            i = n if j < 0 else j
        elif text.startswith("/*", i):
            j = text.find("*/", i + 2)
            if j < 0:
                return f"line {line}: comment never closed"
            line += text.count("\n", i, j)
            i = j + 2
        elif ch == '"' or (ch == "'" and not (i > 0 and text[i - 1].isalnum())):
            j = i + 1
            while j < n and text[j] != ch:
                if text[j] == "\n":
                    return f"line {line}: literal not closed on its line"
                j += 2 if text[j] == "\\" else 1
            if j >= n:
                return f"line {line}: literal never closed"
            i = j + 1
        elif ch == "#" and text[:i].rsplit("\n", 1)[-1].strip() == "":
            j = text.find("\n", i)
            d = text[i + 1 : n if j < 0 else j].strip()
            if re.match(r"if(def|ndef)?\b", d):
                cond += 1
            elif d.startswith("endif"):
                cond -= 1
                if cond < 0:
                    return f"line {line}: #endif without #if"
            i = n if j < 0 else j
        elif ch in "([{":
            stack.append((ch, line))
            i += 1
        elif ch in ")]}":
            if not stack or stack[-1][0] != pairs[ch]:
                return f"line {line}: {ch!r} closes nothing" if not stack else f"line {line}: {ch!r} closes {stack[-1][0]!r} opened on line {stack[-1][1]}"
            stack.pop()
            i += 1
        else:
            i += 1
    if stack:
        return f"{stack[-1][0]!r} opened on line {stack[-1][1]} is never closed"
    if cond:
        return f"{cond} #if without #endif"
    return None


def _inj_arg(rng: random.Random, uni: qgen.Universe, outer: Optional[str]) -> str:
    """A scalar argument whose translation opens loops / ifs (First, Count, Sum, conditional) or not."""
    c = rng.choice(list(uni.colls))
    b = rng.choice(["b1", "b2"])
    m = rng.choice(uni.dbl_methods)
    k = rng.random()
    if outer is not None and k < 0.2:
        return f"{outer}.{m}()"
    if k < 0.5:
        return f'e.{c}("{b}").First().{m}()'
    if k < 0.6:
        return f'e.{c}("{b}").Where(lambda w: w.{m}() > 1).First().{m}()'
    if k < 0.7:
        return f'e.{c}("{b}").Count()'
    if k < 0.8:
        return f'e.{c}("{b}").Select(lambda s: s.{m}()).Sum()'
    if k < 0.9:
        return f'(1.5 if e.{c}("{b}").Count() > 1 else e.{c}("{b}").First().{m}())'
    return rng.choice(["1.0", "2.0", "0.5"])


def _inj_call(rng: random.Random, uni: qgen.Universe, outer: Optional[str]) -> str:
    k = rng.random()
    a = lambda: _inj_arg(rng, uni, outer)  # noqa: E731
    if k < 0.4:
        return f"DeltaR({a()}, {a()}, {a()}, {a()})"
    if k < 0.75:
        return f"fv_mix({a()}, {a()})"
    c = rng.choice(list(uni.colls))
    obj = outer if (outer is not None and rng.random() < 0.4) else f'e.{c}("b1").First()'
    if uni.backend == "atlas":
        return f'{obj}.getAttributeFloat("emf")'
    return f"isNonnull({obj})"


def inject_query(rng: random.Random, uni: qgen.Universe) -> Tuple[str, set]:
    """Injected C++ calls (DeltaR, a metadata C++ function, getAttributeFloat / isNonnull) whose arguments open
    loops and ifs, as event-level scalar columns and inside Select / Where of an outer loop."""
    c = rng.choice(list(uni.colls))
    k = rng.random()
    feat = {"inject"}
    if k < 0.3:
        return f"ds.Select(lambda e: {_inj_call(rng, uni, None)})", feat
    if k < 0.5:
        return f'ds.Select(lambda e: {{"a": {_inj_call(rng, uni, None)}, "b": e.{c}("b1").Select(lambda j: j.pt()), "c": {_inj_call(rng, uni, None)}}})', feat
    if k < 0.75:
        return f'ds.Select(lambda e: e.{c}("b1").Select(lambda o: {_inj_call(rng, uni, "o")}))', feat
    if k < 0.9:
        return f'ds.Select(lambda e: e.{c}("b1").Where(lambda o: {_inj_call(rng, uni, "o")} > 0.5).Select(lambda o: o.pt()))', feat
    return f'ds.Select(lambda e: ({_inj_call(rng, uni, None)} + e.{c}("b2").Count()) * 2)', feat


class _Feat(ast.NodeVisitor):
    """Query-source features used to key findings (predicates on the input, not on the output)."""

    def __init__(self):
        self.feat = set()
        self.scope: List[str] = []

    def visit_BinOp(self, n):
        if isinstance(n.op, ast.Mod):
            self.feat.add("mod")
        self.generic_visit(n)

    def visit_Call(self, n):
        # X.Select(lambda v: body).Sum() / .Aggregate(...) whose body does not mention v but mentions an
        # enclosing lambda's object variable
        f = n.func
        if isinstance(f, ast.Attribute) and f.attr in ("Sum", "Aggregate", "Max", "Min") and isinstance(f.value, ast.Call):
            inner = f.value
            if isinstance(inner.func, ast.Attribute) and inner.func.attr == "Select" and inner.args and isinstance(inner.args[0], ast.Lambda):
                lam = inner.args[0]
                v = lam.args.args[0].arg
                names = {x.id for x in ast.walk(lam.body) if isinstance(x, ast.Name)}
                if v not in names and any(s in names for s in self.scope[1:]):
                    self.feat.add("agg_summand_outer_only")
        self.generic_visit(n)

    def visit_Lambda(self, n):
        self.scope.extend(a.arg for a in n.args.args)
        self.generic_visit(n)
        for _ in n.args.args:
            self.scope.pop()


def source_features(src: str) -> set:
    f = _Feat()
    try:
        f.visit(ast.parse(src, mode="eval"))
    except SyntaxError:
        pass
    return f.feat


# ------------------------------------------------------------------------------------------------
# runtime facts about the package (tested)
# ------------------------------------------------------------------------------------------------
_TOKEN_INIT = re.compile(r'^\w+ = consumes<[^()]*>\(edm::InputTag\("(?:[^"\\]|\\.)*"\)\);$')
_DIRECTIVE = re.compile(r"\{\{|\{%|\{#")


def _norm(lines: List[str]) -> List[str]:
    return [l.rstrip() for l in lines if l.strip() != ""]


BALANCE_DISAGREEMENTS: List[Dict[str, Any]] = []


def package_errors(backend: str, pkg: Dict[str, Any], model=None) -> List[Tuple[str, str]]:
    """(class, description) for every completeness / consistency failure of the written package."""
    out: List[Tuple[str, str]] = []
    files = pkg["files"]
    for f in pkg["all_filenames"]:
        if f not in files:
            out.append(("missing-file", f"{f} is listed in all_filenames but was not written"))
    ms = pkg["main_script"]
    if ms not in pkg["all_filenames"]:
        out.append(("main-script", f"main_script {ms!r} is not among all_filenames"))
    elif ms in files and files[ms]["mode"] != 0o755:
        out.append(("main-script-mode", f"main_script {ms!r} has mode {oct(files[ms]['mode'])}, not 0o755"))
    injected = "".join(str(x) for v in pkg["slots"].values() if isinstance(v, list) for x in v)
    if not _DIRECTIVE.search(injected):
        for f, d in files.items():
            m = _DIRECTIVE.search(d["text"])
            if m:
                out.append(("template-directive", f"{f} still contains {m.group(0)!r} after rendering"))
    # tie between the slots (what the checkers read) and the rendered files (what the compiler reads):
    # the rendered file must contain, contiguously, loop-body(item) for every item of the slot, in order
    tdir = core.REPO / cxx.TEMPLATE_DIRS[backend]
    seen = set()
    for fname, f in files.items():
        tp = tdir / fname
        if not tp.exists():
            continue
        ttext = tp.read_text()
        if "{%" not in ttext:
            continue
        try:
            _, loops = cxx._template_regex(ttext)
        except cxx.ParseError as e:
            out.append(("slot-file-tie", f"template {fname} is outside the mini-Jinja subset: {e}"))
            continue
        for seq, pre, post in loops:
            if seq not in ("query_code", "book_code", "class_decl"):
                continue
            seen.add(seq)
            items = [str(x) for x in pkg["slots"].get(seq, [])]
            region = "".join(pre + it + post for it in items)
            if region not in f["text"]:
                out.append(("slot-file-tie", f"rendered {fname} does not contain the {len(items)} {seq} lines the executor produced"))
    for seq in ("query_code", "book_code", "class_decl"):
        if seq not in seen:
            out.append(("slot-file-tie", f"no rendered template file has a loop over {seq}"))
    # every rendered C++ file is at least bracket- and #if-balanced (whatever was injected into it): decided by the extracted
    # Balance.text_balanced (C02_accepted_text_is_well_nested) when a model is given; the Python scanner words the message,
    # checks the #if / #endif pairs, and must agree with the Coq verdict on the brackets
    for fname, f in files.items():
        if fname.rsplit(".", 1)[-1] in ("cxx", "cc", "cpp", "h", "hpp"):
            bad = cpp_balance(f["text"])
            if bad:
                out.append(("unbalanced", f"rendered {fname} is not C++: {bad}"))
            if model is not None and f["text"].isascii():
                v = model.call("c02.balance", f["text"])
                coq_ok = v[0] == "ok" and v[1] == "true"
                py_ok = bad is None or "#if" in bad or "#endif" in bad
                if coq_ok != py_ok:
                    BALANCE_DISAGREEMENTS.append({"file": fname, "coq": v, "python": bad})
                if not coq_ok and not bad:
                    out.append(("unbalanced", f"rendered {fname} is not C++: Balance.text_balanced gives {v}"))
    return out


def token_errors(backend: str, prog) -> List[str]:
    """cms_miniaod: every token a retrieval reads is declared exactly once as a class member and initialised in the
    constructor (booking) code."""
    if backend != "cms_miniaod":
        return []
    used = set()
    handle_of: Dict[str, set] = {}

    def walk(b):
        for st in b[2]:
            if st[0] == "fetch":
                for ln in st[5] if len(st) > 5 and isinstance(st[5], list) else []:
                    m = re.search(r"getByToken\((\w+),", str(ln))
                    if m:
                        used.add(m.group(1))
                        # the handle the token fills: Handle<T> (declared type of the retrieval) needs an EDGetTokenT<T>
                        h = re.match(r"^(?:edm::)?Handle<(.*)>$", str(st[3]).strip())
                        if h:
                            handle_of.setdefault(m.group(1), set()).add(h.group(1).replace(" ", ""))
            elif st[0] == "for":
                walk(st[3])
            elif st[0] == "if":
                walk(st[2])
                for e in st[3]:
                    walk(e)
            elif st[0] == "block":
                walk(st[1])

    walk(prog[4])
    members = [n for t, n in prog[0] if t.startswith("edm::EDGetTokenT<")]
    inits = {m.group("tok") for m in (semrun._TOKEN_INIT.match(ln) for ln in prog[3]) if m}
    out = []
    for t in sorted(used):
        if members.count(t) != 1:
            out.append(f"token {t} read by getByToken is declared {members.count(t)} time(s) as a class member")
        if t not in inits:
            out.append(f"token {t} read by getByToken is never initialised with consumes<>")
        mt = [ty for ty, n in prog[0] if n == t and ty.startswith("edm::EDGetTokenT<")]
        for ty in mt[:1]:
            tok_t = ty[len("edm::EDGetTokenT<"):-1].replace(" ", "")
            for ht in sorted(handle_of.get(t, ())):
                if ht != tok_t:
                    out.append(f"token {t} is an EDGetTokenT<{tok_t}> but getByToken fills a Handle<{ht}> with it")
    return out


def booking_errors(backend: str, prog) -> List[str]:
    """Booking lines that are none of the C++ statements a backend's booking consists of."""
    bad = []
    for ln in prog[3]:
        if backend == "cms_miniaod" and _TOKEN_INIT.match(ln):
            continue
        bad.append(ln)
    if prog[1] == "":
        bad.append("(no tree is booked)")
    return bad


# ------------------------------------------------------------------------------------------------
# one case
# ------------------------------------------------------------------------------------------------
def base(name: str) -> str:
    return re.sub(r"\d+$", "", name)


class Result:
    def __init__(self, backend: str, src: str, feat: set):
        self.backend, self.src, self.feat = backend, src, set(feat) | source_features(src)
        self.status = ""
        self.findings: List[Tuple[str, str]] = []  # (key, description)
        self.checker: Dict[str, List[str]] = {}
        self.raw: Optional[Dict[str, List[str]]] = None  # slots for g++
        self.note = ""
        self.ops = 0


def _key_for(kind: str, name: str, feat: set) -> str:
    b = base(name)
    if kind in ("well_scoped", "else") and "agg_summand_outer_only" in feat and (kind == "else" or b == "aggResult"):
        return "c02:agg-summand-outer-only"
    if kind == "types_ok" and name.startswith("%-operand") and "mod" in feat:
        return "c02:mod-floating-operand"
    if kind == "types_ok":
        return "c02:types_ok:" + name.split(":")[0]
    return f"c02:{kind}:{b}"


def _erase(lines) -> List[str]:
    return [re.sub(r"\d+", "#", str(x).rstrip()) for x in lines if str(x).strip()]


def run_case(model: core.Model, backend: str, src: str, feat: set, uni: qgen.Universe, md, write_again: bool = False) -> Result:
    r = Result(backend, src, feat)
    c = semrun.translate(backend, src, md, model, write_again=write_again)
    r.status = c.status
    r.note = c.note
    if c.status == "refused":
        return r
    r.raw = {k: [str(x) for x in c.pkg["slots"].get(k, [])] for k in ("query_code", "book_code", "class_decl")}
    for cls, what in package_errors(backend, c.pkg, model):
        r.findings.append(("c02:package:" + cls, what))
    if write_again:
        # the same transformed query rendered a second time (a second output directory, a retry after a late failure): what
        # is returned is again a complete, self-consistent package (it need not be the same text: declarations made by the
        # query's metadata are gone after the first rendering, which is C07's subject)
        if "error_again" not in c.pkg:
            try:
                prog2, _ = cxx.parse_program(backend, c.pkg["slots_again"])
                for t in token_errors(backend, prog2):
                    r.findings.append(("c02:write-again:token", "second rendering of the same translated query: " + t))
                res2 = model.call("c02.check", [prog2, method_table(uni)])
                if res2[0] == "ok":
                    e2 = {x[0]: list(x[1]) for x in res2[1:]}
                    for kind in ("unique_decls", "well_scoped", "branch_members"):
                        for n in sorted(set(e2[kind])):
                            k1 = _key_for(kind, n, r.feat)  # a known class of the first rendering is the same class here
                            r.findings.append((k1 if k1 == "c02:agg-summand-outer-only" else f"c02:write-again:{kind}:{base(n)}",
                                               f"second rendering of the same translated query: {kind} fails for {n}"))
            except cxx.ParseError:
                pass  # the first rendering's parse decides (below)
    for t in (token_errors(backend, c.prog) if c.prog is not None else []):
        r.findings.append(("c02:token", t))
    for ln in (user_block_errors(c.prog) if c.prog is not None else []):
        r.findings.append(("c02:injected-line-unterminated", f"a line of an injected C++ function is emitted without its terminating semicolon: {ln!r}"))
    if c.status == "unparsed":
        if "else without a preceding if" in c.note:
            r.findings.append((_key_for("else", "", r.feat) if "agg_summand_outer_only" in r.feat else "c02:else-without-if",
                               "the emitted per-event code has an `else` that does not follow an if block (not C++)"))
        elif "class declaration line" in c.note or "tree names" in c.note:
            r.findings.append(("c02:unparsed:decl", c.note))
        else:
            r.status = "unparsed-other"  # decided by g++ (parser coverage gap or ill-formed text)
        return r
    res = model.call("c02.check", [c.prog, method_table(uni)])
    if res[0] != "ok":
        r.status = "unparsed-other"
        r.note = f"model refused the program: {res}"
        return r
    errs = {x[0]: list(x[1]) for x in res[1:]}
    r.checker = errs
    unbound = set(errs["well_scoped"])
    for n in sorted(set(errs["unique_decls"])):
        r.findings.append((_key_for("unique_decls", n, r.feat), f"{n} is declared more than once in the package"))
    for n in sorted(unbound):
        r.findings.append((_key_for("well_scoped", n, r.feat), f"{n} is used outside the scope that declares it (or before its declaration)"))
    for n in sorted(set(errs["types_ok"])):
        if n.startswith("untyped:") and n[8:] in unbound:
            continue  # consequence of the scope error already reported
        r.findings.append((_key_for("types_ok", n, r.feat), f"type inconsistency {n}"))
    for n in sorted(set(errs["branch_members"])):
        r.findings.append(("c02:branch-not-member:" + base(n), f"branch variable {n} is not a class member"))
    for ln in booking_errors(backend, c.prog):
        r.findings.append(("c02:booking-line-not-cpp", f"booking line is not a C++ statement of the backend's booking: {ln!r}"))
    return r


# ------------------------------------------------------------------------------------------------
# g++ oracle
# ------------------------------------------------------------------------------------------------
def _methods(uni: qgen.Universe, extra=()) -> str:
    ms = [f"double {m}() const;" for m in uni.dbl_methods]
    cpp = {"int": "int", "bool": "bool", "float": "float", "vec_double": "std::vector<double>", "vec_int": "std::vector<int>"}
    ms += [f"{cpp[t]} {m}() const;" for m, t in uni.declared.items()]
    ms += [f"double {m}() const;" for m in extra]
    ms += ["MyNS::Color color() const;"]   # qgen.Universe.metadata: return type MyNS::Color, stored in the tree as int
    ms += ["template <class T> T getAttribute(const std::string&) const;", "bool isNonnull() const;"]
    return " ".join(ms)


def standin_header(backend: str, uni: qgen.Universe) -> str:
    h = ["#include <vector>", "#include <numeric>", "#include <cmath>", "#include <stdexcept>", "#include <string>",
         "struct TTree { TTree(const char*, const char*); template <class T> int Branch(const char*, T*); int Fill(); };",
         "struct TVector2 { static double Phi_mpi_pi(double); };", "namespace MyNS { enum Color { Red, Blue, Green }; }"]
    by_ns: Dict[str, List[str]] = collections.OrderedDict()
    if backend == "atlas":
        for name, (ct, et) in list(uni.colls.items()) + list(uni.singletons.items()):
            ns, cls = et.split("::")
            extra = ("runNumber", "eventNumber") if name in uni.singletons else ()
            by_ns.setdefault(ns, []).append(f"struct {cls} {{ {_methods(uni, extra)} }};")
            if name in uni.colls:
                cont = ct.replace("const ", "").replace("*", "").strip().split("::")[1]
                by_ns[ns].append(f"typedef std::vector<const {cls}*> {cont};")
        for ns, ls in by_ns.items():
            h.append(f"namespace {ns} {{ " + " ".join(ls) + " }")
        h += ["struct StatusCode { bool isSuccess() const; };",
              '#define ANA_CHECK(x) do { if (!(x).isSuccess()) throw std::runtime_error("ANA_CHECK"); } while (0)',
              "struct Store { template <class T> StatusCode retrieve(const T*& p, const std::string& key); };",
              "struct Base { Store* evtStore(); TTree* tree(const std::string&); StatusCode book(const TTree&); };"]
    else:
        h += ["namespace edm { template <class T> struct Handle { const T& operator*() const; const T* operator->() const; };",
              "  struct InputTag { InputTag(const std::string&); }; template <class T> struct EDGetTokenT {};",
              "  struct Event { template <class T> bool getByLabel(const std::string&, Handle<T>&) const;",
              "                 template <class T> bool getByToken(const EDGetTokenT<T>&, Handle<T>&) const; };",
              "  template <class T> struct Service { T* operator->(); }; }",
              "struct TFileService { template <class T, class... A> T* make(A...); };", "using namespace edm;"]
        for name, (ct, et) in uni.colls.items():
            ns, cls = et.split("::")
            by_ns.setdefault(ns, []).append(f"struct {cls} {{ {_methods(uni)} }};")
            cont = re.search(r"<(.*)>", ct).group(1).split("::")[1]
            by_ns[ns].append(f"typedef std::vector<{cls}> {cont};")
        for ns, ls in by_ns.items():
            h.append(f"namespace {ns} {{ " + " ".join(ls) + " }")
        h.append("struct Base { TTree* myTree; template <class T> edm::EDGetTokenT<T> consumes(const edm::InputTag&); };")
    return "\n".join(h) + "\n"


def translation_unit(backend: str, uni: qgen.Universe, cases: List[Tuple[int, Dict[str, List[str]]]]) -> Tuple[str, List[Tuple[int, int, int]]]:
    """One TU for many queries; returns the text and (case id, first line, last line) ranges."""
    text = standin_header(backend, uni)
    line = text.count("\n") + 1
    ranges = []
    ev = "" if backend == "atlas" else "const edm::Event& iEvent"
    for cid, raw in cases:
        body = [f"struct Q{cid} : Base {{"]
        body += [l.strip() for l in raw["class_decl"] if l.strip()]
        body.append("void book_it() {")
        body += [l.rstrip() for l in raw["book_code"] if l.strip()]
        body.append("}")
        body.append(f"void per_event({ev}) {{")
        body += [l.rstrip() for l in raw["query_code"] if l.strip()]
        body.append("}")
        body.append("};")
        ranges.append((cid, line, line + len(body) - 1))
        text += "\n".join(body) + "\n"
        line += len(body)
    return text, ranges


_GXX_ERR = re.compile(r"^(?P<f>[^:\s]+):(?P<l>\d+):(?:\d+:)? error: (?P<m>.*)$")


def gxx_classify(msg: str, feat: set) -> Tuple[str, str]:
    m = re.search(r"[‘'](\w+)[’'] was not declared in this scope", msg)
    if m:
        return _key_for("well_scoped", m.group(1), feat), "well_scoped"
    if "operator%" in msg:
        return _key_for("types_ok", "%-operand", feat), "types_ok"
    m = re.search(r"(?:redeclaration of|conflicting declaration|redefinition of) [‘'](?:.*?)(\w+)[’']", msg)
    if m:
        return _key_for("unique_decls", m.group(1), feat), "unique_decls"
    if re.search(r"[‘']else[’'] without a previous [‘']if[’']|before [‘']else[’']", msg):
        return (_key_for("else", "", feat) if "agg_summand_outer_only" in feat else "c02:else-without-if"), "else"
    return "c02:gxx:" + re.sub(r"[‘’'\d]+", "", msg)[:50].strip().replace(" ", "-"), "other"


def run_gxx(work: Path, batches: List[Tuple[str, qgen.Universe, List[Tuple[int, Dict[str, List[str]]]]]]) -> Dict[int, List[str]]:
    """Compile every batch (xargs -P16); returns case id -> g++ error messages ([] = accepted)."""
    work.mkdir(parents=True, exist_ok=True)
    ranges_of: Dict[str, List[Tuple[int, int, int]]] = {}
    for i, (backend, uni, cases) in enumerate(batches):
        text, ranges = translation_unit(backend, uni, cases)
        (work / f"tu{i}.cc").write_text(text)
        ranges_of[f"tu{i}.cc"] = ranges
    names = "\n".join(sorted(ranges_of))
    cmd = "xargs -P16 -I{} sh -c 'timeout 300 g++ -std=c++17 -fsyntax-only -w -fmax-errors=0 {} > {}.log 2>&1; echo $? > {}.rc'"
    subprocess.run(cmd, shell=True, cwd=work, input=names, text=True, timeout=3000)
    out: Dict[int, List[str]] = {}
    for f, ranges in ranges_of.items():
        for cid, _, _ in ranges:
            out[cid] = []
        log = (work / f"{f}.log").read_text(errors="replace") if (work / f"{f}.log").exists() else ""
        rc = (work / f"{f}.rc").read_text().strip() if (work / f"{f}.rc").exists() else "?"
        hit = False
        for ln in log.splitlines():
            m = _GXX_ERR.match(ln)
            if not m:
                continue
            l = int(m.group("l"))
            for cid, a, b in ranges:
                if a <= l <= b:
                    out[cid].append(m.group("m"))
                    hit = True
                    break
            else:
                raise RuntimeError(f"g++ error outside every query of {f} (stand-in data model is broken): {ln}")
        if rc != "0" and not hit:
            raise RuntimeError(f"g++ failed on {f} with status {rc} and no attributable error: {log[:300]}")
    return out


# ------------------------------------------------------------------------------------------------
# check
# ------------------------------------------------------------------------------------------------
def _cases(tier: str, rng: random.Random):
    n_gen = 150 if tier == "quick" else 4000
    n_mod = 12 if tier == "quick" else 120
    n_out = 12 if tier == "quick" else 120
    n_inj = 40 if tier == "quick" else 400
    depths = [1, 2, 3, 3] if tier == "quick" else [2, 3, 3, 4, 5]
    for be in BACKENDS:
        uni = qgen.Universe(be)
        for src, feat in seeded(uni):
            yield be, uni, src, set(feat), 3, "seeded"
        for _ in range(n_mod):
            src, feat = mod_query(rng, uni)
            yield be, uni, src, feat, 3, "mod"
        for _ in range(n_out):
            src, feat = outer_summand_query(rng, uni)
            yield be, uni, src, feat, 5, "outer-summand"
        for _ in range(n_inj):
            src, feat = inject_query(rng, uni)
            yield be, uni, src, feat, 4, "inject"
        for _ in range(n_gen):
            src, q = qgen.gen_query(rng, uni, depth=rng.choice(depths), allow=ALLOW)
            yield be, uni, src, set(q.feat), q.ops, "qgen"


DECLARED_COLLECTIONS = ["std::vector<const FvNS::Part*>", "std::vector<FvNS::Part*>*", "FvNS::PartVec", "FvNS::PartVec*", "std::vector<std::vector<FvNS::Part*>*>",
                        "std::map<int, FvNS::Part*>::value_list", "std::vector<FvNS::Part*> *", "DataVector<FvNS::Part>**"]


def declared_collection_loops(oc: core.Outcome) -> Dict[str, int]:
    """A method declared (add_method_type_info) to return a collection is looped over AS DECLARED: held by value it is iterated
    directly, held through k pointers (the `*` that END the declared type) it is dereferenced k times - or the code does not
    compile against the declared class.  Text of the loop header, for each declared spelling x 3 back ends."""
    hist: Dict[str, int] = collections.Counter()
    for backend in BACKENDS:
        uni = qgen.Universe(backend)
        cname, (_, etype) = list(uni.colls.items())[0]
        for coll in DECLARED_COLLECTIONS:
            md = uni.metadata() + [{"metadata_type": "add_method_type_info", "type_string": etype, "method_name": "parts", "return_type_element": "FvNS::Part*",
                                    "return_type_collection": coll},
                                   {"metadata_type": "add_method_type_info", "type_string": "FvNS::Part", "method_name": "pt", "return_type": "double"}]
            src = f'ds.SelectMany(lambda e: e.{cname}("b")).Select(lambda j: j.parts().Select(lambda c: c.pt()))'
            try:
                r = impl.translate(backend, impl.query_ast(src, md))
            except Exception as e:  # noqa: BLE001
                r = ("error", type(e).__name__, str(e))
            impl.reset_globals()
            oc.evaluations += 1
            if r[0] != "ok":
                hist["refused"] += 1
                continue
            want = len(coll.rstrip()) - len(coll.rstrip().rstrip("* "))  # the stars (and blanks between them) that end the type
            want = coll.rstrip()[len(coll.rstrip()) - want:].count("*")
            heads = [str(x).strip() for x in r[1]["slots"]["query_code"] if "parts()" in str(x) and str(x).strip().startswith("for ")]
            m = re.match(r"for \(auto &&\w+ : (\**)\w+(?:->|\.)parts\(\)\)$", heads[0]) if len(heads) == 1 else None
            got = len(m.group(1)) if m else None
            hist["as declared" if got == want else "NOT as declared"] += 1
            if got != want:
                oc.violations.append(core.Violation(
                    key="c02:declared-collection-deref:" + ("double-pointer" if want >= 2 else "pointer" if want == 1 else "by-value"),
                    what=f"[{backend}] a method declared to return the collection {coll!r} is looped over as {heads}: {want} dereference(s) match the declaration "
                         f"(the generated code does not compile against the declared class) - query {src}",
                    replay={"kind": "declared-collection", "backend": backend, "query": src, "collection_type": coll, "loop_headers": heads, "dereferences_expected": want}))
    return dict(hist)


def check(tier: str, seed: int, t0: float, build: core.BuildStatus) -> int:
    import logging

    logging.disable(logging.CRITICAL)
    ps = core.proof_status(PROP_FILE, build)
    oc = core.Outcome()
    rng = random.Random(seed * 7919 + 2)
    model = core.Model() if build.model_ok else None
    results: List[Result] = []
    unis: Dict[str, qgen.Universe] = {}
    stat = collections.Counter()
    feat_hist = collections.Counter()
    origin_hist = collections.Counter()
    distinct = set()
    accepted_by = collections.Counter()
    if model is not None:
        for be, uni, src, feat, ops, origin in _cases(tier, rng):
            unis[be] = uni
            r = run_case(model, be, src, feat, uni, metadata(uni), write_again=(origin == "seeded" or oc.evaluations % 5 == 0))
            r.ops = ops
            results.append(r)
            oc.evaluations += 1
            stat[(be, r.status)] += 1
            origin_hist[origin] += 1
            for f in r.feat:
                feat_hist[f] += 1
            if r.status == "ok":
                oc.traces_validated_against_impl += 1
                for chk in ("unique_decls", "well_scoped", "types_ok", "branch_members"):
                    if not r.checker.get(chk):
                        accepted_by[chk] += 1
                if ops >= 3 and r.raw:
                    canon = re.sub(r"\d+", "#", "\n".join(_norm(r.raw["query_code"])))
                    distinct.add(be + hashlib.sha1(canon.encode()).hexdigest())
    decl_coll = declared_collection_loops(oc)
    for dis in BALANCE_DISAGREEMENTS[:3]:
        oc.correspondence_breaks.append({"note": "Balance.text_balanced (Coq) and the Python bracket scanner disagree on a rendered file", **dis})
    # g++: all accepted packages in the thorough tier; in the quick tier only what the parser could not decide
    work = core.VERIF / "work" / f"c02-{os.getpid()}"
    gxx: Dict[int, List[str]] = {}
    gxx_note = ""
    todo = [(i, r) for i, r in enumerate(results) if r.raw is not None and (tier == "thorough" or r.status == "unparsed-other")]
    agree = collections.Counter()
    try:
        if todo and shutil.which("g++"):
            batches = []
            for be in BACKENDS:
                mine = [(i, r.raw) for i, r in todo if r.backend == be]
                for k in range(0, len(mine), 40):
                    batches.append((be, unis[be], mine[k : k + 40]))
            gxx = run_gxx(work, batches)
        elif todo:
            gxx_note = "g++ not found: compile oracle skipped"
    except RuntimeError as e:
        gxx_note = str(e)
    finally:
        shutil.rmtree(work, ignore_errors=True)
    for i, r in enumerate(results):
        if i not in gxx:
            continue
        msgs = gxx[i]
        kinds = set()
        # once the block structure is broken (an else that follows no if) g++'s later messages are cascades of
        # the first one: only the first is classified (all are kept in the replay)
        primary = msgs[:1] if r.status == "unparsed" else msgs
        for msg in primary:
            key, kind = gxx_classify(msg, r.feat)
            kinds.add(kind)
            if not any(k == key for k, _ in r.findings):
                r.findings.append((key, f"g++ rejects the emitted code: {msg}"))
        if r.status == "unparsed-other" and not msgs:
            stat[("parser-gap", r.backend)] += 1
            oc.correspondence_breaks.append({"backend": r.backend, "query": r.src, "note": "emitted code is outside the IR grammar but g++ accepts it: " + r.note})
        if r.status in ("ok", "unparsed"):
            chk_rej = any(not k.startswith("c02:package") for k, w in r.findings if not w.startswith("g++ rejects"))
            agree[("checkers-reject" if chk_rej else "checkers-accept") + "/" + ("g++-rejects" if msgs else "g++-accepts")] += 1
    for r in results:
        for key, what in r.findings:
            oc.violations.append(core.Violation(
                key=key, what=f"[{r.backend}] {what} - query {r.src[:160]}",
                replay={"kind": "query", "backend": r.backend, "query": r.src, "features": sorted(r.feat),
                        "metadata": "c02.metadata(qgen.Universe(backend))", "finding": what, "checker_errors": r.checker,
                        "status": r.status, "note": r.note, "gxx_messages": gxx.get(results.index(r)) if gxx else None,
                        "emitted_query_code": _norm(r.raw["query_code"]) if r.raw else None,
                        "emitted_class_decl": _norm(r.raw["class_decl"]) if r.raw else None,
                        "emitted_book_code": _norm(r.raw["book_code"]) if r.raw else None,
                        "broken": "C02 property text on the implementation's package (checkers proved sound in Properties/C02.v)"}))
    # smallest replay first per key
    oc.violations.sort(key=lambda v: len(v.replay.get("query", "")))
    if model is not None:
        model.close()
    undecided = [r for i, r in enumerate(results) if r.status == "unparsed-other" and i not in gxx]
    oc.distinct_nontrivial = len(distinct)
    oc.rule = (f"per backend ({', '.join(BACKENDS)}): 11 seeded queries + % templates + outer-only-summand aggregate templates + injected-C++-call compositions (DeltaR, a metadata C++ function, getAttributeFloat/isNonnull with First/Count/Sum/conditional arguments at event level and inside Select/Where) + qgen queries "
               f"(all feature classes: {', '.join(ALLOW)}; depth up to {3 if tier == 'quick' else 5}); every accepted package: runtime completeness facts, IR round trip, "
               f"extracted checkers; g++ -fsyntax-only on {'every accepted package' if tier == 'thorough' else 'packages the parser could not decide only'}; "
               "non-trivial = at least 3 query operators, distinct by emitted per-event code with generated numbers erased")
    oc.samples = [{"backend": r.backend, "query": r.src, "status": r.status} for r in results[11:15]]
    oc.extra = {
        "loops_over_declared_method_collections": decl_coll,
        "bracket_scanner_disagreements_coq_vs_python": len(BALANCE_DISAGREEMENTS),
        "level_wording": "checker soundness is PROVED for all programs/events/member states/histories; application to the translator is SAMPLED (translation validation of each generated query's package)",
        "status_histogram": {f"{a}:{b}": n for (a, b), n in sorted(stat.items())},
        "feature_histogram": dict(feat_hist), "origin_histogram": dict(origin_hist),
        "programs_accepted_by_checker": dict(accepted_by),
        "gxx_cases": len(gxx), "gxx_vs_checkers": dict(agree), "gxx_note": gxx_note,
        "undecided_unparsed": [{"backend": r.backend, "query": r.src, "note": r.note} for r in undecided[:5]],
        "model_available": model is not None, "repo": str(core.REPO),
    }
    problems = []
    if ps.broken:
        problems.append(ps.broken)
    if model is None:
        problems.append("model executable could not be built")
    if core.build_hygiene_cache():
        problems.append("hygiene gate: " + "; ".join(core.build_hygiene_cache()))
    if gxx_note:
        problems.append(gxx_note)
    if undecided:
        problems.append(f"{len(undecided)} accepted package(s) outside the IR grammar and not decided by g++: {undecided[0].note} on {undecided[0].src[:120]}")
    if oc.correspondence_breaks:
        problems.append(f"parser gap: {oc.correspondence_breaks[0]}")
    if problems and not [v for v in oc.violations]:
        oc.violations.append(core.Violation(key="c02:unproved", what=problems[0], no_failing_input=True,
                                            replay={"broken": problems[0], "searched": f"{oc.evaluations} packages with the checkers and the package oracle, none failed"}))
    elif problems:
        oc.extra["other_problems"] = problems
    return core.finish(PID, tier, seed, t0, ps, build, oc, TRUSTED, ASSUME)


def _replay_declared(data) -> int:
    oc = core.Outcome()
    declared_collection_loops(oc)
    bad = [v for v in oc.violations if v.replay.get("collection_type") == data.get("collection_type") and v.replay.get("backend") == data.get("backend")]
    for v in bad:
        print(v.what)
    if bad:
        print(f"VIOLATION property={PID} replay=(declared collection {data.get('collection_type')})")
        return 1
    print("the loop over the declared collection is as declared")
    return 0


def replay(path: str, build: core.BuildStatus) -> int:
    import logging

    logging.disable(logging.CRITICAL)
    data = json.loads(open(path).read())
    if data.get("kind") == "declared-collection":
        return _replay_declared(data)
    if data.get("no_failing_input_found"):
        print(f"replay names a broken obligation only: {data.get('broken')}")
        ps = core.proof_status(PROP_FILE, build)
        print("proof status now:", ps.broken or "all theorems check")
        return 1 if ps.broken else 0
    be, src = data["backend"], data["query"]
    uni = qgen.Universe(be)
    model = core.Model()
    r = run_case(model, be, src, set(data.get("features", [])), uni, metadata(uni))
    model.close()
    print("status:", r.status, r.note)
    print("checker errors:", r.checker)
    msgs: List[str] = []
    if r.raw is not None and shutil.which("g++"):
        work = core.VERIF / "work" / f"c02-replay-{os.getpid()}"
        try:
            msgs = run_gxx(work, [(be, uni, [(0, r.raw)])])[0]
        finally:
            shutil.rmtree(work, ignore_errors=True)
        print("g++:", msgs or "accepts")
        for m in msgs:
            k, _ = gxx_classify(m, r.feat)
            if not any(k == k2 for k2, _ in r.findings):
                r.findings.append((k, "g++ rejects the emitted code: " + m))
    for k, w in r.findings:
        print("finding:", k, "-", w)
    known = {k["key"] for k in core.known_findings() if k.get("property") == PID and k.get("status") == "known"}
    keys = [k for k, _ in r.findings]
    if data.get("key") in keys:
        print(f"VIOLATION property={PID} replay={path}")
        return 1
    other = [k for k in keys if k not in known]
    if other:
        print(f"the stored finding {data.get('key')} no longer reproduces, but the input still violates the property: {other}")
        print(f"VIOLATION property={PID} replay={path}")
        return 1
    print("the stored finding no longer reproduces" + (f" (only known findings remain: {sorted(set(keys))})" if keys else "; property holds on this input"))
    return 0
