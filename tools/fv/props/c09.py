"""C09 - unsupported or malformed queries are refused, never half-translated.

Theorems: coq/Properties/C09.v over coq/Model/KindModel.v (kind-level model of the translator's visitor and
the executor's top-level shape checks): an unsupported construct makes translation fail wherever it occurs
in a strict position, at any depth.  Tie: the extracted model and the implementation are run on the same
ASTs (the AST handed to write_cpp_files, serialised by tools/fv/astser.py, with the type registry) for a
stream of valid generated queries and a malformed stream (one unsupported construct grafted into an otherwise
valid query at a random position); verdict and exception class are compared.  Oracle of the property text:
a grafted query must be refused by the implementation (by the translator or before it); an accepted one is
the concrete failing input."""
import collections
import json
import random
from typing import Any, Dict, List

from .. import core, impl, qgen

PID = "C09"
PROP_FILE = "Properties/C09.v"
TRUSTED = [
    "Coq 8.16.1 kernel (coqc); vm_compute only in the two non-vacuity Examples",
    "hand model coq/Model/KindModel.v of the visitor of ast_to_cpp_translator.py at the level of representation kinds (no scopes, no C++ text); fuel-indexed, theorems hold for every fuel",
    "serialiser tools/fv/astser.py (Python AST after apply_ast_transformations -> expr; registries g_method_type_dict / g_toplevel_ns)",
    "extraction (ExtrOcamlBasic, ExtrOcamlString) + OCaml driver + S-expression codec",
    "func_adl 3.5.0 / qastle front end and its AST passes (third party) run before the modelled part; refusals raised there or in metadata processing (stage 'transform') are observed, not modelled here (C06/C11/C14 model those)",
    "the correspondence is a differential test bounded by the generators below",
]
ASSUME = [
    "a position is 'strict' when the translator requests the representation of the node there (ctx in KindModelProofs.v lists them); arguments of a directly applied lambda are resolved lazily and are not strict",
]
BACKENDS = ["atlas", "cms_aod", "cms_miniaod"]
# grafts that the property's list of unsupported constructs covers, and which are expected to be accepted today
KNOWN_ACCEPTED = {"kwargs": "c09:kwargs-dropped", "raw_object": "c09:raw-object-column", "raw_collection": "c09:raw-object-column"}
KNOWN_KEYS = {"c09:kwargs-dropped", "c09:raw-object-column", "c09:unary-on-collection"}


def accepted_key(kind: str, src: str) -> str:
    import re

    if kind == "seq_neg" and re.search(r"\(-\w+\.(vals|hits)\(\)\)", src):
        return "c09:unary-on-collection"  # the operand is a collection-typed method result, not a sequence
    return KNOWN_ACCEPTED.get(kind, "c09:accepted-" + kind)


def run_one(model, backend: str, src: str, md):
    """-> dict(stage, impl verdict, class, model verdict, class)"""
    try:
        a = impl.query_ast(src, md)
    except Exception as e:  # noqa: BLE001
        return {"stage": "frontend", "impl": "error", "cls": type(e).__name__, "model": None, "mcls": ""}
    # the argument-count pre-pass (KindModel.seq_arity_ok) sees the tree in which seq.Select(f) has become Select(seq, f)
    pre_model = None
    if model is not None:
        try:
            import copy as _copy

            from func_adl.ast import extract_metadata as _em
            from func_adl.ast.func_adl_ast_utils import change_extension_functions_to_calls as _calls

            from .. import astser as _as
            a1 = _calls(_em(_copy.deepcopy(a))[0])
            pm = model.call("c09.prepass", _as.ser(a1))
            pre_model = "refused" if pm[0] == "error" else ("ok" if pm[0] == "ok" else None)
        except Exception:  # noqa: BLE001 - the tree has a node the serialiser does not know: the pre-pass model is not consulted
            pre_model = None
    r = impl.translate(backend, a, want_ast=True)
    ki = dict(impl.LAST_KIND_INPUT)
    impl.reset_globals()
    out = {"stage": ki.get("stage", "?"), "impl": r[0], "cls": r[1] if r[0] == "error" else "", "model": None, "mcls": ""}
    pre_impl = "refused" if (r[0] == "error" and r[1] == "ValueError" and "takes exactly one argument" in str(r[2])) else "ok"
    out["prepass"] = [pre_model, pre_impl]
    if model is not None and "ast" in ki:
        mr = model.call("c09.translate", [ki["registry"], ki["ast"]])
        out["model"] = mr[0]
        out["mcls"] = mr[1] if mr[0] == "error" else ""
    return out


def note_prepass(oc, hist, be: str, src: str, r) -> None:
    """KindModel.seq_arity_ok versus executor._check_sequence_call_arguments on the same query."""
    pm, pi = r.get("prepass", [None, None])
    if pm is None:
        hist["graft"]["prepass:model-not-consulted"] += 1
        return
    hist["graft"][f"prepass:model-{pm}:impl-{pi}"] += 1
    # the implementation may refuse earlier for another reason (metadata): only a query the pre-pass model refuses must be refused
    # with the pre-pass's own error, and a query refused with that error must be one the model refuses
    if (pm == "refused") != (pi == "refused") and not (pm == "ok" and pi == "ok"):
        if pm == "refused" and r["impl"] == "error" and r["stage"] == "transform" and pi != "refused":
            return  # refused during the transformations for an earlier reason (malformed metadata)
        oc.correspondence_breaks.append({"backend": be, "query": src, "note": "argument-count pre-pass: model " + str(pm) + ", implementation " + str(pi),
                                         "implementation": [r["impl"], r["cls"]]})


def reuse_scenarios(be: str):
    """(label, metadata of the first query, source of the second query)"""
    fn = {"metadata_type": "add_cpp_function", "name": "MyScale", "include_files": [], "arguments": ["x"], "code": ["auto result = x * 2.0;"],
          "result_name": "result", "return_type": "double"}
    coll_md = {
        "atlas": {"metadata_type": "add_atlas_event_collection_info", "name": "ForkJets", "include_files": ["xAODJet/JetContainer.h"],
                  "container_type": "xAOD::JetContainer", "element_type": "xAOD::Jet", "contains_collection": True, "link_libraries": ["xAODJet"]},
        "cms_aod": {"metadata_type": "add_cms_aod_event_collection_info", "name": "ForkMuons", "include_files": ["DataFormats/MuonReco/interface/Muon.h"],
                    "container_type": "reco::MuonCollection", "element_type": "reco::Muon", "contains_collection": True, "element_pointer": False},
        "cms_miniaod": {"metadata_type": "add_cms_miniaod_event_collection_info", "name": "ForkMuons", "include_files": ["DataFormats/PatCandidates/interface/Muon.h"],
                        "container_type": "pat::MuonCollection", "element_type": "pat::Muon", "contains_collection": True, "element_pointer": False},
    }[be]
    main = {"atlas": "Jets", "cms_aod": "Muons", "cms_miniaod": "Muons"}[be]
    yield "MyScale", [fn], f'ds.Select(lambda e: e.{main}("b1").Select(lambda j: MyScale(j.pt())))'
    yield coll_md["name"], [coll_md], f'ds.Select(lambda e: e.{coll_md["name"]}("b1").Count())'


def run_reuse(be: str, md1, q2: str, first_ok: bool):
    """Translate a first query carrying `md1` (valid, or refused because of a trailing unsupported construct), then `q2`
    on the SAME executor object; and `q2` on a fresh executor."""
    import tempfile
    from pathlib import Path

    def tr(exe, a):
        try:
            with tempfile.TemporaryDirectory(prefix="fv-c09-") as d:
                exe.write_cpp_files(exe.apply_ast_transformations(a), Path(d))
            return "ok"
        except Exception:  # noqa: BLE001
            return "error"
        finally:
            impl.reset_globals()

    main = {"atlas": "Jets", "cms_aod": "Muons", "cms_miniaod": "Muons"}[be]
    q1 = f'ds.Select(lambda e: e.{main}("b1").Count())' if first_ok else f'ds.Select(lambda e: e.{main}("b1").Count() // 2)'
    exe = impl.executors()[be]()
    first = tr(exe, impl.query_ast(q1, md1))
    second = tr(exe, impl.query_ast(q2, None))
    fresh = tr(impl.executors()[be](), impl.query_ast(q2, None))
    return {"first": first, "second": second, "fresh": fresh}


def shrink_src(backend, md, src: str, still_bad) -> str:
    """Greedy shrink at source level: drop tuple/dict columns while the verdict stays wrong (best effort)."""
    return src


def check(tier: str, seed: int, t0: float, build: core.BuildStatus) -> int:
    import logging

    logging.disable(logging.CRITICAL)
    ps = core.proof_status(PROP_FILE, build)
    oc = core.Outcome()
    rng = random.Random(seed * 7919 + 9)
    n_valid = 80 if tier == "quick" else 800
    n_graft = 6 if tier == "quick" else 40
    model = core.Model() if build.model_ok else None
    hist: Dict[str, collections.Counter] = {"valid": collections.Counter(), "graft": collections.Counter()}
    distinct = set()
    class_mismatch = 0
    samples: List[Any] = []
    for be in BACKENDS:
        uni = qgen.Universe(be)
        md = uni.metadata()
        # ---- valid stream: model and implementation must agree on accept/refuse
        for _ in range(n_valid):
            src, q = qgen.gen_query(rng, uni, depth=rng.choice([1, 2, 3, 3]), allow=("first", "aggregate", "range"))
            r = run_one(model, be, src, md)
            note_prepass(oc, hist, be, src, r)
            oc.evaluations += 1
            hist["valid"][f"{r['stage']}:{r['impl']}"] += 1
            if r["stage"] == "frontend":
                continue
            if q.ops >= 3:
                distinct.add((be, src))
            if r["model"] is not None:
                if (r["model"] == "ok") != (r["impl"] == "ok") and r["stage"] != "transform":
                    oc.correspondence_breaks.append({"backend": be, "query": src, "implementation": [r["impl"], r["cls"]], "model": [r["model"], r["mcls"]]})
                else:
                    oc.traces_validated_against_impl += 1
                    if r["impl"] == "error" and r["cls"] != r["mcls"]:
                        class_mismatch += 1
        # ---- malformed stream
        for kind in qgen.ALL_GRAFTS:
            if kind == "getattribute" and be != "atlas":
                continue
            if kind.startswith("md_collection") and be != "atlas":
                continue
            if kind.startswith("md_cmsaod_") and be != "cms_aod":
                continue
            if kind.startswith("md_cmsminiaod_") and be != "cms_miniaod":
                continue
            if kind.startswith("md_job") and be != "atlas":
                continue  # job scripts are only rendered (and checked) by the ATLAS executor
            for _ in range(n_graft):
                src, q, extra = qgen.gen_grafted(rng, uni, kind, depth=rng.choice([1, 2, 3]))
                r = run_one(model, be, src, md + extra)
                note_prepass(oc, hist, be, src, r)
                oc.evaluations += 1
                hist["graft"][f"{kind}:{r['stage']}:{r['impl']}"] += 1
                distinct.add((be, src))
                if len(samples) < 6 and rng.random() < 0.05:
                    samples.append({"backend": be, "graft": kind, "query": src, "implementation": [r["impl"], r["cls"]], "model": [r["model"], r["mcls"]]})
                if r["impl"] == "ok":
                    key = accepted_key(kind, src)
                    oc.violations.append(core.Violation(
                        key=key,
                        what=f"{be}: query with grafted unsupported construct '{kind}' was translated instead of refused: {src}",
                        replay={"kind": "graft", "backend": be, "graft": kind, "query": src, "extra_metadata": extra,
                                "implementation": "returned a package", "model": [r["model"], r["mcls"]],
                                "broken": "property oracle: a query with an unsupported construct must make translation raise (theorem C09_refuses_at_any_position describes the model)"}))
                    continue
                if r["model"] is not None and r["stage"] != "transform" and not kind.startswith("md_"):
                    if r["model"] == "ok":
                        oc.correspondence_breaks.append({"backend": be, "graft": kind, "query": src, "implementation": [r["impl"], r["cls"]], "model": "ok"})
                    else:
                        oc.traces_validated_against_impl += 1
                        if r["cls"] != r["mcls"]:
                            class_mismatch += 1
    # ---- a name that only an EARLIER query declared is still unknown: on a reused executor object the second query
    #      (which uses the name without declaring it) must be refused, exactly as on a fresh executor
    for be in BACKENDS:
        for label, md1, q2 in reuse_scenarios(be):
            for first_ok in (True, False):
                got = run_reuse(be, md1, q2, first_ok)
                oc.evaluations += 1
                hist["graft"][f"reuse:{label}:{got['second']}"] += 1
                distinct.add((be, "reuse:" + label + str(first_ok)))
                if got["second"] == "ok":
                    oc.violations.append(core.Violation(
                        key="c09:accepted-undeclared-after-reuse",
                        what=f"{be}: on a reused executor a query that uses '{label}' WITHOUT declaring it is translated (the declaration came with an earlier {'successful' if first_ok else 'refused'} query): {q2}",
                        replay={"kind": "reuse", "backend": be, "first_metadata": md1, "first_query_ok": first_ok, "second_query": q2,
                                "fresh_executor": got["fresh"], "reused_executor": got["second"],
                                "broken": "property oracle: an unknown function / collection makes translation raise, whatever earlier queries declared"}))
                elif got["fresh"] != "error":
                    oc.correspondence_breaks.append({"backend": be, "reuse": label, "note": "the undeclared use is accepted even on a fresh executor", "got": got})
                else:
                    oc.traces_validated_against_impl += 1
    if model is not None:
        model.close()
    oc.distinct_nontrivial = len(distinct)
    oc.rule = (f"per backend ({', '.join(BACKENDS)}): {n_valid} valid generated queries (qgen typed grammar, depth 1-3, first/aggregate/range allowed) "
               f"+ {n_graft} queries for each of {len(qgen.ALL_GRAFTS)} unsupported-construct classes grafted at a random scalar/predicate/sequence/row/metadata position; "
               "one random.Random(seed); non-trivial = at least 3 operators or any grafted query; distinct by (backend, source)")
    oc.samples = samples or ["(no sample drawn)"]
    oc.extra = {"verdict_histogram_valid": dict(hist["valid"]), "verdict_histogram_graft": dict(hist["graft"]),
                "exception_class_differences_model_vs_impl": class_mismatch, "graft_classes": qgen.ALL_GRAFTS,
                "model_available": model is not None,
                "explanation": "proof: refusal at any strict position for every registry/frames/fuel (model); correspondence: verdicts of model and implementation compared on generated ASTs; oracle: grafted queries must be refused by the implementation"}
    if not [v for v in oc.violations if v.key not in KNOWN_KEYS] and (ps.broken or oc.correspondence_breaks or model is None or core.build_hygiene_cache()):
        what = ps.broken or (f"correspondence KindModel.translate vs implementation: {oc.correspondence_breaks[0]}" if oc.correspondence_breaks else
                             ("hygiene gate: " + "; ".join(core.build_hygiene_cache()) if core.build_hygiene_cache() else "model executable could not be built"))
        oc.violations.append(core.Violation(key="c09:unproved", what=what, no_failing_input=True,
                                            replay={"broken": what, "searched": f"{oc.evaluations} queries (valid and grafted) with the refusal oracle, no accepted unsupported query outside the known findings"}))
    return core.finish(PID, tier, seed, t0, ps, build, oc, TRUSTED, ASSUME)


def replay(path: str, build: core.BuildStatus) -> int:
    import logging

    logging.disable(logging.CRITICAL)
    data = json.loads(open(path).read())
    if data.get("no_failing_input_found"):
        print(f"replay names a broken obligation only: {data.get('broken')}")
        ps = core.proof_status(PROP_FILE, build)
        print("proof status now:", ps.broken or "all theorems check")
        return 1 if ps.broken else 0
    be = data["backend"]
    uni = qgen.Universe(be)
    model = core.Model() if build.model_ok else None
    r = run_one(model, be, data["query"], uni.metadata() + list(data.get("extra_metadata", [])))
    print("implementation:", r["impl"], r["cls"], "(stage", r["stage"] + ")")
    print("model:", r["model"], r["mcls"])
    if r["impl"] == "ok":
        print(f"VIOLATION property={PID} replay={path}")
        return 1
    print("the query is refused: property holds on this input")
    return 0
