"""C01 - the generated job computes exactly the rows and values the query denotes.

Proved (coq/Properties/C01.v): for every query of the counting fragment F0 (Model/FragTranslate.v), every
event and every member state, the program of the fragment translator writes exactly the row the query
denotes (streaming LINQ reference semantics) or fails exactly when the query is undefined.
Tie of the fragment: on every run the fragment translator's printed program is compared, line by line, with
what the implementation emits for generated fragment queries (atlas, cms_aod), the Coq reference semantics
`de` is compared with the Python evaluation of the query source, and the implementation's own program is
executed by the Coq-defined semantics.
Beyond the fragment (search, not proof): for generated queries over all documented operators on all three
backends, the implementation's emitted program (parsed into the IR, re-print checked) is executed by the
Coq-defined `run_job` on generated events and compared with the reference semantics; a disagreement is the
concrete failing input."""
import ast
import collections
import json
import random
from typing import Any, Dict, List, Optional

from .. import core, fraggen, impl, qgen, semrun

PID = "C01"
PROP_FILE = "Properties/C01.v"
BACKENDS = ["atlas", "cms_aod", "cms_miniaod"]
TRUSTED = [
    "Coq 8.16.1 kernel (coqc); vm_compute only in the non-vacuity Examples",
    "C++-subset semantics coq/Cpp/Exec.v and IR printer coq/Cpp/IR.v (models of the emitted C++; validated by the re-print check on every program and, in C02's thorough tier, by g++ on the same text)",
    "fragment translator coq/Model/FragTranslate.v + coq/Model/FragQuery.v (rows; event filter, Select/SelectMany, whole jobs): tied to ast_to_cpp_translator.py by text equality of whole emitted programs on generated fragment queries",
    "reference semantics: Coq `de` for the fragment (compared with Python evaluation of the query source on every run); Python LINQ runtime tools/fv/qgen.py for the differential search",
    "emitted-code parser tools/fv/cxx.py (fail-closed, every parse is re-printed by the extracted Coq printer and compared with the emitted lines)",
    "func_adl 3.5.0 normalisations (third party) are inside the implementation run and outside the fragment model",
    "math functions and user C++ are uninterpreted on both sides",
]
ASSUME = [
    "C01_fragment_rows hypotheses: collection names do not end in a digit and do not start with '_' (bases_ok); the column member is declared with the column's type",
    "fragment guards: one comparison / negated comparison / flat and-or of those per Where (chained Where calls are fused into `and` by func_adl and are inside the fragment); nested and/or mixtures are outside",
    "C01_query_job hypotheses: query_ok (the same name conditions), member names pairwise distinct, no event on which the reference semantics is stuck (a bank holding a non-collection, a condition on an uninterpreted value)",
]

# query classes with a recorded genuine defect (DESIGN.md section 8); each template reproduces its class
KNOWN_TEMPLATES = {
    "c01:selectmany-seq-column": 'ds.SelectMany(lambda e: e.{C}("b1")).Select(lambda j: j.vals().Select(lambda x: x*2.0))',
    "c01:terminal-over-sequence-built-in-outer-loop": 'ds.Select(lambda e: e.{C}("b1").SelectMany(lambda j: j.vals()).Sum())',
    "c01:agg-summand-outer-only": 'ds.Select(lambda e: e.{C}("b1").Select(lambda o: e.{D}("b1").Select(lambda t: o.pt()).Sum()))',
    "c01:minmax-seeded-zero": 'ds.Select(lambda e: e.{C}("b1").Select(lambda j: j.pt()).Min())',
    "c01:range-bound-computed": 'ds.Select(lambda e: Range(0, e.{C}("b1").Count()).Select(lambda i: i*2.0).Sum())',
    "c01:aggregate-seed-computed": 'ds.Select(lambda e: e.{C}("b1").Select(lambda j: j.pt()).Aggregate(e.{D}("b1").Count(), lambda a, v: a + v))',
    "c01:shared-sequence-inside-own-loop": 'ds.Select(lambda e: e.{C}("b1")).SelectMany(lambda js: js.Select(lambda j: (j.pt(), js.Count())))',
    "c01:index-on-sequence-refused": 'ds.Select(lambda e: e.{C}("b1").Select(lambda j: j.pt())[0])',
}
TERMINALS = {"Sum", "Count", "Aggregate", "First", "Min", "Max"}


# Python forms outside the documented operator list that a translator may come to accept: chained comparisons (each link
# compares NEIGHBOURING operands), `in` over a literal tuple, floor division, bitwise and / or on booleans, a conditional
# chain, abs/min/max of numbers.  Refusing them is fine; accepting them and computing something else is not.
OPTIONAL_FORMS = [
    'ds.Select(lambda e: e.{C}("b1").Where(lambda j: 1 < j.pt() < 30).Count())',
    'ds.Select(lambda e: e.{C}("b1").Where(lambda j: 0 <= j.eta() < j.pt() <= 31).Select(lambda j: j.pt()))',
    'ds.Select(lambda e: e.{C}("b1").Select(lambda j: 1 if 0 < j.eta() < 2 else 0))',
    'ds.Where(lambda e: 0 < e.{C}("b1").Count() < 3).Select(lambda e: e.{D}("b1").Count())',
    'ds.Select(lambda e: e.{C}("b1").Where(lambda j: 30 > j.pt() > 1 != j.eta()).Count())',
    'ds.Select(lambda e: e.{C}("b1").Select(lambda j: j.nTrk() // 2))',
    'ds.Select(lambda e: e.{C}("b1").Where(lambda j: j.nTrk() in (1, 3, 7)).Count())',
    'ds.Select(lambda e: e.{C}("b1").Where(lambda j: (j.pt() > 1) & (j.eta() > 0)).Count())',
    'ds.Select(lambda e: e.{C}("b1").Where(lambda j: (j.pt() > 30) | (j.eta() > 0)).Count())',
    'ds.Select(lambda e: e.{C}("b1").Select(lambda j: abs(j.eta())))',
    'ds.Select(lambda e: e.{C}("b1").Select(lambda j: max(j.pt(), j.eta())))',
    'ds.Select(lambda e: e.{C}("b1").Select(lambda j: min(j.pt(), 1.5)))',
    'ds.Select(lambda e: e.{C}("b1").Select(lambda j: j.pt() if j.pt() > 30 else (j.eta() if j.eta() > 0 else 0.5)))',
    'ds.Select(lambda e: e.{C}("b1").Select(lambda j: -j.pt() + +j.eta()))',
    'ds.Select(lambda e: e.{C}("b1").Where(lambda j: not j.isGood()).Count())',
    'ds.Select(lambda e: e.{C}("b1").Where(lambda j: j.isGood() == True).Count())',
]


def classify(src: str) -> Optional[str]:
    """Known-defect class of a query, decided on its source only (None = no known defect applies)."""
    try:
        tree = ast.parse(src, mode="eval")
    except SyntaxError:
        return None
    found: List[str] = []

    def names(n):
        return {x.id for x in ast.walk(n) if isinstance(x, ast.Name)}

    def chain(call):
        """method names along the receiver chain of a call, outermost first"""
        out = []
        cur = call
        while isinstance(cur, ast.Call) and isinstance(cur.func, ast.Attribute):
            out.append((cur.func.attr, cur))
            cur = cur.func.value
        return out, cur

    for node in ast.walk(tree):
        if not isinstance(node, ast.Call) or not isinstance(node.func, ast.Attribute):
            continue
        ch, root = chain(node)
        ms = [m for m, _ in ch]
        if ms and ms[0] in TERMINALS:
            inner = ch[1:]
            # a Select/Where under the terminal whose lambda ignores its own parameter
            for m, c in inner:
                if m in ("Select", "Where") and c.args and isinstance(c.args[0], ast.Lambda):
                    lam = c.args[0]
                    # (a body that mentions no variable at all - a literal - is translated correctly and is not in this class)
                    if lam.args.args and names(lam.body) and lam.args.args[0].arg not in names(lam.body):
                        found.append("c01:agg-summand-outer-only")
            if any(m == "SelectMany" for m, _ in inner) and not (isinstance(root, ast.Name) and root.id == "ds"):
                found.append("c01:terminal-over-sequence-built-in-outer-loop")
            if ms[0] in ("Min", "Max"):
                found.append("c01:minmax-seeded-zero")
            if ms[0] == "Aggregate" and node.args and any(isinstance(x, ast.Call) for x in ast.walk(node.args[0])):
                found.append("c01:aggregate-seed-computed")
        if ms and ms[0] == "Select" and len(ch) >= 2 and ch[1][0] == "SelectMany" and isinstance(root, ast.Name) and root.id == "ds" or \
                (ms[:1] == ["Select"] and any(m == "SelectMany" for m, _ in ch[1:]) and _ends_at_ds(ch)):
            lam = node.args[0] if node.args and isinstance(node.args[0], ast.Lambda) else None
            if lam is not None and any(isinstance(x, ast.Call) and isinstance(x.func, ast.Attribute) and x.func.attr == "Select" for x in ast.walk(lam.body)):
                found.append("c01:selectmany-seq-column")
    # a sequence bound to a lambda parameter that is iterated (js.Select / js.SelectMany / js.Where ...) and used AGAIN inside
    # the lambda of that very iteration: the inner use re-uses the open loop instead of getting its own
    for node in ast.walk(tree):
        if (isinstance(node, ast.Call) and isinstance(node.func, ast.Attribute) and node.func.attr in ("Select", "SelectMany", "Where")
                and isinstance(node.func.value, ast.Name) and node.args and isinstance(node.args[0], ast.Lambda)
                and node.func.value.id in names(node.args[0].body)):
            found.append("c01:shared-sequence-inside-own-loop")
    for node in ast.walk(tree):
        if isinstance(node, ast.Call) and isinstance(node.func, ast.Name) and node.func.id == "Range":
            if any(isinstance(x, ast.Call) for a in node.args for x in ast.walk(a)):
                found.append("c01:range-bound-computed")
        if isinstance(node, ast.Subscript) and isinstance(node.value, ast.Call) and isinstance(node.value.func, ast.Attribute) \
                and node.value.func.attr in ("Select", "Where", "SelectMany"):
            found.append("c01:index-on-sequence-refused")
    return found[0] if found else None


def _ends_at_ds(ch) -> bool:
    cur = ch[-1][1].func.value if ch else None
    return isinstance(cur, ast.Name) and cur.id == "ds"


def frag_events(rng, uni, uses, n):
    return [qgen.gen_event(rng, uni, uses, sizes=[0, 1, 2, 3, 4]) for _ in range(n)]


def check(tier: str, seed: int, t0: float, build: core.BuildStatus) -> int:
    import logging

    import func_adl_xAOD.common.cpp_vars as cv

    logging.disable(logging.CRITICAL)
    ps = core.proof_status(PROP_FILE, build)
    oc = core.Outcome()
    rng = random.Random(seed * 7919 + 1)
    n_frag = 120 if tier == "quick" else 1500
    n_rand = 150 if tier == "quick" else 2500
    n_events = 6 if tier == "quick" else 12
    model = core.Model() if build.model_ok else None
    hist = collections.Counter()
    feat_hist = collections.Counter()
    distinct = set()
    samples: List[Any] = []
    unparsed = 0
    if model is not None:
        # ---------------- fragment: text tie, reference tie, execution ----------------
        for be in ("atlas", "cms_aod"):
            uni = qgen.Universe(be)
            idiom, tree, fill, _ = fraggen.BACKENDS[be]
            for _ in range(n_frag):
                src, sx, uses = fraggen.gen_row(rng, uni, rng.choice([0, 1, 2, 2, 3]))
                n0 = cv.unique_var_index
                c = semrun.translate(be, src, None, model)
                oc.evaluations += 1
                hist["fragment:" + c.status] += 1
                if c.status == "refused" and c.note.startswith("func_adl front end"):
                    # the third-party client library could not build the query object (its type-following pass raises on
                    # some shapes, e.g. a unary minus on a call inside a dict): no input reached /repo
                    hist["fragment:frontend-could-not-build"] += 1
                    continue
                if c.status != "ok":
                    oc.violations.append(core.Violation(
                        key="c01:fragment-" + c.status,
                        what=f"{be}: fragment query not translated ({c.error or c.note}): {src}",
                        replay={"kind": "fragment", "backend": be, "query": src, "status": c.status, "detail": str(c.error or c.note)}))
                    continue
                fraggen.fill_throw_lines(sx, c.qlines)
                for _nm, _cx in sx:
                    hist["fragment-column:" + str(_cx[0])] += 1
                r = model.call("c01.fragrow", [idiom, tree, fill, sx, n0])
                members = [ln.strip() for ln in c.pkg["slots"]["class_decl"]]
                same = r[0] == "ok" and r[1] == c.qlines and r[2] == members and r[3] == [f"{a}={b}" for a, b in c.prog[2]]
                if src.count("Count") + src.count("Sum") + src.count("Select(lambda y") >= 2 or "Where" in src:
                    distinct.add((be, src))
                evs = frag_events(rng, uni, uses, n_events)
                diffs, unsup = semrun.differential(model, c, uni, evs)
                # Coq reference `de` vs Python evaluation of the source
                ref_bad = None
                for ev in evs:
                    dr = model.call("c01.denote_row", [sx, qgen.event_wire(ev)])
                    pr = qgen.reference_event(src, ev, uni)
                    if dr[0] == "ok" and pr[0] == "rows" and semrun.rows_equal([dr[1]], pr[1]):
                        continue
                    if dr[0] == "fault" and pr[0] == "fault":
                        continue
                    if (dr[0] == "fault" and "div_zero" in str(dr[1:])) or (pr[0] == "fault" and pr[1] == "div_zero"):
                        semrun.DIV_ZERO_SKIPPED[0] += 1   # one-sided division by zero: outside the shared value domain (semrun.compare_event)
                        continue
                    ref_bad = {"event": ev, "coq": dr, "python": pr}
                    break
                if diffs:
                    i, d = diffs[0]
                    oc.violations.append(core.Violation(
                        key="c01:fragment-rows", what=f"{be}: {d} for fragment query {src}",
                        replay={"kind": "query", "backend": be, "query": src, "metadata": "none", "event": evs[i], "difference": d,
                                "broken": "differential: Coq-defined execution of the implementation's program vs reference semantics"}))
                elif not same or ref_bad or unsup:
                    oc.correspondence_breaks.append({"backend": be, "query": src,
                                                     "model_lines": r[1] if r[0] == "ok" else r, "emitted_lines": c.qlines,
                                                     "reference_mismatch": ref_bad, "unsupported": unsup})
                else:
                    oc.traces_validated_against_impl += 1
                    if len(samples) < 3:
                        samples.append({"kind": "fragment", "backend": be, "query": src, "events": len(evs), "program_lines": len(c.qlines)})
        # ---------------- fragment F1: event filter, Select / SelectMany (whole queries) ----------------
        for be in ("atlas", "cms_aod", "cms_miniaod"):
            uni = qgen.Universe(be)
            idiom, tree, fill, _ = fraggen.BACKENDS[be]
            for _ in range(n_frag):
                src, sx, uses, kind = fraggen.gen_query_f1(rng, uni, rng.choice([0, 1, 2]))
                n0 = cv.unique_var_index
                c = semrun.translate(be, src, None, model)
                oc.evaluations += 1
                hist[f"f1:{kind}:{'filter' if sx[0] else 'nofilter'}:" + c.status] += 1
                if c.status == "refused" and c.note.startswith("func_adl front end"):
                    hist["f1:frontend-could-not-build"] += 1
                    continue
                if c.status != "ok":
                    oc.violations.append(core.Violation(
                        key="c01:fragment-" + c.status,
                        what=f"{be}: fragment query not translated ({c.error or c.note}): {src}",
                        replay={"kind": "fragment", "backend": be, "query": src, "status": c.status, "detail": str(c.error or c.note)}))
                    continue
                fraggen.fill_throw_lines(sx, c.qlines)
                if kind == "select":
                    for _nm, _cx in sx[1][1]:
                        hist["f1-column:" + str(_cx[0])] += 1
                r = model.call("c01.fragq", [idiom, tree, fill, sx, n0])
                members = [ln.strip() for ln in c.pkg["slots"]["class_decl"]]
                token_inits = [ln.strip() for ln in c.pkg["slots"]["book_code"] if "consumes<" in ln]
                same = (r[0] == "ok" and r[1] == c.qlines and r[2] == members and r[3] == [f"{a}={b}" for a, b in c.prog[2]]
                        and r[4] == token_inits)
                distinct.add((be, src))
                evs = frag_events(rng, uni, uses, n_events)
                diffs, unsup = semrun.differential(model, c, uni, evs)
                ref_bad = None
                for ev in evs:
                    dr = model.call("c01.denote_q", [sx, qgen.event_wire(ev)])
                    pr = qgen.reference_event(src, ev, uni)
                    if dr[0] == "ok" and pr[0] == "rows" and semrun.rows_equal(dr[1], pr[1]):
                        continue
                    if dr[0] == "fault" and pr[0] == "fault":
                        continue
                    if (dr[0] == "fault" and "div_zero" in str(dr[1:])) or (pr[0] == "fault" and pr[1] == "div_zero"):
                        semrun.DIV_ZERO_SKIPPED[0] += 1   # one-sided division by zero: outside the shared value domain (semrun.compare_event)
                        continue
                    ref_bad = {"event": ev, "coq": dr, "python": pr}
                    break
                if diffs:
                    i, d = diffs[0]
                    oc.violations.append(core.Violation(
                        key="c01:fragment-rows", what=f"{be}: {d} for fragment query {src}",
                        replay={"kind": "query", "backend": be, "query": src, "metadata": "none", "event": evs[i], "difference": d,
                                "broken": "differential: Coq-defined execution of the implementation's program vs reference semantics"}))
                elif not same or ref_bad or unsup:
                    oc.correspondence_breaks.append({"backend": be, "query": src,
                                                     "model_lines": r[1] if r[0] == "ok" else r, "emitted_lines": c.qlines,
                                                     "model_members": r[2] if r[0] == "ok" else None, "emitted_members": members,
                                                     "model_token_inits": r[4] if r[0] == "ok" else None, "emitted_token_inits": token_inits,
                                                     "reference_mismatch": ref_bad, "unsupported": unsup})
                else:
                    oc.traces_validated_against_impl += 1
                    if len(samples) < 5:
                        samples.append({"kind": "fragment-F1", "backend": be, "query": src, "events": len(evs), "program_lines": len(c.qlines)})
        # ---------------- known-finding templates ----------------
        for be in BACKENDS:
            uni = qgen.Universe(be)
            md = uni.metadata()
            cs = list(uni.colls)
            for key, tmpl in KNOWN_TEMPLATES.items():
                src = tmpl.replace("{C}", cs[0]).replace("{D}", cs[1])
                c = semrun.translate(be, src, md, model)
                oc.evaluations += 1
                bad = None
                if c.status == "refused":
                    bad = f"documented form refused: {c.error}"
                elif c.status == "ok":
                    evs = [qgen.gen_event(rng, uni, [(cs[0], "b1"), (cs[1], "b1")], sizes=[0, 1, 2, 3]) for _ in range(10)]
                    diffs, _ = semrun.differential(model, c, uni, evs)
                    if diffs:
                        bad = diffs[0][1]
                if bad:
                    oc.violations.append(core.Violation(key=key, what=f"{be}: {bad}: {src}", replay={"kind": "query", "backend": be, "query": src, "difference": bad}))
        # ---------------- forms the implementation may refuse; if it accepts one, the job computes what Python means ----------------
        for be in BACKENDS:
            uni = qgen.Universe(be)
            md = uni.metadata()
            cs = list(uni.colls)
            for tmpl in OPTIONAL_FORMS:
                src = tmpl.replace("{C}", cs[0]).replace("{D}", cs[1])
                c = semrun.translate(be, src, md, model)
                oc.evaluations += 1
                hist[f"optional-form:{c.status}"] += 1
                if c.status == "refused":
                    continue   # C09's subject
                if c.status != "ok":
                    # accepted, but the emitted code is outside the C++ subset the executor understands: what the job computes
                    # for this form is not shown
                    oc.violations.append(core.Violation(key="c01:unparsed", what=f"{be}: {src}: accepted, and the emitted code is outside the IR grammar ({c.note})",
                                                        no_failing_input=True,
                                                        replay={"broken": f"optional form accepted with code outside the IR grammar: {c.note}", "backend": be, "query": src,
                                                                "searched": "the form could not be executed"}))
                    continue
                evs = [qgen.gen_event(rng, uni, [(cs[0], "b1"), (cs[1], "b1")], sizes=[0, 1, 2, 3, 4]) for _ in range(12)]
                diffs, unsup = semrun.differential(model, c, uni, evs)
                if diffs:
                    i, d = diffs[0]
                    oc.violations.append(core.Violation(key="c01:rows", what=f"{be}: {d}: {src}",
                                                        replay={"kind": "query", "backend": be, "query": src, "metadata": "universe", "event": evs[i], "difference": d}))
                elif unsup and unsup.startswith("exec: opaque"):
                    # accepted, and the emitted code uses an expression form the executor does not interpret: undecided
                    oc.violations.append(core.Violation(key="c01:unparsed", what=f"{be}: {src}: accepted, and the emitted code cannot be executed by the model ({unsup})",
                                                        no_failing_input=True,
                                                        replay={"broken": f"optional form accepted with an expression outside the executable subset: {unsup}", "backend": be, "query": src,
                                                                "searched": "the form could not be executed"}))
                elif not unsup:
                    oc.traces_validated_against_impl += 1
        # ---------------- random queries over all documented operators ----------------
        for be in BACKENDS:
            uni = qgen.Universe(be)
            md = uni.metadata()
            for _ in range(n_rand):
                src, q = qgen.gen_query(rng, uni, depth=rng.choice([1, 2, 3, 3] if tier == "quick" else [1, 2, 3, 3, 4]),
                                        allow=("first", "aggregate", "range", "selectmany_inside", "shared_shapes", "index", "flatseq"))
                c = semrun.translate(be, src, md, model)
                oc.evaluations += 1
                for f in q.feat:
                    feat_hist[f] += 1
                hist[f"random:{c.status}"] += 1
                if c.status == "refused":
                    if c.note.startswith("func_adl front end"):
                        hist["random:frontend-refused"] += 1
                        continue
                    key = classify(src) or "c01:refused"
                    oc.violations.append(core.Violation(
                        key=key, what=f"{be}: query built from documented operators is refused ({c.error}): {src}",
                        replay={"kind": "query", "backend": be, "query": src, "error": list(c.error or [])}))
                    continue
                if c.status != "ok":
                    unparsed += 1
                    key = classify(src)
                    if key is None:
                        oc.correspondence_breaks.append({"backend": be, "query": src, "unparsed": c.note})
                    else:
                        oc.violations.append(core.Violation(key=key, what=f"{be}: emitted code is not in the C++ subset ({c.note}): {src}",
                                                            replay={"kind": "query", "backend": be, "query": src, "difference": c.note}))
                    continue
                if q.ops >= 3:
                    distinct.add((be, src))
                evs = [qgen.gen_event(rng, uni, q.uses) for _ in range(n_events)]
                diffs, unsup = semrun.differential(model, c, uni, evs)
                if unsup:
                    hist["random:not-comparable"] += 1
                    continue
                if diffs:
                    i, d = diffs[0]
                    key = classify(src) or "c01:rows"
                    oc.violations.append(core.Violation(
                        key=key, what=f"{be}: {d}: {src}",
                        replay={"kind": "query", "backend": be, "query": src, "event": evs[i], "difference": d,
                                "broken": "differential: Coq-defined execution of the implementation's program vs reference semantics"}))
                else:
                    hist["random:agree"] += 1
                    oc.traces_validated_against_impl += 1
                    if len(samples) < 6 and q.ops >= 4:
                        samples.append({"kind": "random", "backend": be, "query": src, "events": len(evs)})
        model.close()
    oc.distinct_nontrivial = len(distinct)
    oc.rule = (f"fragment F1: {n_frag} generated whole queries (optional event filter; Select(ROW) or SelectMany(coll[.Where].Select(PROW)), inside and chained styles) x (atlas, cms_aod), same comparisons; "
               f"fragment: {n_frag} generated fragment rows (1-3 columns: scalar expressions over Count/Sum, vector columns; bare/tuple/list/dict terminals) x (atlas, cms_aod), text of the fragment translator compared with the emitted program, "
               f"Coq reference vs Python reference, {n_events} events each; known-finding templates x 3 backends; "
               f"random: {n_rand} typed queries per backend (depth 1-4; Select/SelectMany/Where/Count/Sum/Aggregate/First/Range/arithmetic/comparison/and-or-not/conditional/math functions/tuple-list-dict rows/1-D and 2-D columns) "
               f"x {n_events} events (collection sizes 0-4, value lattice with ties, zeros, negatives); non-trivial = at least 3 operators (fragment: two Counts or a Where); distinct by (backend, source)")
    oc.samples = samples or ["(no case was generated)"]
    known_keys = {k["key"] for k in core.known_findings() if k.get("property") == PID and k.get("status") == "known"}
    oc.extra = {"events_undecided_one_sided_division_by_zero": semrun.DIV_ZERO_SKIPPED[0], "histogram": dict(hist), "feature_histogram": dict(feat_hist), "programs_outside_ir": unparsed,
                "explanation": "proof: fragment F1 for all queries x event lists (jobs) x member states; correspondence: fragment translator text == implementation text; search: differential execution for generated queries beyond the fragment",
                "model_available": model is not None}
    if not [v for v in oc.violations if v.key not in known_keys] and (ps.broken or oc.correspondence_breaks or model is None or core.build_hygiene_cache()):
        what = ps.broken or (f"correspondence of the fragment translator / IR with the implementation: {json.dumps(oc.correspondence_breaks[0])[:600]}" if oc.correspondence_breaks else
                             ("hygiene gate: " + "; ".join(core.build_hygiene_cache()) if core.build_hygiene_cache() else "model executable could not be built"))
        oc.violations.append(core.Violation(key="c01:unproved", what=what, no_failing_input=True,
                                            replay={"broken": what, "searched": f"{oc.evaluations} queries x {n_events} events with the differential oracle, no disagreement outside the known findings"}))
    return core.finish(PID, tier, seed, t0, ps, build, oc, TRUSTED, ASSUME)


def replay(path: str, build: core.BuildStatus) -> int:
    import logging

    logging.disable(logging.CRITICAL)
    data = json.loads(open(path).read())
    if data.get("no_failing_input_found"):
        print(f"replay names a broken obligation only: {data.get('broken')}")
        ps = core.proof_status(PROP_FILE, build)
        print("proof status now:", ps.broken or "all theorems check")
        return 1 if ps.broken else 0
    be, src = data["backend"], data["query"]
    uni = qgen.Universe(be)
    model = core.Model()
    md = None if data.get("metadata") == "none" else uni.metadata()
    c = semrun.translate(be, src, md, model)
    print("translation:", c.status, c.error or c.note)
    bad = c.status != "ok"
    if c.status == "ok":
        evs = [data["event"]] if "event" in data else [qgen.gen_event(random.Random(i), uni, [(n, "b1") for n in uni.colls], sizes=[0, 1, 2, 3]) for i in range(12)]
        diffs, unsup = semrun.differential(model, c, uni, evs)
        for i, d in diffs[:3]:
            print("event", i, ":", d)
        bad = bool(diffs)
    if bad:
        print(f"VIOLATION property={PID} replay={path}")
        return 1
    print("the job computes the rows the query denotes on the stored input")
    return 0
