"""C04 - faults are equivalent (loud on empty First / bad index / null link, never spurious) and evaluation
is as lazy as the query.

Proved (Properties/C04.v, all closed): for the translator's lowering SCHEMAS (Model/Lowering.v: and/or, the
conditional, Where, First, at(), the null-link guard) and ALL sub-fragments x all events x all states: later
operands / the untaken arm / the guarded block are not executed; First faults iff no element passes its guards
and otherwise captures exactly the first passing element; at() faults iff the index is out of range.
Sampled (this file): that the code the implementation emits for a query IS an instance of those schemas - the
extracted recognisers (c04.recognise) run on the parsed program of every generated query on all three backends
- and the differential run of the Coq-defined Exec against the reference semantics of the query on events
designed to trigger or not trigger each fault, which supplies concrete failing inputs."""
import ast
import json
import logging
import os
import random
import re
import time
from collections import Counter
from typing import Any, Dict, List, Optional, Tuple

from .. import c04gen, core, qgen, semrun

PID = "C04"
PROP_FILE = "Properties/C04.v"
BACKENDS = ["atlas", "cms_aod", "cms_miniaod"]
TRUSTED = [
    "Coq 8.16.1 kernel; the theorems are about the IR semantics Cpp/Exec.v (a model of the C++ subset the translator emits: block-entry initialisers, for-each over vector values, at() bounds check, member call on a null link faults)",
    "tools/fv/cxx.py parser of the emitted text into the IR (fail-closed, round trip through the Coq printer compared with the emitted lines for every case)",
    "extraction + OCaml driver (recognisers c04.recognise and the executor cpp.run are the extracted Coq functions)",
    "reference semantics of the query = Python evaluation over the LINQ runtime of tools/fv/qgen.py (+ isNonnull), eager in Select results",
    "stand-in data model: a nullable link is a method-table entry (object | null); the CMS injected block `auto result = (o.link()).isNonnull();` is executed as a table lookup kept consistent with the link by the event generator (tools/fv/c04gen.py standin_nonnull)",
    "the for-ALL-queries part is sampled: templates of guard shapes x generated queries (counts and feature histogram in the evidence); the for-all-events/sub-fragments part is proved",
]
ASSUME = [
    "func_adl 3.5.0's own AST passes (Select fusion, tuple/lambda substitution) are third-party and unmodelled: the reference evaluates the source text",
    "fault kinds are not compared (query semantics does not order simultaneous faults); only fault vs rows",
]


# ------------------------------------------------------------------------------------------------
# input classes (functions of the query source only)
# ------------------------------------------------------------------------------------------------
def _chain_has(node: ast.AST, name: str) -> bool:
    """does the receiver chain of a call (x.A(..).B(..)...) contain a call to method `name`, not counting
    calls on the dataset itself"""
    cur = node
    while isinstance(cur, ast.Call) and isinstance(cur.func, ast.Attribute):
        if cur.func.attr == name and not (isinstance(cur.func.value, ast.Name) and cur.func.value.id == "ds") and not _on_ds(cur.func.value):
            return True
        cur = cur.func.value
    return False


def _on_ds(node: ast.AST) -> bool:
    cur = node
    while isinstance(cur, ast.Call) and isinstance(cur.func, ast.Attribute):
        cur = cur.func.value
    return isinstance(cur, ast.Name) and cur.id == "ds"


def input_classes(src: str) -> set:
    out = set()
    try:
        tree = ast.parse(src, mode="eval")
    except SyntaxError:
        return out
    for n in ast.walk(tree):
        if isinstance(n, ast.Call) and isinstance(n.func, ast.Attribute):
            if n.func.attr in ("First", "Count", "Sum", "Aggregate", "Max", "Min") and _chain_has(n.func.value, "SelectMany"):
                out.add("terminal_after_selectmany")
            if n.func.attr == "First":
                out.add("first")
                # a Where before this First whose predicate holds a partial operation (index, First, Max, Min)
                c = n.func.value
                while isinstance(c, ast.Call) and isinstance(c.func, ast.Attribute):
                    if c.func.attr == "Where" and c.args and isinstance(c.args[0], ast.Lambda):
                        for m in ast.walk(c.args[0].body):
                            if (isinstance(m, ast.Subscript) and not isinstance(m.value, ast.Name)) or (
                                    isinstance(m, ast.Call) and isinstance(m.func, ast.Attribute) and m.func.attr in ("First", "Max", "Min")):
                                out.add("partial_filter_before_first")
                    c = c.func.value
        if isinstance(n, ast.Tuple):
            for el in n.elts:
                if isinstance(el, ast.Call) and isinstance(el.func, ast.Attribute) and el.func.attr == "First":
                    out.add("first_bound_in_tuple")
        if isinstance(n, ast.Subscript) and not isinstance(n.value, ast.Name):
            out.add("index")
        if isinstance(n, ast.Attribute) and n.attr == c04gen.LINK:
            out.add("link")
    return out


def n_subscripts(src: str) -> int:
    """subscripts applied to something other than a lambda parameter (tuple access t[0] is not indexing)"""
    try:
        tree = ast.parse(src, mode="eval")
    except SyntaxError:
        return 0
    return sum(1 for n in ast.walk(tree) if isinstance(n, ast.Subscript) and not isinstance(n.value, ast.Name))


def n_ops(src: str) -> int:
    return len(re.findall(r"\.\w+\(", src)) + len(re.findall(r"\b(and|or|if)\b", src))


# ------------------------------------------------------------------------------------------------
# one case
# ------------------------------------------------------------------------------------------------
class Res:
    def __init__(self):
        self.status = ""
        self.verdicts: List[Tuple[str, str, bool]] = []
        self.at_calls = 0
        self.diffs: List[Tuple[int, str, str, Any, Any]] = []  # event index, kind, text, job, reference
        self.unsupported: Optional[str] = None
        self.n_events = 0
        self.ev_hist: Counter = Counter()
        self.qlines: List[str] = []
        self.note = ""


def job_outcome(j) -> Tuple[str, Any]:
    if j[0] == "stuck":
        return "stuck", j[2]
    if j[0] == "abort":
        return "fault", j[3]
    return "rows", j[1][0]


def run_case(model: core.Model, backend: str, uni: qgen.Universe, src: str, events: List[Dict[str, Any]], do_diff: bool = True, values: bool = True) -> Res:
    r = Res()
    c = semrun.translate(backend, src, c04gen.metadata(uni), model)
    r.status = c.status
    r.note = str(c.error or c.note)
    if c.status != "ok":
        return r
    r.qlines = c.qlines
    rec = model.call("c04.recognise", c.prog[4])
    if rec[0] != "ok":
        r.status = "unparsed"
        r.note = "recogniser refused the program"
        return r
    r.verdicts = [(k, n, ok in (True, "true")) for k, n, ok in rec[1]]
    r.at_calls = int(rec[2])
    if not do_diff:
        return r
    c04gen.standin_nonnull(c.prog)
    # values are compared for the guard-shaped templates (every column there is a partial operation or its
    # guard); for freely generated queries a pure value difference with equal fault status and row count is
    # C01's subject (e.g. an aggregate of an outer-variable expression), counted and left to it
    partial = values and bool(input_classes(src) & {"first", "index", "link"})
    for i, ev in enumerate(events):
        try:
            ref = c04gen.reference_event(src, ev, uni)
        except qgen.RefUnsupported as e:
            r.unsupported = f"reference: {e}"
            return r
        kind, val = job_outcome(semrun.execute(model, c.prog, [ev]))
        if kind == "stuck" and val[0] == "opaque":
            r.unsupported = f"exec: opaque {str(val[1])[:60]}"
            return r
        r.n_events += 1
        r.ev_hist[(ref[0], kind)] += 1
        if kind == "stuck" and val[0] == "unbound":
            # an identifier used outside the block that declares it: the package does not compile (C02's
            # subject); there is no job whose faults could be compared
            r.diffs.append((i, "does-not-compile(C02)", f"generated code uses {val[1]} out of scope", [kind, val], ref))
        elif kind == "stuck":
            r.diffs.append((i, "not-executable", f"generated code is not executable C++ on this event: {val}", [kind, val], ref))
        elif (ref[0] == "fault" and ref[1] == "div_zero" and kind != "fault") or (kind == "fault" and "div_zero" in str(val) and ref[0] != "fault"):
            semrun.DIV_ZERO_SKIPPED[0] += 1  # outside the shared value domain (see semrun.compare_event)
        elif ref[0] == "fault" and kind != "fault":
            r.diffs.append((i, "silent-no-fault", f"query is undefined on this event ({ref[1]}) but the job wrote {len(val)} row(s) and did not fail", [kind, val], ref))
        elif ref[0] == "rows" and kind == "fault":
            r.diffs.append((i, "spurious-fault", f"job fails ({val}) on an event where the query is defined", [kind, val], ref))
        elif ref[0] == "rows" and len(val) != len(ref[1]):
            r.diffs.append((i, "rows-dropped", f"row count differs: job {len(val)} vs query {len(ref[1])}", [kind, val], ref))
        elif ref[0] == "rows" and not semrun.rows_equal(val, ref[1]):
            k = "stale-or-default-value" if partial else "value-only(C01)"
            r.diffs.append((i, k, f"rows differ: job {semrun.show_rows(val)} vs query {semrun.show_rows(ref[1])}", [kind, val], ref))
    return r


def violation_key(src: str, kind: str, ref) -> str:
    cls = input_classes(src)
    if "terminal_after_selectmany" in cls:
        return "c04:terminal-after-selectmany"
    if "first_bound_in_tuple" in cls and kind == "silent-no-fault" and ref[0] == "fault" and ref[1] == "first_empty":
        return "c04:first-bound-then-guarded"
    if "partial_filter_before_first" in cls and kind == "spurious-fault":
        return "c04:first-keeps-filtering"
    return f"c04:{kind}"


def miniaod_usable(model: core.Model) -> Tuple[bool, str]:
    """The C06 defects of the unchanged tree (no branch booked, one shared token) make the miniAOD job's rows
    and collections meaningless; the differential run is only meaningful once they are repaired."""
    uni = qgen.Universe("cms_miniaod")
    c = semrun.translate("cms_miniaod", 'ds.Select(lambda e: (e.Muons("b1").Count(), e.Electrons("b2").Count()))', uni.metadata(), model)
    if c.status != "ok":
        return False, f"probe query not translated: {c.status} {c.error or c.note}"
    if len(c.prog[2]) != 2:
        return False, "no branch is booked (C06: misplaced f-prefix in cms/miniaod/query_ast_visitor.py)"
    banks = set()

    def walk(b):
        for s in b[2]:
            if s[0] == "fetch":
                banks.add(s[4])
            elif s[0] == "for":
                walk(s[3])
            elif s[0] == "if":
                walk(s[2])
                for e in s[3]:
                    walk(e)
            elif s[0] == "block":
                walk(s[1])

    walk(c.prog[4])
    if banks != {"b1", "b2"}:
        return False, f"collections share one token (C06: class-level token name): banks read {sorted(banks)}"
    return True, ""


# ------------------------------------------------------------------------------------------------
CONTAINER_TYPES = [None, "std::vector<{e}>", "FvNS::{n}Vector", "xAOD::JetConstituentVector", "ROOT::VecOps::RVec<{e}>", "DataVector<{e}>", "FvNS::{n}Vector*", "std::array<{e}, 4>"]


def declared_container_indexing(oc: core.Outcome, rng: random.Random) -> Dict[str, int]:
    """Indexing a collection that a METHOD returns, whatever container type the metadata declares for it, is the
    bounds-checked at() (at_faults_iff_out_of_range is about that access and no other): text of the emitted code."""
    from .. import impl

    hist: Dict[str, int] = Counter()
    for backend in BACKENDS:
        uni = qgen.Universe(backend)
        cname, (_, etype) = list(uni.colls.items())[0]
        for ct in CONTAINER_TYPES:
            for elem, leaf in (("double", ""), ("FvNS::Part", ".pt()")):
                k = rng.choice([0, 1, 2, 5])
                k2 = rng.choice([0, 1, 3])
                decl = {"metadata_type": "add_method_type_info", "type_string": etype, "method_name": "parts", "return_type_element": elem}
                if ct is not None:
                    decl["return_type_collection"] = ct.format(e=elem, n="Part" if leaf else "Dbl")
                md = uni.metadata() + [decl, {"metadata_type": "add_method_type_info", "type_string": "FvNS::Part", "method_name": "pt", "return_type": "double"}]
                shapes = [(1, f'ds.SelectMany(lambda e: e.{cname}("b")).Select(lambda j: j.parts()[{k}]{leaf})'),
                          (2, f'ds.SelectMany(lambda e: e.{cname}("b")).Select(lambda j: j.parts()[{k}]{leaf} * 2 + j.parts()[{k2}]{leaf})'),
                          (1, f'ds.Select(lambda e: e.{cname}("b").Where(lambda j: j.parts()[{k}]{leaf} > 1).Count())'),
                          (1, f'ds.Select(lambda e: e.{cname}("b").Select(lambda j: j.parts()[{k}]{leaf}))'),
                          (1, f'ds.Select(lambda e: e.{cname}("b")[{k2}].parts()[{k}]{leaf})')]
                for n_sub, src in shapes:
                    try:
                        r = impl.translate(backend, impl.query_ast(src, md))
                    except Exception as e:  # noqa: BLE001
                        r = ("error", type(e).__name__, str(e))
                    impl.reset_globals()
                    oc.evaluations += 1
                    if r[0] != "ok":
                        hist["refused"] += 1
                        continue
                    code = "\n".join(str(x) for x in r[1]["slots"]["query_code"])
                    n_at = len(re.findall(r"parts\(\)\s*(?:\.|->)\s*at\s*\(", code))
                    hist["at()" if n_at >= n_sub else "NOT at()"] += 1
                    if n_at < n_sub:
                        short = {"collections": {f"{cname}:b": [{"parts": ["<fewer than %d elements>" % (max(k, k2) + 1)]}]}}
                        oc.violations.append(core.Violation(
                            "c04:index-not-bounds-checked",
                            f"{backend}: container declared as {decl.get('return_type_collection', '(default std::vector)')}: {n_sub} subscript(s) on parts() in the query but {n_at} "
                            f"at() call(s) in the emitted code  [{src}]",
                            {"backend": backend, "query": src, "metadata": [decl], "event": short, "query_outcome": ["fault", "index"],
                             "job_outcome": "the emitted access is not the bounds-checked at(): nothing fails loudly past the end (undefined behaviour in C++)",
                             "emitted_code": code.splitlines(), "broken": "at_faults_iff_out_of_range is about sub_lower = .at(i)"}))
    return dict(hist)


def check(tier: str, seed: int, t0: float, build: core.BuildStatus) -> int:
    logging.disable(logging.CRITICAL)
    ps = core.proof_status(PROP_FILE, build)
    oc = core.Outcome()
    oc.rule = (
        "theorems over the lowering schemas: all sub-fragments x all events x all states (proved); "
        "schema-instance recognisers + Exec-vs-reference differential on fault-designed events: sampled queries on three backends"
    )
    if not build.model_ok:
        oc.violations.append(core.Violation("c04:model-missing", "extracted model did not build", {"build_failed": build.failed}, True))
        return core.finish(PID, tier, seed, t0, ps, build, oc, TRUSTED, ASSUME)
    model = core.Model()
    rng = random.Random(seed * 7919 + 4)
    rounds = 2 if tier == "quick" else 6
    n_random = 250 if tier == "quick" else 1500
    budget = 100 if tier == "quick" else 780
    mini_ok, mini_note = miniaod_usable(model)
    feat_hist: Counter = Counter()
    status_hist: Counter = Counter()
    rec_hist: Counter = Counter()
    ev_hist: Counter = Counter()
    diff_hist: Counter = Counter()
    distinct = set()
    value_only = 0
    not_compilable: List[Dict[str, Any]] = []
    schema_only: List[Any] = []
    unsupported = 0
    rejected: List[Dict[str, Any]] = []
    samples = []
    seen_keys = set()

    def handle(backend, uni, src, uses, feat, origin):
        nonlocal value_only, unsupported
        do_diff = backend != "cms_miniaod" or mini_ok
        evs = c04gen.events_for(rng, uni, uses, 2 if tier == "quick" else 4) if do_diff else []
        r = run_case(model, backend, uni, src, evs, do_diff, origin == "template")
        status_hist[(backend, origin, r.status)] += 1
        if r.status != "ok":
            return
        for f in feat:
            feat_hist[f] += 1
        if n_ops(src) >= 3:
            distinct.add((backend, src))
        oc.evaluations += r.n_events
        oc.traces_validated_against_impl += 1
        ev_hist.update({f"{backend}:{a}/{b}": n for (a, b), n in r.ev_hist.items()})
        bad_verdicts = [(k, n) for k, n, ok in r.verdicts if not ok]
        for k, n, ok in r.verdicts:
            rec_hist[(k, "accepted" if ok else "REJECTED")] += 1
        if r.unsupported:
            unsupported += 1
        real = [d for d in r.diffs if d[1] not in ("value-only(C01)", "does-not-compile(C02)")]
        value_only += sum(1 for d in r.diffs if d[1] == "value-only(C01)")
        if real:
            from . import c01 as _c01
            if _c01.classify(src) == "c01:agg-summand-outer-only":
                # an aggregate whose summand ignores its own element has the WRONG VALUE (known finding of C01 / C02: the update is
                # emitted outside the inner loop); which element then passes a filter follows from that value - left to C01
                value_only += len(real)
                real = []
        for d in r.diffs:
            if d[1] == "does-not-compile(C02)":
                not_compilable.append({"backend": backend, "query": src, "what": d[2]})
                break
        if len(samples) < 8 and not real and not bad_verdicts and r.n_events:
            samples.append({"backend": backend, "query": src, "recognised": [f"{k}:{n}" for k, n, _ in r.verdicts], "events": dict((f"{a}/{b}", n) for (a, b), n in r.ev_hist.items())})
        if bad_verdicts:
            oc.correspondence_breaks.append({"backend": backend, "query": src, "rejected": bad_verdicts, "code": r.qlines})
            rejected.append({"backend": backend, "query": src, "rejected": bad_verdicts, "has_failing_input": bool(real)})
        for i, kind, text, job, ref in real[:1]:
            key = violation_key(src, kind, ref)
            if kind == "spurious-fault" and "first_of_first" in feat and src.count(".First()") >= 2:
                # the outer First does not stop the loop (known finding first-keeps-filtering): the BODY before it - here an inner
                # First - is evaluated on the later elements too and fails where one of them is undefined.  That is the known class
                # exactly when evaluating the body on EVERY element fails on this event; a fault on an event where every element's
                # body is defined is something else
                head, _, tail = src.rpartition(".First()")
                try:
                    eager = c04gen.reference_event(head + ".Count()" + tail, evs[i], uni)
                except qgen.RefUnsupported:
                    eager = None
                if eager is not None and eager[0] == "fault":
                    key = "c04:first-keeps-filtering"
            diff_hist[key] += 1
            oc.violations.append(core.Violation(
                key,
                f"{backend}: {text}  [{src}]",
                {"backend": backend, "query": src, "event": evs[i], "values_compared": origin == "template", "job_outcome": job, "query_outcome": ref,
                 "recogniser_rejections": bad_verdicts, "broken": "differential Exec vs reference (C04 oracle: fault equivalence, no dropped row, no stale value)",
                 "emitted_code": r.qlines},
            ))
        if bad_verdicts and not real:
            schema_only.append((backend, src, bad_verdicts, r.qlines))
        want_at = n_subscripts(src)
        if r.at_calls < want_at:
            # indexing not lowered to the bounds-checked at(): look for an event on which the query is undefined
            # because of the index (the emitted access then has no check that could fail loudly)
            witness = None
            for ev in evs:
                try:
                    ref = c04gen.reference_event(src, ev, uni)
                except qgen.RefUnsupported:
                    break
                if ref == ["fault", "index"]:
                    witness = ev
                    break
            oc.violations.append(core.Violation(
                "c04:index-not-bounds-checked",
                f"{backend}: {want_at} subscript(s) in the query but {r.at_calls} at() call(s) in the emitted code  [{src}]",
                {"backend": backend, "query": src, "event": witness, "query_outcome": ["fault", "index"] if witness else None,
                 "job_outcome": "the emitted access is not the bounds-checked at(): nothing fails loudly past the end (undefined behaviour in C++)",
                 "emitted_code": r.qlines, "broken": "at_faults_iff_out_of_range is about sub_lower = .at(i)"},
                no_failing_input=witness is None,
            ))

    for rd in range(rounds):
        for backend in BACKENDS:
            uni = qgen.Universe(backend)
            for t in c04gen.templates(uni, rng):
                if time.time() - t0 > budget:
                    break
                handle(backend, uni, t.src, t.uses, t.feat | {"template"}, "template")
    for backend in BACKENDS:
        uni = qgen.Universe(backend)
        done = 0
        tries = 0
        while done < n_random and tries < n_random * 6 and time.time() - t0 < budget:
            tries += 1
            src, q = qgen.gen_query(rng, uni, depth=rng.choice([1, 2, 3]), allow=["first", "selectmany_inside", "shared_shapes"])
            if not ({"first", "boolop", "ifexp", "event_where"} & q.feat):
                continue
            done += 1
            handle(backend, uni, src, q.uses, set(q.feat) | {"generated"}, "generated")
    model.close()
    declared_index = declared_container_indexing(oc, rng)

    known_keys = {k["key"] for k in core.known_findings() if k.get("property") == PID and k.get("status") == "known"}
    concrete = [v for v in oc.violations if not v.no_failing_input and v.key not in known_keys]
    if schema_only and not concrete:
        # correspondence break for which the search found no failing input: exactly one such violation
        backend, src, bad, lines = schema_only[0]
        oc.violations.append(core.Violation(
            "c04:schema-instance-" + bad[0][0],
            f"{backend}: emitted code around {bad[0][1]} is not an instance of the lowering schema the theorems are about ({len(schema_only)} such case(s))  [{src}]",
            {"backend": backend, "query": src, "rejected": bad, "emitted_code": lines, "broken": "recogniser " + bad[0][0]},
            no_failing_input=True,
        ))
    if ps.broken:
        oc.violations.append(core.Violation("c04:theorem-broken", ps.broken, {"broken": ps.broken}, no_failing_input=not any(not v.no_failing_input for v in oc.violations)))
    oc.distinct_nontrivial = len(distinct)
    oc.samples = samples
    oc.extra.update({
        "level_wording": "proved: schemas x all sub-fragments/events/states; sampled: that each emitted program is a schema instance and agrees with the reference on fault-designed events",
        "status_histogram": {f"{a}:{b}:{c}": n for (a, b, c), n in sorted(status_hist.items())},
        "feature_histogram": dict(sorted(feat_hist.items())),
        "recogniser_verdicts": {f"{k}:{v}": n for (k, v), n in sorted(rec_hist.items())},
        "event_outcomes(query/job)": dict(sorted(ev_hist.items())),
        "differences_by_key": dict(diff_hist),
        "value_only_differences_left_to_C01": value_only,
        "ill_scoped_programs_left_to_C02": {"count": len(not_compilable), "first": not_compilable[:2]},
        "cases_unsupported_by_reference_or_exec": unsupported,
        "cms_miniaod_differential": "run" if mini_ok else f"skipped - {mini_note}; recognisers still run (set FV_REPO to a tree with the C06 repairs)",
        "rejected_instances": rejected[:10],
        "indexing_of_method_collections_by_declared_container_type": declared_index,
    })
    return core.finish(PID, tier, seed, t0, ps, build, oc, TRUSTED, ASSUME)


def replay(path: str, build: core.BuildStatus) -> int:
    logging.disable(logging.CRITICAL)
    rp = json.loads(open(path).read())
    if "query" not in rp:
        print(f"replay names only what broke: {rp.get('broken') or rp.get('what')}")
        ps = core.proof_status(PROP_FILE, build)
        return 1 if ps.broken else 0
    backend, src = rp["backend"], rp["query"]
    uni = qgen.Universe(backend)
    if "metadata" in rp:
        # indexing of a method-returned collection with a declared container type: decided on the emitted text
        from .. import impl

        md = uni.metadata() + list(rp["metadata"]) + [{"metadata_type": "add_method_type_info", "type_string": "FvNS::Part", "method_name": "pt", "return_type": "double"}]
        r = impl.translate(backend, impl.query_ast(src, md))
        if r[0] != "ok":
            print("implementation refuses:", r[1:3])
            return 0
        code = [str(x) for x in r[1]["slots"]["query_code"]]
        n_at = len(re.findall(r"parts\(\)\s*(?:\.|->)\s*at\s*\(", "\n".join(code)))
        n_sub = src.count("parts()[")
        print(f"backend={backend}\nquery={src}\n{n_sub} subscript(s) on parts(), {n_at} at() call(s)")
        for ln in code:
            if "parts()" in ln:
                print("   ", ln.strip())
        if n_at < n_sub:
            print(f"VIOLATION property={PID} replay={path}")
            return 1
        return 0
    model = core.Model()
    evs = [rp["event"]] if "event" in rp else []
    r = run_case(model, backend, uni, src, evs, bool(evs), bool(rp.get("values_compared", True)))
    model.close()
    print(f"backend={backend}\nquery={src}\nstatus={r.status} {r.note}")
    for ln in r.qlines:
        print("   ", ln)
    for k, n, ok in r.verdicts:
        print(f"recogniser {k} {n}: {'accepted' if ok else 'REJECTED'}")
    bad = [v for v in r.verdicts if not v[2]]
    real = [d for d in r.diffs if d[1] not in ("value-only(C01)", "does-not-compile(C02)")]
    if evs:
        print("query outcome :", rp.get("query_outcome"))
        for d in r.diffs:
            print("job outcome   :", d[3], "->", d[1], d[2])
        if not r.diffs:
            print("job outcome agrees with the query on the stored event")
    return 1 if (real or bad) else 0
