"""C13 - arithmetic follows Python numerics on the declared value types.

Theorems: coq/Properties/C13.v over coq/Model/Arith.v (hand model of visit_BinOp / visit_UnaryOp /
visit_Compare / visit_IfExp / aggregate typing / set_var casts, a C++ evaluation model of the emitted
expressions and Python's operators on the declared types) and the regenerated operator tables
(gen/OpTables.v).  Tie: the exhaustive operator x operand-kind table plus random nested expressions are
translated by all three real executors; the emitted expression text and the declared column type are
compared with the extracted model.  Search / independent oracle: the implementation's emitted
expressions are compiled with g++ and run on sample values; the values and the declared types are
compared with what the Python interpreter itself computes for the query's source expression."""
import json
import logging
import random
import re
import shutil
import subprocess
import tempfile
import time
from pathlib import Path
from typing import Any, Dict, List, Optional, Tuple

from .. import core, impl

PID = "C13"
PROP_FILE = "Properties/C13.v"
TRUSTED = [
    "Coq 8.16.1 kernel (coqc); vm_compute only for table look-ups in the regenerated operator tables, the rational-number witnesses and the Examples",
    "hand model coq/Model/Arith.v: (a) translator functions, tied by the exhaustive/random correspondence below; (b) C++ expression evaluation (integral promotion, usual arithmetic conversions, 32-bit int with undefined overflow, std::pow overload choice, float arithmetic = binary64 operation rounded once to binary32), validated here against g++; (c) Python's operators on the declared value types, validated here against the Python interpreter",
    "the printer `show`: the emitted text is fully parenthesised, so it is read back as the tree it was printed from (validated by compiling it)",
    "translator tools/fv/translators/optables.py (dict literals read with Python's ast, fail-closed)",
    "floating point is abstract in the theorems (no law assumed): what + - * / pow compute on doubles is the hardware's and libm's business; both sides use the same operations",
    "extraction (ExtrOcamlBasic, ExtrOcamlString) + ocaml/main.ml driver + S-expression codec; g++ 12 and /venv/bin/python as oracles",
]
ASSUME = [
    "operands have their declared types (C10) and int operands/results fit 32 bits; divisor non-zero; '%' only on non-negative operands (property text)",
    "'on the declared value types': mixed operands promote to the wider declared type, '/' is the division of doubles, '**' is std::pow declared double (Python's int**int and complex results for negative bases are outside the property)",
    "Sum/Count/Min/Max reach the translator as Aggregate calls (func_adl's shortcut rewriting is third-party)",
]

BACKENDS = ["atlas", "cms_aod", "cms_miniaod"]
OBJ_TYPE = {"atlas": "xAOD::Muon", "cms_aod": "reco::Muon", "cms_miniaod": "pat::Muon"}
BINOPS = {"Add": "+", "Sub": "-", "Mult": "*", "Div": "/", "Mod": "%", "Pow": "**", "FloorDiv": "//", "BitAnd": "&"}
UNOPS = {"UAdd": "+", "USub": "-", "Not": "not ", "Invert": "~"}
CMPS = {"Lt": "<", "LtE": "<=", "Gt": ">", "GtE": ">=", "Eq": "==", "NotEq": "!="}
LISTED = ["Add", "Sub", "Mult", "Div", "Mod", "Pow"]
RANK = {"bool": 0, "int": 1, "float": 2, "double": 3}

# ---------------------------------------------------------------------------------------------
# expressions: nested lists  ["leaf", kind] ["int", n] ["bool", b] ["bin", Op, l, r] ["un", Op, x] ["cmp", Op, l, r]
# leaf kinds: fl (float method), db (double method), it (int method), count (Count() of another collection)
# ---------------------------------------------------------------------------------------------
# floating LITERALS (leaves whose text is the literal itself): a literal written with a fraction or exponent is a Python float -
# a double - whatever its value (2.0 and 1e10 are not ints)
LIT_LEAVES = {"l2": "2.0", "l10": "10000000000.0", "l25": "2.5"}
LEAF_QUERY = {"fl": "m.fl()", "db": "m.db()", "it": "m.it()", "count": 'e.Muons("m2").Count()', "acc": "acc", **LIT_LEAVES}
LEAF_PY = {"fl": "FL", "db": "DB", "it": "IT", "count": "CNT", "acc": "ACC", **LIT_LEAVES}
LEAF_TYPE = {"fl": "float", "db": "double", "it": "int", "count": "int", **{k: "double" for k in LIT_LEAVES}}
KINDS: Dict[str, Any] = {
    "int_literal": ["int", 2],
    "int_count": ["leaf", "count"],
    "float": ["leaf", "fl"],
    "double": ["leaf", "db"],
    "boolean": ["cmp", "Gt", ["leaf", "db"], ["int", 1]],
}


# integer literals that do not fit a C++ int (abs >= 2**31): written as they are (a C++ long), declared int
WIDE_LITERALS: List[Any] = [["int", 2**31], ["int", 2**32], ["int", 10**10],
                            ["un", "USub", ["int", 2**32]], ["un", "USub", ["int", 10**10]], ["un", "USub", ["int", 2**31 + 1]]]


def is_wide(n) -> bool:
    return n[0] == "int" and abs(n[1]) >= 2**31


def render(x, leaves: Dict[str, str]) -> str:
    t = x[0]
    if t == "leaf":
        return leaves[x[1]]
    if t == "int":
        return str(x[1])
    if t == "bool":
        return "True" if x[1] else "False"
    if t == "bin":
        return f"({render(x[2], leaves)} {BINOPS[x[1]]} {render(x[3], leaves)})"
    if t == "un":
        return f"({UNOPS[x[1]]}{render(x[2], leaves)})"
    if t == "cmp":
        return f"({render(x[2], leaves)} {CMPS[x[1]]} {render(x[3], leaves)})"
    if t == "chain":   # a chained comparison a OP1 b OP2 c ...: each link compares NEIGHBOURING operands
        out = render(x[2][0], leaves)
        for op, e in zip(x[1], x[2][1:]):
            out += f" {CMPS[op]} {render(e, leaves)}"
        return f"({out})"
    raise ValueError(t)


def to_wire(x, acc_type: Optional[str] = None):
    t = x[0]
    if t == "leaf":
        if x[1] == "acc":
            return ["leaf", "@acc", acc_type or "int"]
        if x[1] in LIT_LEAVES:
            return ["leaf", LIT_LEAVES[x[1]], "double"]
        return ["leaf", "@" + x[1], LEAF_TYPE[x[1]]]
    if t == "int":
        return ["int", x[1]]
    if t == "bool":
        return ["bool", bool(x[1])]
    if t in ("bin", "cmp"):
        return [t, x[1], to_wire(x[2], acc_type), to_wire(x[3], acc_type)]
    return ["un", x[1], to_wire(x[2], acc_type)]


def py_type(x) -> str:
    """Python's static result type of the expression on the declared kinds (bool/int/float)."""
    t = x[0]
    if t == "leaf":
        return {"fl": "float", "db": "float", "it": "int", "count": "int", "acc": "int", **{k: "float" for k in LIT_LEAVES}}[x[1]]
    if t == "int":
        return "int"
    if t in ("bool", "cmp", "chain"):
        return "bool"
    if t == "un":
        if x[1] == "Not":
            return "bool"
        a = py_type(x[2])
        return "int" if a == "bool" else a
    a, b = py_type(x[2]), py_type(x[3])
    if x[1] in ("Div", "Pow"):
        return "float"
    return "float" if "float" in (a, b) else "int"


def features(x) -> List[str]:
    """Which known input classes an expression contains (used to key a failing input)."""
    out: List[str] = []
    t = x[0]
    if t == "bin":
        a, b = py_type(x[2]), py_type(x[3])
        # the translator types -b / +b of a boolean b as bool (finding unary-minus-bool), so such an operand is refused too
        if x[1] in ("Add", "Sub", "Mult", "Div", "Mod") and ("bool" in (a, b) or impl_bool(x[2]) or impl_bool(x[3])):
            out.append("bool-operand-refused")
        if x[1] == "Mod" and "float" in (a, b):
            out.append("mod-floating-illformed")
        if x[1] == "Div" and "float" not in (a, b):
            out.append("int-true-division")
        out += features(x[2]) + features(x[3])
    elif t == "un":
        if x[1] in ("USub", "UAdd") and py_type(x[2]) == "bool":
            out.append("unary-minus-bool")
        if x[1] == "Not" and py_type(x[2]) != "bool":
            out.append("not-typed-as-operand")
        out += features(x[2])
    elif t == "cmp":
        out += features(x[2]) + features(x[3])
    return out


def impl_bool(x) -> bool:
    """The translator's type of x is bool: a comparison / boolean, or a sign applied to one."""
    if py_type(x) == "bool":
        return True
    return x[0] == "un" and x[1] in ("USub", "UAdd") and impl_bool(x[2])


def contains(x, pred) -> bool:
    if pred(x):
        return True
    return any(contains(c, pred) for c in x[1:] if isinstance(c, list))


# ---------------------------------------------------------------------------------------------
# the implementation
# ---------------------------------------------------------------------------------------------
def metadata(backend: str) -> List[Dict[str, Any]]:
    t = OBJ_TYPE[backend]
    return [{"metadata_type": "add_method_type_info", "type_string": t, "method_name": n, "return_type": r}
            for n, r in (("fl", "float"), ("db", "double"), ("it", "int"))]


def canon(text: str) -> str:
    text = re.sub(r"\bi_obj\d+(?:->|\.)(fl|db|it)\(\)", r"@\1", text)
    return text


def main_text(backend: str, files: Dict[str, Any]) -> str:
    return files["query.cxx" if backend == "atlas" else "Analyzer.cc"]["text"]


def all_text(files: Dict[str, Any]) -> str:
    return "\n".join(f["text"] for f in files.values())


def run_query(backend: str, src: str):
    try:
        a = impl.query_ast(src, metadata(backend))
    except Exception as e:  # noqa: BLE001
        impl.reset_globals()
        return ("error", "query-construction:" + type(e).__name__, str(e)[:200])
    r = impl.translate(backend, a)
    impl.reset_globals()
    return r


def small_literals(x) -> List[int]:
    out = set()

    def walk(n):
        if isinstance(n, list):
            if n and n[0] == "int" and isinstance(n[1], int) and 0 <= n[1] <= 10:
                out.add(n[1])
            for k in n[1:]:
                walk(k)

    walk(x)
    return sorted(out)


def wideners(x) -> List[str]:
    """Event-level aggregates over ANOTHER collection that are translated before the expression and whose accumulators
    widen from the int seed to double: Sum (seed 0), a product (seed 1), and a sum seeded with each small literal of x."""
    ws = ['e.Muons("m3").Select(lambda w: w.db()).Sum()', 'e.Muons("m3").Aggregate(1, lambda a, w: a * w.db())']
    ws += [f'e.Muons("m3").Aggregate({z}, lambda a, w: a + w.db())' for z in small_literals(x) if z not in (0, 1)]
    return ws


def observe_value(backend: str, x, context: bool = False) -> Dict[str, Any]:
    """ds.Select(e -> e.Muons.Select(m -> EXPR)): emitted expression (canonical leaves) and column element type.
    context: the same column preceded, in one row, by unrelated widening aggregates (what the expression is and how it
    is typed must not depend on them)."""
    src = f'ds.Select(lambda e: e.Muons("muons").Select(lambda m: {render(x, LEAF_QUERY)}))'
    if context:
        src = f'ds.Select(lambda e: ({", ".join(wideners(x))}, e.Muons("muons").Select(lambda m: {render(x, LEAF_QUERY)})))'
    r = run_query(backend, src)
    if r[0] == "error":
        return {"query": src, "error": r[1], "message": r[2]}
    text = main_text(backend, r[1]["files"])
    m = re.search(r"^\s*(_\w+)\.push_back\((.*)\);\s*$", text, flags=re.M)
    if not m:
        return {"query": src, "error": "no-push_back-line", "message": ""}
    col, expr = m.group(1), m.group(2)
    d = re.search(r"std::vector<\s*([\w:]+)\s*>\s+" + re.escape(col) + r"\s*;", all_text(r[1]["files"]))
    # the count of the other collection is the only aggResult variable
    expr = re.sub(r"\baggResult\d+\b", "@count", canon(expr))
    out = {"query": src, "expr": expr, "type": d.group(1) if d else "?"}
    if context:
        # the accumulator of the count leaf (seed 0, + 1 per element) stays an int whatever came before it
        accs = re.findall(r"^\s*([\w:]+)\s+(aggResult\d+)\s*\((.*)\);\s*$", text, flags=re.M)
        used = set(re.findall(r"\baggResult\d+\b", m.group(2)))
        out["count_acc_types"] = sorted({t for t, n, _ in accs if n in used})
    return out


def observe_ifexp(backend: str, t, b, o) -> Dict[str, Any]:
    src = (f'ds.Select(lambda e: e.Muons("muons").Select(lambda m: '
           f'({render(b, LEAF_QUERY)} if {render(t, LEAF_QUERY)} else {render(o, LEAF_QUERY)})))')
    r = run_query(backend, src)
    if r[0] == "error":
        return {"query": src, "error": r[1], "message": r[2]}
    text = main_text(backend, r[1]["files"])
    d = re.search(r"^\s*([\w:]+)\s+(if_else_result\d+);\s*$", text, flags=re.M)
    tst = re.search(r"^\s*if \((.*)\)\s*$", text, flags=re.M)
    if not d or not tst:
        return {"query": src, "error": "no-if-else-lines", "message": ""}
    rhs = re.findall(r"^\s*" + d.group(2) + r" = (.*);\s*$", text, flags=re.M)
    m = re.search(r"^\s*(_\w+)\.push_back\((.*)\);\s*$", text, flags=re.M)
    cd = re.search(r"std::vector<\s*([\w:]+)\s*>\s+" + re.escape(m.group(1)) + r"\s*;", all_text(r[1]["files"])) if m else None
    fix = lambda s: re.sub(r"\baggResult\d+\b", "@count", canon(s))  # noqa: E731
    return {"query": src, "type": d.group(1), "test": fix(tst.group(1)), "rhs": [fix(x) for x in rhs],
            "column_type": cd.group(1) if cd else "?"}


def observe_aggregate(backend: str, seed, upd, shortcut: Optional[str] = None) -> Dict[str, Any]:
    if shortcut:
        src = f'ds.Select(lambda e: e.Muons("muons").Select(lambda m: {render(upd, LEAF_QUERY)}).{shortcut}())'
    else:
        src = f'ds.Select(lambda e: e.Muons("muons").Aggregate({render(seed, LEAF_QUERY)}, lambda acc, m: {render(upd, LEAF_QUERY)}))'
    r = run_query(backend, src)
    if r[0] == "error":
        return {"query": src, "error": r[1], "message": r[2]}
    text = main_text(backend, r[1]["files"])
    d = re.search(r"^\s*([\w:]+)\s+(aggResult\d+)\s*\((.*)\);\s*$", text, flags=re.M)
    if not d:
        return {"query": src, "error": "no-accumulator", "message": ""}
    acc = d.group(2)
    ups = re.findall(r"^\s*" + acc + r" = (.*);\s*$", text, flags=re.M)
    col = re.search(r"^\s*(_\w+) = " + acc + r";\s*$", text, flags=re.M)
    cd = re.search(r"^\s*([\w:]+)\s+" + re.escape(col.group(1)) + r"\s*;", all_text(r[1]["files"]), flags=re.M) if col else None
    fix = lambda s: canon(s).replace(acc, "@acc")  # noqa: E731
    # where the fold happens: the accumulator update belongs to the body of the loop over the elements
    lines = text.splitlines()
    ind = lambda ln: len(ln) - len(ln.lstrip())  # noqa: E731
    f = next((i for i, ln in enumerate(lines) if ln.lstrip().startswith("for (auto &&")), None)
    in_loop = None
    if f is not None and ups:
        close = next((i for i in range(f + 2, len(lines)) if lines[i].strip() == "}" and ind(lines[i]) == ind(lines[f])), len(lines))
        upd_at = [i for i, ln in enumerate(lines) if re.match(r"^\s*" + acc + r" = ", ln)]
        in_loop = all(f < i < close for i in upd_at)
    return {"query": src, "type": d.group(1), "init": fix(d.group(3)), "update": [fix(u) for u in ups],
            "column_type": cd.group(1) if cd else "?", "update_in_loop": in_loop}


# ---------------------------------------------------------------------------------------------
# oracle: g++ on the implementation's expressions, the Python interpreter on the query's source
# ---------------------------------------------------------------------------------------------
SAMPLES_NONNEG = [(2.5, 7.25, 7, 3), (0.75, 2.0, 3, 7), (6.0, 0.5, 2, 5), (1.5, 3.0, 9, 2)]
SAMPLES_SIGNED = [(-2.5, 7.25, -7, 3), (0.75, -2.0, 3, 4), (-1.25, -0.5, -2, 1)]


def samples_for(x) -> List[Tuple[float, float, int, int]]:
    restricted = contains(x, lambda n: n[0] == "bin" and n[1] in ("Mod", "Pow"))
    return SAMPLES_NONNEG if restricted else SAMPLES_NONNEG + SAMPLES_SIGNED


def huge_pow(x) -> bool:
    """an int ** with a wide exponent: Python would build an astronomically large integer"""
    return contains(x, lambda n: n[0] == "bin" and n[1] == "Pow" and contains(n[3], is_wide) and py_type(n[2]) != "float")


def py_value(x, s, acc=None):
    if huge_pow(x):
        return None
    ns = {"FL": s[0], "DB": s[1], "IT": s[2], "CNT": s[3], "ACC": acc}
    try:
        v = eval(render(x, LEAF_PY), {"__builtins__": {}}, ns)  # noqa: S307 - generated arithmetic only
    except ZeroDivisionError:
        return None
    except OverflowError:
        return None
    if isinstance(v, complex):
        return None
    return v


CXX_HEAD = """#include <cmath>
#include <cstdio>
static float FL; static double DB; static int IT, CNT;
static void P(int row, int s, bool v) { std::printf("%d %d b %d\\n", row, s, v ? 1 : 0); }
static void P(int row, int s, int v) { std::printf("%d %d i %d\\n", row, s, v); }
static void P(int row, int s, float v) { std::printf("%d %d f %.9g\\n", row, s, (double)v); }
static void P(int row, int s, double v) { std::printf("%d %d d %.17g\\n", row, s, v); }
"""


def cxx_text(expr: str) -> str:
    return expr.replace("@fl", "FL").replace("@db", "DB").replace("@it", "IT").replace("@count", "CNT")


def gxx_run(rows: List[Dict[str, Any]], workdir: Path) -> Dict[int, Any]:
    """rows: {id, type, expr, samples}.  Returns id -> {"illformed": msg} | {sample index -> (tag, value)}."""
    out: Dict[int, Any] = {}
    live = [r for r in rows if r["type"] in RANK]
    for r in rows:
        if r["type"] not in RANK:
            out[r["id"]] = {"illformed": f"declared type {r['type']}"}
    for _attempt in range(4):
        lines = CXX_HEAD.splitlines()
        line_of: Dict[int, int] = {}
        for r in live:
            lines.append(f"static void r{r['id']}(int s) {{ {r['type']} col = {cxx_text(r['expr'])}; P({r['id']}, s, col); }}")
            line_of[len(lines)] = r["id"]
        lines.append("int main() {")
        for r in live:
            for i, s in enumerate(r["samples"]):
                lines.append(f"  FL = {s[0]!r}f; DB = {s[1]!r}; IT = {s[2]}; CNT = {s[3]}; r{r['id']}({i});")
        lines.append("  return 0; }")
        src = workdir / "t.cc"
        src.write_text("\n".join(lines) + "\n")
        cp = subprocess.run(["g++", "-std=c++17", "-O0", "-w", "-o", str(workdir / "t"), str(src)], text=True, capture_output=True, timeout=600)
        if cp.returncode == 0:
            break
        bad = {}
        for m in re.finditer(r"t\.cc:(\d+):\d+: error: (.*)", cp.stderr):
            rid = line_of.get(int(m.group(1)))
            if rid is not None and rid not in bad:
                bad[rid] = m.group(2)[:160]
        if not bad:
            raise RuntimeError("g++ failed outside the generated rows: " + cp.stderr[:400])
        for rid, msg in bad.items():
            out[rid] = {"illformed": msg}
        live = [r for r in live if r["id"] not in bad]
    else:
        raise RuntimeError("g++ still failing after removing ill-formed rows")
    rp = subprocess.run([str(workdir / "t")], text=True, capture_output=True, timeout=120)
    if rp.returncode != 0:
        raise RuntimeError(f"compiled oracle crashed (exit {rp.returncode})")
    for ln in rp.stdout.splitlines():
        rid, si, tag, val = ln.split()
        out.setdefault(int(rid), {})[int(si)] = (tag, float(val) if tag in "fd" else int(val))
    return out


def same_number(py, cxx, tol: float) -> bool:
    a, b = float(py), float(cxx)
    if a != a or b != b:
        return a != a and b != b
    if a == b:
        return True
    return abs(a - b) <= tol * max(abs(a), abs(b))


def type_ok(pyt: str, declared: str) -> bool:
    """pyt: the result type the property text gives the expression (bool / int / float; '/' and '**'
    are real).  bool <= int <= float <= double, and an int stays an int."""
    if declared not in RANK:
        return False
    if pyt == "bool":
        return True
    if pyt == "int":
        return declared == "int"
    return declared in ("float", "double")


def ifexp_type(b, o) -> str:
    tb, to = py_type(b), py_type(o)
    if tb == to:
        return tb
    return "float" if "float" in (tb, to) else "int"


# ---------------------------------------------------------------------------------------------
# generators
# ---------------------------------------------------------------------------------------------
def table_rows() -> List[Dict[str, Any]]:
    rows: List[Dict[str, Any]] = []
    for op in list(LISTED) + ["FloorDiv"]:
        for k1, e1 in KINDS.items():
            for k2, e2 in KINDS.items():
                rows.append({"cls": "binop", "label": f"{op} {k1} {k2}", "expr": ["bin", op, e1, e2]})
    # integer method results and other literal values, incl. the divisor 1 and a zero literal on the left
    for op in LISTED:
        for e1, e2 in ((["leaf", "it"], ["int", 3]), (["int", 7], ["leaf", "it"]), (["leaf", "it"], ["leaf", "count"]),
                       (["int", 0], ["leaf", "it"]), (["leaf", "count"], ["int", 1]), (["leaf", "it"], ["leaf", "fl"])):
            rows.append({"cls": "binop", "label": f"{op} extra", "expr": ["bin", op, e1, e2]})
    # floating literals (integral-valued ones too) against the integer kinds and each other: the result is floating
    for op in LISTED:
        for lit in LIT_LEAVES:
            for other in (["leaf", "count"], ["leaf", "it"], ["int", 3], ["leaf", "l25"]):
                rows.append({"cls": "binop", "label": f"{op} float-literal", "expr": ["bin", op, other, ["leaf", lit]]})
                rows.append({"cls": "binop", "label": f"{op} float-literal", "expr": ["bin", op, ["leaf", lit], other]})
    # wide integer literals on both sides of every operator, against every numeric kind
    partners = [["leaf", "count"], ["leaf", "it"], ["leaf", "fl"], ["leaf", "db"], ["int", 3]]
    for op in LISTED:
        for w in WIDE_LITERALS:
            for q in partners:
                rows.append({"cls": "wide-literal", "label": f"{op} any wide", "expr": ["bin", op, q, w]})
                rows.append({"cls": "wide-literal", "label": f"{op} wide any", "expr": ["bin", op, w, q]})
        rows.append({"cls": "wide-literal", "label": f"{op} wide wide", "expr": ["bin", op, WIDE_LITERALS[1], WIDE_LITERALS[0]]})
    # Python cannot evaluate n ** 4294967296 on ints in reasonable time: those rows go through the correspondence only
    for op in CMPS:
        for w in WIDE_LITERALS[:4]:
            rows.append({"cls": "wide-literal", "label": f"{op} wide", "expr": ["cmp", op, ["leaf", "count"], w]})
            rows.append({"cls": "wide-literal", "label": f"{op} wide", "expr": ["cmp", op, w, ["leaf", "db"]]})
    for w in WIDE_LITERALS:
        rows.append({"cls": "wide-literal", "label": "alone", "expr": w})
        rows.append({"cls": "wide-literal", "label": "nested", "expr": ["bin", "Div", ["bin", "Add", ["leaf", "it"], w], ["int", 2]]})
        rows.append({"cls": "wide-literal", "label": "nested", "expr": ["bin", "Mult", ["bin", "Div", ["leaf", "count"], w], ["leaf", "db"]]})
    for op in ("UAdd", "USub", "Not", "Invert"):
        for k, e in list(KINDS.items()) + [("int_method", ["leaf", "it"])]:
            rows.append({"cls": "unary", "label": f"{op} {k}", "expr": ["un", op, e]})
    # a unary operator applied to a unary operator: `not not x` is the truth value of x (not x), -(-x) is x, and the mixtures
    for o1 in ("USub", "Not", "UAdd"):
        for o2 in ("USub", "Not", "UAdd"):
            for k, e in list(KINDS.items()) + [("int_method", ["leaf", "it"])]:
                rows.append({"cls": "unary", "label": f"{o1} {o2} {k}", "expr": ["un", o1, ["un", o2, e]]})
                rows.append({"cls": "unary", "label": f"({o1} {o2} {k}) * 10", "expr": ["bin", "Mult", ["un", o1, ["un", o2, e]], ["int", 10]]})
    for op in CMPS:
        for k1, e1 in KINDS.items():
            for k2, e2 in KINDS.items():
                rows.append({"cls": "compare", "label": f"{op} {k1} {k2}", "expr": ["cmp", op, e1, e2]})
    return rows


def random_expr(rng: random.Random, depth: int, malformed: bool) -> Any:
    def leaf():
        c = rng.random()
        if c < 0.25:
            return ["int", rng.choice([1, 2, 3, 5, 10])]
        return ["leaf", rng.choice(["fl", "db", "it", "count"])]

    def num(d):
        if d == 0 or rng.random() < 0.2:
            return leaf()
        c = rng.random()
        if c < 0.12:
            return ["un", rng.choice(["USub", "UAdd"]), num(d - 1)]
        if malformed and c < 0.2:
            k = rng.random()
            if k < 0.3:
                return ["bin", rng.choice(["FloorDiv", "BitAnd"]), num(d - 1), num(d - 1)]
            if k < 0.6:
                return ["bin", rng.choice(["Add", "Mult", "Div"]), boolean(d - 1), num(d - 1)]
            if k < 0.8:
                return ["un", "Invert", num(d - 1)]
            return ["bin", "Mod", ["leaf", rng.choice(["fl", "db"])], leaf()]
        op = rng.choice(["Add", "Sub", "Mult", "Div", "Add", "Mult", "Mod", "Pow"])
        if op == "Mod":
            return ["bin", "Mod", rng.choice([["leaf", "it"], ["leaf", "count"], ["int", 17]]), rng.choice([["leaf", "it"], ["leaf", "count"], ["int", 4]])]
        if op == "Pow":
            return ["bin", "Pow", leaf(), rng.choice([["int", 2], ["int", 3], ["leaf", "fl"], ["leaf", "count"]])]
        return ["bin", op, num(d - 1), num(d - 1)]

    def boolean(d):
        c = ["cmp", rng.choice(list(CMPS)), num(max(d - 1, 0)), num(max(d - 1, 0))]
        return ["un", "Not", c] if rng.random() < 0.25 else c

    return boolean(depth) if rng.random() < 0.2 else num(depth)


def n_ops(x) -> int:
    return (1 if x[0] in ("bin", "un", "cmp") else 0) + sum(n_ops(c) for c in x[1:] if isinstance(c, list))


# ---------------------------------------------------------------------------------------------
# the check
# ---------------------------------------------------------------------------------------------
def check(tier: str, seed: int, t0: float, build: core.BuildStatus) -> int:
    logging.disable(logging.CRITICAL)
    ps = core.proof_status(PROP_FILE, build)
    oc = core.Outcome()
    refusal = build.gen_errors.get("OpTables.v")
    model = core.Model() if build.model_ok else None
    rng = random.Random(f"c13-{seed}")
    thorough = tier == "thorough"
    backends = BACKENDS
    workdir = Path(tempfile.mkdtemp(prefix="c13-", dir=str(core.BUILD)))
    dist: Dict[str, int] = {}
    distinct = set()
    gxx_rows: List[Dict[str, Any]] = []
    pending: Dict[int, Dict[str, Any]] = {}

    def bump(k):
        dist[k] = dist.get(k, 0) + 1

    def viol(cls: str, what: str, replay: Dict[str, Any]):
        oc.violations.append(core.Violation(key=f"c13:{cls}", what=what, replay=replay))

    def model_call(cmd, payload):
        if model is None:
            return None
        return model.call(cmd, payload)

    def queue_oracle(kind: str, backend: str, x, obs: Dict[str, Any], expr_text: str, declared: str, extra: Dict[str, Any]):
        rid = len(pending)
        pending[rid] = {"kind": kind, "backend": backend, "x": x, "obs": obs, "declared": declared, **extra}
        gxx_rows.append({"id": rid, "type": declared, "expr": expr_text, "samples": samples_for(x)})

    # ---- 1. value expressions: the exhaustive table, then random nested expressions ----
    rows = table_rows()
    n_random = 400 if thorough else 60
    for i in range(n_random):
        mal = rng.random() < 0.2
        rows.append({"cls": "nested-malformed" if mal else "nested", "label": "random", "expr": random_expr(rng, rng.choice([2, 3, 3, 4] if thorough else [2, 3]), mal)})
    for row in rows:
        x = row["expr"]
        bump(row["cls"])
        want = model_call("c13.translate", to_wire(x))
        for backend in backends:
            obs = observe_value(backend, x)
            oc.evaluations += 1
            replay = {"kind": "value", "backend": backend, "expr": x, "query": obs["query"], "label": row["label"], "model": want, "implementation": {k: v for k, v in obs.items() if k != "query"}}
            if n_ops(x) >= 1:
                distinct.add(json.dumps(x))
            # correspondence: text + declared type, or the exception class
            if want is not None:
                if "error" in obs:
                    agree = want[0] == "error" and want[1] == obs["error"]
                else:
                    agree = want[0] == "ok" and want[1] == [obs["expr"], obs["type"]]
                if agree:
                    oc.traces_validated_against_impl += 1
                else:
                    oc.correspondence_breaks.append(replay)
            # oracle of the property text
            listed_only = not contains(x, lambda n: (n[0] == "bin" and n[1] not in LISTED) or (n[0] == "un" and n[1] == "Invert"))
            if "error" in obs:
                if listed_only:
                    cls = "bool-operand-refused" if "bool-operand-refused" in features(x) else "refused"
                    viol(cls, f"{render(x, LEAF_QUERY)} is refused on {backend} ({obs['error']}: {obs['message'][:100]}) although Python defines it", replay)
                continue
            if listed_only:
                queue_oracle("value", backend, x, obs, obs["expr"], obs["type"], {"replay": replay})

    # ---- 1a. chained comparisons: not among the listed operators, so refusing them is fine; an implementation that accepts
    #          them computes what Python means (each link compares neighbouring operands) ----
    chains = [["chain", ["Lt", "Lt"], [["int", 1], ["leaf", "db"], ["int", 5]]],
              ["chain", ["LtE", "Lt"], [["int", 0], ["leaf", "it"], ["leaf", "db"]]],
              ["chain", ["Gt", "Gt"], [["int", 8], ["leaf", "db"], ["leaf", "fl"]]],
              ["chain", ["Lt", "Lt", "Lt"], [["int", 0], ["leaf", "fl"], ["leaf", "db"], ["int", 5]]],
              ["chain", ["Lt", "NotEq"], [["leaf", "fl"], ["leaf", "db"], ["leaf", "it"]]],
              ["chain", ["Eq", "Lt"], [["leaf", "it"], ["leaf", "it"], ["leaf", "db"]]]]
    for x in chains:
        bump("chain")
        for backend in backends:
            obs = observe_value(backend, x)
            oc.evaluations += 1
            distinct.add(json.dumps(x))
            if "error" in obs:
                continue   # refused: C09's subject
            replay = {"kind": "value", "backend": backend, "expr": x, "query": obs["query"], "label": "chained comparison", "model": None,
                      "implementation": {k: v for k, v in obs.items() if k != "query"}}
            queue_oracle("value", backend, x, obs, obs["expr"], obs["type"], {"replay": replay})

    # ---- 1b. the same expressions after unrelated widening aggregates in the same row ----
    ctx_rows = [r for r in table_rows() if r["cls"] in ("binop", "unary", "compare") and (small_literals(r["expr"]) or contains(r["expr"], lambda n: n == ["leaf", "count"]))]
    if not thorough:
        ctx_rows = [r for i, r in enumerate(ctx_rows) if i % 3 == seed % 3]
    for row in ctx_rows:
        x = row["expr"]
        bump("context")
        for backend in backends:
            iso = observe_value(backend, x)
            if "error" in iso:
                continue
            ctx = observe_value(backend, x, context=True)
            oc.evaluations += 1
            replay = {"kind": "context", "backend": backend, "expr": x, "query": ctx["query"], "label": row["label"], "isolated_query": iso["query"],
                      "isolated": {k: v for k, v in iso.items() if k != "query"}, "in_context": {k: v for k, v in ctx.items() if k != "query"}}
            if "error" in ctx:
                viol("context-dependent", f"{render(x, LEAF_QUERY)} is translated alone but refused on {backend} after unrelated aggregates in the same row ({ctx['error']})", replay)
            elif (ctx["expr"], ctx["type"]) != (iso["expr"], iso["type"]) or [t for t in ctx["count_acc_types"] if t != "int"]:
                viol("context-dependent", f"{render(x, LEAF_QUERY)} on {backend}: alone it is emitted as {iso['expr']} : {iso['type']}, after unrelated widening aggregates in the same row as {ctx['expr']} : {ctx['type']} (count accumulators {ctx['count_acc_types']})", replay)
            else:
                oc.traces_validated_against_impl += 1

    # ---- 2. conditionals ----
    arms = list(KINDS.items()) + [("int_method", ["leaf", "it"]), ("wide_literal", ["int", 2**32])]
    tests = [["cmp", "Gt", ["leaf", "it"], ["int", 2]], ["leaf", "it"], ["un", "Not", ["cmp", "Lt", ["leaf", "db"], ["int", 3]]]]
    for ti, tst in enumerate(tests if thorough else tests[:2]):
        for kb, b in arms:
            for ko, o in arms:
                if ti > 0 and kb != ko:
                    continue
                bump("conditional")
                want = model_call("c13.ifexp", [to_wire(tst), to_wire(b), to_wire(o)])
                for backend in backends:
                    obs = observe_ifexp(backend, tst, b, o)
                    oc.evaluations += 1
                    distinct.add(json.dumps(["if", tst, b, o]))
                    replay = {"kind": "ifexp", "backend": backend, "test": tst, "body": b, "orelse": o, "query": obs["query"], "model": want, "implementation": {k: v for k, v in obs.items() if k != "query"}}
                    if want is not None:
                        if "error" in obs:
                            agree = want[0] == "error" and want[1] == obs["error"]
                        else:
                            agree = want[0] == "ok" and want[1] == [obs["type"], obs["test"]] + obs["rhs"] and obs["column_type"] == obs["type"]
                        if agree:
                            oc.traces_validated_against_impl += 1
                        else:
                            oc.correspondence_breaks.append(replay)
                    if "error" in obs:
                        viol("conditional-refused", f"conditional refused on {backend}: {obs['error']}", replay)
                        continue
                    # oracle: the conditional as one C++ expression of the declared type
                    if len(obs["rhs"]) == 2:
                        t = obs["type"]
                        expr = f"(({obs['test']}) ? static_cast<{t}>({obs['rhs'][0]}) : static_cast<{t}>({obs['rhs'][1]}))"
                        queue_oracle("ifexp", backend, ["bin", "Add", ["bin", "Add", tst, b], o], obs, expr, obs["column_type"], {"replay": replay, "ifexp": (tst, b, o)})

    # ---- 3. aggregates: accumulator typing ----
    # the last one is a start value that is not a bare literal (a negated literal is a UnaryOp node): the accumulator still widens
    seeds = [("int", ["int", 0]), ("int1", ["int", 1]), ("neg1", ["un", "USub", ["int", 1]])]
    updates = [("acc+1", ["bin", "Add", ["leaf", "acc"], ["int", 1]], "int"),
               ("acc+it", ["bin", "Add", ["leaf", "acc"], ["leaf", "it"]], "int"),
               ("acc+fl", ["bin", "Add", ["leaf", "acc"], ["leaf", "fl"]], "float"),
               ("acc+db", ["bin", "Add", ["leaf", "acc"], ["leaf", "db"]], "double"),
               ("acc*fl", ["bin", "Mult", ["leaf", "acc"], ["leaf", "fl"]], "float"),
               ("acc/2", ["bin", "Div", ["leaf", "acc"], ["int", 2]], "double"),
               ("acc+fl*db", ["bin", "Add", ["leaf", "acc"], ["bin", "Mult", ["leaf", "fl"], ["leaf", "db"]]], "double"),
               ("it", ["leaf", "it"], "int"), ("fl", ["leaf", "fl"], "float"),
               ("acc+1", ["bin", "Add", ["leaf", "acc"], ["int", 1]], "int"), ("acc*2", ["bin", "Mult", ["leaf", "acc"], ["int", 2]], "int"),
               ("acc/2**32", ["bin", "Div", ["leaf", "acc"], ["int", 2**32]], "double"),
               ("acc+(db>1)", ["bin", "Add", ["leaf", "acc"], ["cmp", "Gt", ["leaf", "db"], ["int", 1]]], "int")]
    for sk, sd in seeds:
        for uk, up, widest in updates:
            bump("aggregate")
            want = model_call("c13.aggregate", ["@acc", to_wire(sd), to_wire(up)])
            for backend in backends:
                obs = observe_aggregate(backend, sd, up)
                oc.evaluations += 1
                distinct.add(json.dumps(["agg", sd, up]))
                replay = {"kind": "aggregate", "backend": backend, "seed": sd, "update": up, "query": obs["query"], "model": want, "implementation": {k: v for k, v in obs.items() if k != "query"}}
                if want is not None:
                    if "error" in obs:
                        agree = want[0] == "error" and want[1] == obs["error"]
                    else:
                        agree = want[0] == "ok" and len(obs["update"]) == 1 and want[1] == [obs["type"], obs["init"], obs["update"][0]] and obs["column_type"] == obs["type"]
                    if agree:
                        oc.traces_validated_against_impl += 1
                    else:
                        oc.correspondence_breaks.append(replay)
                if "error" in obs:
                    viol("bool-operand-refused" if "bool-operand-refused" in features(up) else "aggregate-refused", f"Aggregate({render(sd, LEAF_QUERY)}, lambda acc, m: {render(up, LEAF_QUERY)}) refused on {backend}: {obs['error']}", replay)
                    continue
                if obs.get("update_in_loop") is False:
                    viol("fold-outside-loop", f"Aggregate({render(sd, LEAF_QUERY)}, lambda acc, m: {render(up, LEAF_QUERY)}) on {backend}: the accumulator update is emitted outside the loop over the elements", replay)
                    continue
                # oracle: accumulator at least as wide as the seed and as every folded value, and an int fold stays int
                if RANK.get(obs["type"], -1) < RANK[widest] or (widest == "int" and obs["type"] != "int"):
                    viol("accumulator-too-narrow" if RANK.get(obs["type"], -1) < RANK[widest] else "int-fold-not-int",
                         f"accumulator declared {obs['type']} for a fold of {widest} values on {backend}", replay)
    for short in ("Sum", "Count", "Min", "Max"):
        for uk, up in (("it", ["leaf", "it"]), ("fl", ["leaf", "fl"]), ("db", ["leaf", "db"]), ("one", ["int", 1]), ("two", ["bin", "Add", ["int", 1], ["int", 1]])):
            bump("shortcut")
            for backend in backends:
                obs = observe_aggregate(backend, None, up, shortcut=short)
                oc.evaluations += 1
                distinct.add(json.dumps(["short", short, up]))
                replay = {"kind": "shortcut", "backend": backend, "shortcut": short, "element": up, "query": obs["query"], "implementation": {k: v for k, v in obs.items() if k != "query"}}
                if "error" in obs:
                    viol("aggregate-refused", f"{short} of {uk} refused on {backend}: {obs['error']}", replay)
                    continue
                elem = "int" if (short == "Count" or up[0] != "leaf") else LEAF_TYPE[up[1]]
                if obs.get("update_in_loop") is False:
                    viol("fold-outside-loop", f"{short} over Select(lambda m: {render(up, LEAF_QUERY)}) on {backend}: the accumulator update is emitted outside the loop over the elements (one step per event instead of one per element)", replay)
                elif RANK.get(obs["type"], -1) < RANK[elem]:
                    viol("accumulator-too-narrow", f"{short} over {elem} accumulates in {obs['type']} on {backend}", replay)
                elif elem == "int" and obs["type"] != "int":
                    viol("conditional-declared-double" if short in ("Min", "Max") else "int-fold-not-int",
                         f"{short} over int values is declared {obs['type']} on {backend} (integer result does not stay an integer)", replay)
                else:
                    oc.traces_validated_against_impl += 1

    # ---- 4. run the oracle ----
    oracle_stats = {"rows": len(gxx_rows), "illformed": 0, "values_compared": 0}
    try:
        res = gxx_run(gxx_rows, workdir)
    except Exception as e:  # noqa: BLE001
        res = None
        oc.violations.append(core.Violation(key="c13:oracle-unavailable", what=f"g++ oracle could not run: {e}", no_failing_input=True,
                                            replay={"broken": f"g++ oracle: {e}"}))
    if res is not None:
        for rid, p in pending.items():
            r = res.get(rid, {})
            x, obs, backend, replay = p["x"], p["obs"], p["backend"], p["replay"]
            fs = features(x) if p["kind"] == "value" else []
            if "illformed" in r:
                oracle_stats["illformed"] += 1
                cls = "mod-floating-illformed" if "mod-floating-illformed" in fs else "illformed"
                viol(cls, f"{obs['query']} on {backend}: emitted `{obs.get('expr', obs.get('rhs'))}` is ill-formed C++ ({r['illformed'][:100]})", {**replay, "gxx": r["illformed"]})
                continue
            uses_float = contains(x, lambda n: n[0] == "leaf" and n[1] == "fl")
            tol = 2e-6 if uses_float else 1e-12
            for si, s in enumerate(samples_for(x)):
                if p["kind"] == "ifexp":
                    tst, b, o = p["ifexp"]
                    c = py_value(tst, s)
                    pv = None if c is None else (py_value(b, s) if c else py_value(o, s))
                else:
                    pv = py_value(x, s)
                if pv is None or si not in r:
                    continue
                if isinstance(pv, int) and not isinstance(pv, bool) and abs(pv) > 2**31 - 1 and not contains(x, is_wide):
                    continue   # int overflow from small operands: outside the property (32-bit ints assumed)
                if isinstance(pv, float) and (pv != pv or abs(pv) == float("inf")):
                    continue
                oracle_stats["values_compared"] += 1
                tag, cv = r[si]
                sample = {"fl": s[0], "db": s[1], "it": s[2], "count": s[3]}
                if not same_number(pv, cv, tol):
                    if p["declared"] == "int" and contains(x, is_wide):
                        # the unchanged code declares int whatever a wide literal makes of the value (C18's finding)
                        cls = "wide-int-literal-declared-int"
                    else:
                        cls = next((c for c in ("int-true-division", "unary-minus-bool") if c in fs), "conditional-value" if p["kind"] == "ifexp" else "wrong-value")
                    viol(cls, f"{obs['query']} on {backend} with {sample}: generated code computes {cv} ({p['declared']}), Python computes {pv!r}",
                         {**replay, "sample": sample, "python": repr(pv), "generated": cv})
                    break
                pyt = ifexp_type(p["ifexp"][1], p["ifexp"][2]) if p["kind"] == "ifexp" else py_type(x)
                if not type_ok(pyt, p["declared"]):
                    cls = "conditional-declared-double" if p["kind"] == "ifexp" else ("unary-minus-bool" if "unary-minus-bool" in fs else
                                                                                      ("not-typed-as-operand" if "not-typed-as-operand" in fs else "wrong-declared-type"))
                    viol(cls, f"{obs['query']} on {backend}: the result is a Python {pyt} ({pv!r}) but the column is declared {p['declared']}",
                         {**replay, "sample": sample, "python": repr(pv), "declared": p["declared"]})
                    break
    shutil.rmtree(workdir, ignore_errors=True)
    if model is not None:
        model.close()

    oc.distinct_nontrivial = len(distinct)
    oc.exhaustive = True
    oc.rule = ("exhaustive: {+,-,*,/,%,**,//} x 5x5 operand kinds (int literal, Count(), float method, double method, comparison result) + extra int-method rows; "
               "wide integer literals (2**31, 2**32, 10**10 and negatives) on both sides of every operator against Count()/int/float/double/small literal, in comparisons, alone and nested; "
               "{+,-,not,~} x 6 kinds; 6 comparisons x 5x5; conditionals over 6x6 arm kinds; Aggregate seeds x 11 updates; Sum/Count/Min/Max x 3 element types; "
               f"plus {n_random} random nested expressions (20% with unsupported operators / boolean operands / float %); each on 3 backends. "
               "distinct_nontrivial = distinct expressions with at least one operator (by structure)")
    oc.samples = [render(r["expr"], LEAF_QUERY) for r in rows[:3]] + [render(r["expr"], LEAF_QUERY) for r in rows[-4:]]
    oc.extra = {"input_distribution": dist, "oracle": oracle_stats, "translator_refusal": refusal,
                "samples_nonneg": SAMPLES_NONNEG, "samples_signed": SAMPLES_SIGNED, "repo": str(core.REPO)}
    concrete = [v for v in oc.violations if not v.no_failing_input]
    known_keys = {k["key"] for k in core.known_findings() if k.get("property") == PID and k.get("status") == "known"}
    new_concrete = [v for v in concrete if v.key not in known_keys]
    hyg = core.build_hygiene_cache()
    if (ps.broken or refusal or oc.correspondence_breaks or not build.model_ok or hyg) and not new_concrete:
        what = (refusal and f"translator refused: {refusal}") or ps.broken or (oc.correspondence_breaks and f"model and implementation disagree on {len(oc.correspondence_breaks)} case(s), first: {json.dumps(oc.correspondence_breaks[0])[:400]}") or f"model executable missing / hygiene: {hyg}"
        oc.violations.append(core.Violation(key="c13:unproved", what=str(what), no_failing_input=True,
                                            replay={"broken": str(what), "searched": f"{oc.evaluations} translations, {oracle_stats['values_compared']} compiled values compared with Python: no failing input outside the known classes"}))
    return core.finish(PID, tier, seed, t0, ps, build, oc, TRUSTED, ASSUME)


def replay(path: str, build: core.BuildStatus) -> int:
    logging.disable(logging.CRITICAL)
    data = json.loads(open(path).read())
    if data.get("no_failing_input_found"):
        ps = core.proof_status(PROP_FILE, build)
        print("broken obligation recorded:", data.get("broken"))
        print("proof status now:", ps.broken or "all theorems check")
        return 1 if ps.broken else 0
    backend = data["backend"]
    kind = data.get("kind")
    workdir = Path(tempfile.mkdtemp(prefix="c13-replay-", dir=str(core.BUILD)))
    try:
        if kind == "value":
            x = data["expr"]
            obs = observe_value(backend, x)
            print("query:", obs["query"])
            if "error" in obs:
                print("implementation refuses:", obs["error"], obs.get("message", ""))
                bad = not contains(x, lambda n: (n[0] == "bin" and n[1] not in LISTED) or (n[0] == "un" and n[1] == "Invert"))
            else:
                print("emitted:", obs["expr"], "declared", obs["type"])
                res = gxx_run([{"id": 0, "type": obs["type"], "expr": obs["expr"], "samples": samples_for(x)}], workdir)[0]
                bad = False
                if "illformed" in res:
                    print("ill-formed C++:", res["illformed"])
                    bad = True
                else:
                    tol = 2e-6 if contains(x, lambda n: n[0] == "leaf" and n[1] == "fl") else 1e-12
                    for si, s in enumerate(samples_for(x)):
                        pv = py_value(x, s)
                        if pv is None or si not in res:
                            continue
                        print(f"  sample {s}: generated {res[si][1]}  python {pv!r}")
                        if not same_number(pv, res[si][1], tol) or not type_ok(py_type(x), obs["type"]):
                            bad = True
        elif kind == "context":
            x = data["expr"]
            iso, ctx = observe_value(backend, x), observe_value(backend, x, context=True)
            print("query:", ctx["query"])
            print("alone:", {k: v for k, v in iso.items() if k != "query"})
            print("in context:", {k: v for k, v in ctx.items() if k != "query"})
            bad = "error" not in iso and ("error" in ctx or (ctx["expr"], ctx["type"]) != (iso["expr"], iso["type"]) or bool([t for t in ctx["count_acc_types"] if t != "int"]))
        elif kind == "ifexp":
            obs = observe_ifexp(backend, data["test"], data["body"], data["orelse"])
            print("query:", obs["query"])
            print("implementation:", {k: v for k, v in obs.items() if k != "query"})
            bad = "error" in obs or not type_ok(ifexp_type(data["body"], data["orelse"]), obs.get("column_type", "?"))
        else:
            obs = observe_aggregate(backend, data.get("seed"), data.get("update") or data.get("element"), shortcut=data.get("shortcut"))
            print("query:", obs["query"])
            print("implementation:", {k: v for k, v in obs.items() if k != "query"})
            bad = "error" in obs or obs.get("type") != "int" and kind == "shortcut" and LEAF_TYPE.get((data.get("element") or ["", ""])[1]) == "int"
    finally:
        shutil.rmtree(workdir, ignore_errors=True)
    if bad:
        print(f"VIOLATION property={PID} replay={path}")
        return 1
    print("property holds on this input")
    return 0
