"""C08 - translation is invariant under wire format, bound names and metadata position.

Proof part: coq/Properties/C08.v over coq/Model/Binding.v (the repository's own binding machinery:
frame stack of visit_Call_Lambda / visit_Name, the name-keyed rewriters).
Tie: (a) correspondence of the extracted model with the real translator: the model's resolved nameless
term, printed back as a query with unique parameter names and no directly applied lambda, must give the
same package as the original query (black box, whole pipeline); (b) the rewriter model against
find_known_functions + cpp_ast_finder.
Differential part (tests, labelled so in the evidence): for generated accepted queries over all three
back ends the name-normalised package is compared across (1) the qastle text round trip, (2) systematic
alpha-renamings, (3) MetaData placement along the chain, (4) hand-fused Select/Where chains.  qastle and
func_adl are third-party code; nothing is proved about them."""
import ast
import copy
import json
import random
import re
import sys
import tempfile
import time
from pathlib import Path
from typing import Any, Dict, List, Optional, Tuple

from .. import core, impl

PID = "C08"
PROP_FILE = "Properties/C08.v"
TRUSTED = [
    "Coq 8.16.1 kernel (coqc); vm_compute only in the two refutation witnesses and the non-vacuity Examples",
    "hand model coq/Model/Binding.v of argument_stack + visit_Call_Lambda / visit_Name / resolve_id (names only: statements, types and rep caching are abstracted away: the model is call-by-name where the translator memoises an argument's rep at its first lookup; correspondence cases where that can matter - a directly applied lambda's parameter used twice - are counted as skipped) and of the name-keyed rewriters",
    "extraction (ExtrOcamlBasic, ExtrOcamlString) + ocaml/main.ml driver + S-expression codec tools/fv/sexp.py",
    "correspondence = differential test bounded by the generators below: model-resolved term printed back as a query vs. the original query, whole pipeline, three back ends",
    "qastle, func_adl.extract_metadata, func_adl simplify_chained_calls are third-party: only differentially tested (variants 1, 3, 4); nothing proved",
]
ASSUME = [
    "parameters of lambdas are plain positional names (args.args); keyword arguments of calls carry no bound names",
    "every lambda that is not applied directly is applied by the translator to closed values (call_Select, call_SelectMany, call_Where, Aggregate)",
    "names are compared as Python str",
]
FUEL = 600  # bounds the depth of resolution only; Python's own limit is sys.getrecursionlimit()
sys.setrecursionlimit(3000)

# ------------------------------------------------------------------------------------------------
# back ends and their universe
# ------------------------------------------------------------------------------------------------
UNIVERSE = {
    "atlas": [("Jets", "AntiKt4EMTopoJets", "xAOD::Jet"), ("Electrons", "Electrons", "xAOD::Electron"),
              ("Muons", "Muons", "xAOD::Muon"), ("Tracks", "InDetTrackParticles", "xAOD::TrackParticle")],
    "cms_aod": [("Muons", "muons", "reco::Muon"), ("Tracks", "generalTracks", "reco::Track"),
                ("GsfElectrons", "gsfElectrons", "reco::GsfElectron")],
    "cms_miniaod": [("Muons", "slimmedMuons", "pat::Muon"), ("Electrons", "slimmedElectrons", "pat::Electron")],
}
BACKENDS = list(UNIVERSE)


def base_md(backend: str) -> List[Dict[str, Any]]:
    "method `kids()` on every element type: a collection of the same element type (nested loops)"
    out = []
    for _, _, t in UNIVERSE[backend]:
        out.append({"metadata_type": "add_method_type_info", "type_string": t, "method_name": "kids",
                    "return_type_element": t + "*"})
    # a method-style plug-in (like the built-in getAttributeFloat): `x.fv_attr(k)` is rewritten by NAME into injected C++ in
    # which obj_j stands for the object the method is called on - every call site keeps its own object
    # an enum in a namespace: FvNS.Kind.Color.Red in a query is resolved as a C++ namespace path - unless a lambda parameter
    # of that name is in scope
    out.append({"metadata_type": "define_enum", "namespace": "FvNS.Kind", "name": "Color", "values": ["Red", "Blue", "Green"]})
    acc = "->" if backend == "atlas" else "."
    out.append({"metadata_type": "add_cpp_function", "name": "fv_attr", "include_files": [], "arguments": ["scale"],
                "code": [f"auto result = obj_j{acc}pt() * scale;"], "return_type": "double", "method_object": "obj_j",
                "instance_object": "xAOD::Jet"})
    # two function-style plug-ins with different code: each call is rewritten with ITS function's code, wherever the
    # declarations sit in the chain
    out.append({"metadata_type": "add_cpp_function", "name": "fv_scale", "include_files": [], "arguments": ["v"],
                "code": ["auto result = v * 2.0;"], "return_type": "double"})
    out.append({"metadata_type": "add_cpp_function", "name": "fv_shift", "include_files": [], "arguments": ["v"],
                "code": ["auto result = v + 1000.0;"], "return_type": "double"})
    return out


EXTRA_MD = [
    {"metadata_type": "add_job_script", "name": "blk_a", "script": ["# line a"], "depends_on": []},
    {"metadata_type": "add_job_script", "name": "blk_b", "script": ["# line b"], "depends_on": []},
    {"metadata_type": "inject_code", "name": "inj1", "body_includes": ["inc_one.h"]},
    {"metadata_type": "inject_code", "name": "inj2", "body_includes": ["inc_two.h"], "link_libraries": ["libtwo"]},
]

# ------------------------------------------------------------------------------------------------
# running the implementation
# ------------------------------------------------------------------------------------------------
GEN_NAME = re.compile(r"\b([A-Za-z_]+?)([0-9]+)\b")


def normalise(files: Dict[str, str]) -> str:
    """the property's 'up to the numbering of generated names': every identifier [A-Za-z_]+[0-9]+ is
    renamed in order of first occurrence over the whole package (injective, so sharing stays visible)"""
    text = "\n".join(f"=== {k}\n{files[k]}" for k in sorted(files))
    seen: Dict[str, str] = {}

    def f(m):
        k = m.group(0)
        if k not in seen:
            seen[k] = f"{m.group(1)}#{len(seen)}"
        return seen[k]

    return GEN_NAME.sub(f, text)


_RETR = [re.compile(r'\{\s*[^\n;{}]*? result = 0;\s*ANA_CHECK \(evtStore\(\)->retrieve\(result, ("[^"\n]*")\)\);\s*(\w+) = result;\s*\}'),
         re.compile(r'\{\s*[^\n;{}]*? result;\s*iEvent\.getByLabel\(("[^"\n]*"), result\);\s*(\w+) = result;\s*\}'),
         re.compile(r'\{\s*[^\n;{}]*? result;\s*iEvent\.getByToken\((\w+), result\);\s*(\w+) = result;\s*\}')]


def strip_retrievals(files: Dict[str, str]) -> Dict[str, str]:
    """The package with every collection retrieval block, the declaration of the variable it fills and (miniAOD) its token removed,
    and the variable replaced by a name made of the bank it was read from: two programs that differ only in HOW OFTEN they
    retrieve the same bank become equal."""
    alltext = "\n".join(files.values())
    tok_bank = dict(re.findall(r'(\w+) = consumes<[^\n]*>\(edm::InputTag\(("[^"\n]*")\)\);', alltext))
    out = {}
    for k, text in files.items():
        vars_: Dict[str, str] = {}
        for pat in _RETR:
            for m in pat.finditer(text):
                vars_[m.group(2)] = tok_bank.get(m.group(1), m.group(1))
            text = pat.sub("", text)
        for v, bank in vars_.items():
            text = re.sub(r"^[^\n;(){}=]*\b" + re.escape(v) + r";[ \t]*\n", "", text, flags=re.M)
            text = re.sub(r"\b" + re.escape(v) + r"\b", "@coll" + bank, text)
        for t in tok_bank:
            text = re.sub(r"^[^\n]*\b" + re.escape(t) + r"\b[^\n]*\n", "", text, flags=re.M)
        out[k] = "\n".join(ln for ln in text.splitlines() if ln.strip())
    return out


def qastle_roundtrip(a: ast.AST) -> ast.AST:
    import qastle

    return qastle.text_ast_to_python_ast(qastle.python_ast_to_text_ast(a)).body[0].value


RAW: Dict[str, Dict[str, str]] = {}  # normalised package -> raw files (for classification only)


def write_only(exe, a2: ast.AST):
    with tempfile.TemporaryDirectory(prefix="fv-c08-", dir="/var/tmp") as d:
        out = Path(d)
        try:
            exe.write_cpp_files(a2, out)
        except RecursionError:
            return ("error", "RecursionError")
        except Exception as e:  # noqa: BLE001
            return ("error", type(e).__name__)
        files = {f.name: f.read_text() for f in sorted(out.iterdir())}
    RAW[normalise(files)] = files
    return ("ok", normalise(files))


def run_query(src: str, backend: str, rt: bool = False):
    """whole pipeline on a source string -> ("ok", normalised package) | ("error", class)"""
    try:
        a = impl.query_ast(src)
        if rt:
            a = qastle_roundtrip(a)
    except Exception as e:  # noqa: BLE001
        return ("error", "build:" + type(e).__name__)
    exe = impl.executors()[backend]()
    try:
        a2 = exe.apply_ast_transformations(a)
    except RecursionError:
        impl.reset_globals()
        return ("error", "RecursionError")
    except Exception as e:  # noqa: BLE001
        impl.reset_globals()
        return ("error", type(e).__name__)
    r = write_only(exe, a2)
    impl.reset_globals()
    return r


# ------------------------------------------------------------------------------------------------
# source-level tools: free variables, capture-avoiding renaming, fusion, metadata placement
# ------------------------------------------------------------------------------------------------
def params(lam: ast.Lambda) -> List[str]:
    return [a.arg for a in lam.args.args]


def free_vars(node: ast.AST, bound=frozenset()) -> set:
    if isinstance(node, ast.Name):
        return set() if node.id in bound else {node.id}
    if isinstance(node, ast.Lambda):
        return free_vars(node.body, bound | set(params(node)))
    out = set()
    for ch in ast.iter_child_nodes(node):
        out |= free_vars(ch, bound)
    return out


def all_lambdas(node: ast.AST) -> List[ast.Lambda]:
    return [n for n in ast.walk(node) if isinstance(n, ast.Lambda)]


PY_KW = {"lambda", "and", "or", "not", "if", "else", "in", "is", "None", "True", "False", "for", "class", "def", "int"}
POOL_COLL = ["Jets", "Muons", "Electrons", "Tracks", "EventInfo", "EventDataset", "Select", "Where", "First", "Count"]
POOL_FUNC = ["sin", "cos", "abs", "sqrt", "max", "min", "len", "sum",
             # names of the math module's constants and everyday physics names: parameters like any other
             "pi", "tau", "inf", "nan", "mu", "el", "math", "np", "DeltaR", "range"]
POOL_CPP = ["auto", "result", "this", "i_obj1", "jets1", "double", "std", "tree", "collection_name", "node", "self", "ast"]
POOL_ARG = ["arg_0", "arg_1", "arg_2", "arg_3", "arg_7", "arg_12"]
POOL_NS = ["FvNS", "Kind", "Color", "xAOD", "FvNS"]   # names of declared C++ namespaces / enums


def alpha_variant(tree: ast.AST, strategy: str, rng: random.Random) -> ast.AST:
    """capture-avoiding renaming of every lambda parameter; the result is alpha-equivalent by construction:
    a parameter's new name never equals the (new) name of a variable that occurs free in that lambda"""
    tree = copy.deepcopy(tree)
    counter = [0]

    def go(node: ast.AST, env: Dict[str, str], outer_new: List[str]):
        if isinstance(node, ast.Name):
            if node.id in env:
                node.id = env[node.id]
            return
        if isinstance(node, ast.Lambda):
            ps = params(node)
            fv = free_vars(node)
            avoid = {env.get(v, v) for v in fv}
            new_env = dict(env)
            chosen: List[str] = []
            for p in ps:
                cands: List[str] = []
                if strategy == "fresh":
                    counter[0] += 1
                    cands = [f"q{counter[0]}"]
                elif strategy == "same":
                    cands = ["x", "y", "z"]
                elif strategy == "shadow":
                    cands = list(reversed(outer_new)) + ["x"]
                elif strategy == "coll":
                    cands = rng.sample(POOL_COLL, len(POOL_COLL))
                elif strategy == "func":
                    cands = rng.sample(POOL_FUNC, len(POOL_FUNC))
                elif strategy == "cpp":
                    cands = rng.sample(POOL_CPP, len(POOL_CPP))
                elif strategy == "arg":
                    cands = rng.sample(POOL_ARG, len(POOL_ARG))
                elif strategy == "ns":
                    cands = rng.sample(POOL_NS, len(POOL_NS))
                elif strategy == "mixed":
                    pool = POOL_COLL + POOL_FUNC + POOL_CPP + POOL_ARG + POOL_NS + list(outer_new) + ["x", "e", "event", "j"]
                    cands = rng.sample(pool, len(pool))
                new = next((c for c in cands if c not in avoid and c not in chosen and c not in PY_KW), None)
                if new is None:
                    counter[0] += 1
                    new = f"q{counter[0]}"
                chosen.append(new)
                new_env[p] = new
            for a, n in zip(node.args.args, chosen):
                a.arg = n
            go(node.body, new_env, outer_new + chosen)
            return
        for ch in ast.iter_child_nodes(node):
            go(ch, env, outer_new)

    go(tree, {}, [])
    return tree


def subst(node: ast.AST, name: str, repl: ast.AST) -> ast.AST:
    class S(ast.NodeTransformer):
        def visit_Name(self, n):
            return copy.deepcopy(repl) if n.id == name else n

        def visit_Lambda(self, n):
            if name in params(n):
                return n
            n.body = self.visit(n.body)
            return n

    return S().visit(copy.deepcopy(node))


def is_method_call(n: ast.AST, name: str) -> bool:
    return (isinstance(n, ast.Call) and isinstance(n.func, ast.Attribute) and n.func.attr == name
            and len(n.args) == 1 and isinstance(n.args[0], ast.Lambda) and len(params(n.args[0])) == 1)


def fuse_variant(tree: ast.AST) -> Tuple[ast.AST, int]:
    """X.Select(f).Select(g) -> X.Select(lambda x: g(f(x)));  X.Where(p).Where(q) -> X.Where(lambda x: p(x) and q(x)).
    The base query has pairwise distinct parameter names, so the substitution cannot capture."""
    count = [0]

    class F(ast.NodeTransformer):
        def visit_Call(self, n):
            self.generic_visit(n)
            for op in ("Select", "Where"):
                if is_method_call(n, op) and is_method_call(n.func.value, op):
                    inner = n.func.value
                    f, g = inner.args[0], n.args[0]
                    x, y = params(f)[0], params(g)[0]
                    if op == "Select":
                        body = subst(g.body, y, f.body)
                    else:
                        body = ast.BoolOp(op=ast.And(), values=[copy.deepcopy(f.body), subst(g.body, y, ast.Name(id=x, ctx=ast.Load()))])
                    count[0] += 1
                    lam = ast.Lambda(args=copy.deepcopy(f.args), body=body)
                    return ast.Call(func=ast.Attribute(value=inner.func.value, attr=op, ctx=ast.Load()), args=[lam], keywords=[])
            return n

    t = F().visit(copy.deepcopy(tree))
    return ast.fix_missing_locations(t), count[0]


def top_chain(tree: ast.AST) -> List[ast.Call]:
    "the calls of the outermost method chain, innermost (next to ds) first"
    out = []
    n = tree
    while isinstance(n, ast.Call) and isinstance(n.func, ast.Attribute):
        out.append(n)
        n = n.func.value
    return list(reversed(out))


def with_metadata(tree: ast.AST, mds: List[Dict[str, Any]], positions: List[int]) -> ast.AST:
    """attach MetaData(m_k) calls along the outer chain; positions[k] = number of chain calls that precede
    m_k (non-decreasing, so the relative order of the metadata along the chain is the same in every placement)"""
    tree = copy.deepcopy(tree)
    chain = top_chain(tree)
    base = chain[0].func.value if chain else tree  # `ds`
    pieces: List[Any] = []
    k = 0
    for i in range(len(chain) + 1):
        while k < len(mds) and positions[k] == i:
            pieces.append(("md", mds[k]))
            k += 1
        if i < len(chain):
            pieces.append(("call", chain[i]))
    cur = base
    for kind, x in pieces:
        if kind == "md":
            cur = ast.Call(func=ast.Attribute(value=cur, attr="MetaData", ctx=ast.Load()),
                           args=[ast.parse(repr(x), mode="eval").body], keywords=[])
        else:
            x.func.value = cur
            cur = x
    return ast.fix_missing_locations(cur)


def src_of(tree: ast.AST) -> str:
    return ast.unparse(tree)


# ------------------------------------------------------------------------------------------------
# query generator (typed grammar, pairwise distinct parameter names in the base query)
# ------------------------------------------------------------------------------------------------
class QGen:
    def __init__(self, rng: random.Random, backend: str, depth: int):
        self.rng, self.backend, self.depth = rng, backend, depth
        self.n = 0
        self.ops: Dict[str, int] = {}

    def fresh(self, stem: str) -> str:
        self.n += 1
        return f"{stem}{'abcdefghijklmnopqrstuvwxyz'[self.n % 26]}{'' if self.n < 26 else 'x' * (self.n // 26)}"

    def op(self, name: str):
        self.ops[name] = self.ops.get(name, 0) + 1

    def coll(self, ev: str) -> str:
        name, bank, _ = self.rng.choice(UNIVERSE[self.backend])
        self.op("collection")
        return f'{ev}.{name}("{bank}")'

    def num(self, x: str, objs: List[str], nums: List[str], d: int) -> str:
        r = self.rng.random()
        o = self.rng.choice([x] + objs) if objs and self.rng.random() < 0.35 else x
        if d <= 0 or r < 0.30:
            if self.rng.random() < 0.2:
                self.op("method-plugin")
                return f"{o}.fv_attr({self.rng.choice(['2.0', '0.5'])})"
            return f"{o}.{self.rng.choice(['pt', 'eta', 'phi'])}()"
        if r < 0.36:
            self.op("function-plugin")
            return f"{self.rng.choice(['fv_scale', 'fv_shift'])}({o}.{self.rng.choice(['pt', 'eta'])}())"
        if r < 0.40:
            return f"{o}.pt() / 1000.0"
        if r < 0.50 and nums:
            return f"{self.rng.choice(nums)} * 2.0"
        if r < 0.60:
            self.op("binop")
            return f"({self.num(x, objs, nums, d - 1)} + {self.num(x, objs, nums, d - 1)})"
        if r < 0.68:
            self.op("math")
            return f"{self.rng.choice(['sin', 'cos', 'abs'])}({self.num(x, objs, nums, d - 1)})"
        if r < 0.76:
            self.op("ifexp")
            return f"({self.num(x, objs, nums, d - 1)} if {self.boolean(x, objs, nums, d - 1)} else {self.num(x, objs, nums, d - 1)})"
        if r < 0.86:
            k = self.fresh("k")
            self.op("Where"); self.op("Count")
            return f"{x}.kids().Where(lambda {k}: {self.boolean(k, objs + [x], nums, d - 1)}).Count()"
        if r < 0.93:
            k = self.fresh("k")
            self.op("Select"); self.op("Sum")
            return f"{x}.kids().Select(lambda {k}: {self.num(k, objs + [x], nums, d - 1)}).Sum()"
        self.op("Count")
        return f"{x}.kids().Count()"

    def boolean(self, x: str, objs: List[str], nums: List[str], d: int) -> str:
        r = self.rng.random()
        if r < 0.08:
            self.op("enum")
            return f"{self.num(x, objs, nums, 0)} {self.rng.choice(['>', '=='])} FvNS.Kind.Color.{self.rng.choice(['Red', 'Blue'])}"
        if d <= 0 or r < 0.55:
            return f"{self.num(x, objs, nums, d - 1)} {self.rng.choice(['>', '<', '>='])} {self.rng.choice(['1.5', '30.0', '0'])}"
        if r < 0.7:
            return f"{self.num(x, objs, nums, d - 1)} > {self.num(x, objs, nums, d - 1)}"
        if r < 0.9:
            self.op("boolop")
            return f"({self.boolean(x, objs, nums, d - 1)} {self.rng.choice(['and', 'or'])} {self.boolean(x, objs, nums, d - 1)})"
        self.op("not")
        return f"(not {self.boolean(x, objs, nums, d - 1)})"

    def seq_item(self, c: str, objs: List[str], d: int) -> str:
        "an expression built on the collection expression c: a sequence of numbers, or a number"
        r = self.rng.random()
        j = self.fresh("j")
        if r < 0.16:
            self.op("Select")
            return f"{c}.Select(lambda {j}: {self.num(j, objs, [], d)})"
        if r < 0.30:
            self.op("Where"); self.op("Select")
            j2 = self.fresh("j")
            return f"{c}.Where(lambda {j}: {self.boolean(j, objs, [], d)}).Select(lambda {j2}: {self.num(j2, objs, [], d)})"
        if r < 0.42:  # chained Select (fusable)
            self.op("Select"); self.op("Select")
            p = self.fresh("p")
            return f"{c}.Select(lambda {j}: {self.num(j, objs, [], d - 1)}).Select(lambda {p}: {self.rng.choice([p + ' * 2.0', p + ' + 1.0', 'abs(' + p + ')', p + ' > 1.0'])})"
        if r < 0.54:  # chained Where (fusable)
            self.op("Where"); self.op("Where"); self.op("Select")
            j2, j3 = self.fresh("j"), self.fresh("j")
            return (f"{c}.Where(lambda {j}: {self.boolean(j, objs, [], d - 1)}).Where(lambda {j2}: {self.boolean(j2, objs, [], d - 1)})"
                    f".Select(lambda {j3}: {self.num(j3, objs, [], d - 1)})")
        if r < 0.62:
            self.op("Count")
            return f"{c}.Count()"
        if r < 0.70:
            self.op("Select"); self.op("Sum")
            return f"{c}.Select(lambda {j}: {self.num(j, objs, [], d - 1)}).{self.rng.choice(['Sum', 'Max', 'Min'])}()"
        if r < 0.80:  # nested sequence
            k = self.fresh("k")
            self.op("Select"); self.op("Select")
            return f"{c}.Select(lambda {j}: {j}.kids().Select(lambda {k}: {self.num(k, objs + [j], [], d - 1)}))"
        if r < 0.90:  # SelectMany then Select/Where: the third-party fusion moves the second lambda under the first
            k = self.fresh("k")
            self.op("SelectMany"); self.op("Select")
            tail = (f".Select(lambda {k}: {self.num(k, objs, [], d - 1)})" if self.rng.random() < 0.6
                    else f".Where(lambda {k}: {self.boolean(k, objs, [], d - 1)}).Select(lambda {self.fresh('k')}: 1.0)")
            return f"{c}.SelectMany(lambda {j}: {j}.kids()){tail}"
        if r < 0.95:
            self.op("First")
            return f"{c}.Select(lambda {j}: {self.num(j, objs, [], 0)}).First()"
        self.op("First")
        return f"{c}.First().pt()"

    def query(self) -> str:
        r = self.rng.random()
        e = self.fresh("e")
        d = self.depth
        if r < 0.22:
            self.op("Select")
            return f"ds.Select(lambda {e}: {self.seq_item(self.coll(e), [], d)})"
        if r < 0.40:  # tuple / dict of items
            self.op("Select")
            n = self.rng.randint(2, 3)
            items = [self.seq_item(self.coll(e), [], d - 1) for _ in range(n)]
            if self.rng.random() < 0.5:
                self.op("tuple")
                return f"ds.Select(lambda {e}: ({', '.join(items)}))"
            self.op("dict")
            return "ds.Select(lambda " + e + ": {" + ", ".join(f"'c{i}': {it}" for i, it in enumerate(items)) + "})"
        if r < 0.52:  # event-level chain through a collection
            js = self.fresh("s")
            self.op("Select"); self.op("Select")
            return f"ds.Select(lambda {e}: {self.coll(e)}).Select(lambda {js}: {self.seq_item(js, [], d)})"
        if r < 0.64:  # tuple plumbing
            p = self.fresh("t")
            j, k = self.fresh("j"), self.fresh("k")
            self.op("Select"); self.op("Select"); self.op("tuple"); self.op("Where"); self.op("Count")
            return (f"ds.Select(lambda {e}: ({self.coll(e)}, {self.coll(e)})).Select(lambda {p}: {p}[0].Select(lambda {j}: "
                    f"{p}[1].Where(lambda {k}: {k}.pt() > {j}.pt()).Count()))")
        if r < 0.74:  # dict plumbing
            p = self.fresh("t")
            j = self.fresh("j")
            self.op("Select"); self.op("Select"); self.op("dict")
            return ("ds.Select(lambda " + e + ": {'a': " + self.coll(e) + ", 'b': " + self.coll(e) + "})"
                    f".Select(lambda {p}: ({p}.a.Select(lambda {j}: {self.num(j, [], [], d - 1)}), {p}['b'].Count()))")
        if r < 0.84:  # event filter
            e2 = self.fresh("e")
            j = self.fresh("j")
            self.op("Where"); self.op("Select"); self.op("Count")
            return (f"ds.Where(lambda {e}: {self.coll(e)}.Where(lambda {j}: {self.boolean(j, [], [], d - 1)}).Count() > 0)"
                    f".Select(lambda {e2}: {self.seq_item(self.coll(e2), [], d - 1)})")
        if r < 0.93:  # SelectMany at event level
            j = self.fresh("j")
            self.op("SelectMany"); self.op("Select")
            return f"ds.SelectMany(lambda {e}: {self.coll(e)}).Select(lambda {j}: {self.num(j, [], [], d)})"
        # event-level chained Where + Select chain
        e2, e3 = self.fresh("e"), self.fresh("e")
        self.op("Where"); self.op("Where"); self.op("Select")
        return (f"ds.Where(lambda {e}: {self.coll(e)}.Count() > 1).Where(lambda {e2}: {self.coll(e2)}.Count() > 0)"
                f".Select(lambda {e3}: {self.seq_item(self.coll(e3), [], d - 1)})")


# direct applications that survive func_adl's beta reduction: the lambda is picked out of a tuple literal,
# so simplify_chained_calls sees a Subscript, not a Lambda, in func position and leaves Call(Lambda, args)
def trick(lam_src: str, args: List[str]) -> str:
    return f"(({lam_src}), 0)[0]({', '.join(args)})"


class AppGen:
    def __init__(self, rng: random.Random, backend: str):
        self.rng, self.backend, self.n = rng, backend, 0

    def fresh(self) -> str:
        self.n += 1
        return f"u{'abcdefghijklmnopqrstuvwxyz'[self.n % 26]}{'' if self.n < 26 else self.n}"

    def expr(self, objs: List[str], nums: List[str], d: int) -> str:
        r = self.rng.random()
        if d <= 0 or r < 0.25:
            if nums and self.rng.random() < 0.5:
                return self.rng.choice(nums)
            return f"{self.rng.choice(objs)}.{self.rng.choice(['pt', 'eta'])}()"
        if r < 0.40:
            return f"({self.expr(objs, nums, d - 1)} + {self.expr(objs, nums, d - 1)})"
        if r < 0.48:
            k = self.fresh()
            return f"{self.rng.choice(objs)}.kids().Where(lambda {k}: {k}.pt() > {self.expr(objs, nums, d - 1)}).Count()"
        v = self.fresh()
        if r < 0.70 or not objs:  # numeric argument
            arg = self.expr(objs, nums, d - 1)
            body = self.expr(objs, nums + [v], d - 1)
            return trick(f"lambda {v}: {body}", [arg])
        if r < 0.85:  # object argument
            arg = self.rng.choice(objs)
            body = self.expr(objs + [v], nums, d - 1)
            return trick(f"lambda {v}: {body}", [arg])
        w = self.fresh()  # two parameters
        body = self.expr(objs, nums + [v, w], d - 1)
        return trick(f"lambda {v}, {w}: {body}", [self.expr(objs, nums, d - 1), self.expr(objs, nums, d - 1)])

    def query(self, d: int) -> str:
        name, bank, _ = self.rng.choice(UNIVERSE[self.backend])
        y = self.fresh()
        return f'ds.Select(lambda ev: ev.{name}("{bank}").Select(lambda {y}: {self.expr([y], [], d)}))'


# ------------------------------------------------------------------------------------------------
# model side: serialisation of the transformed AST, printing a resolved term back
# ------------------------------------------------------------------------------------------------
class Codec:
    def __init__(self):
        self.table: List[Any] = []

    def slot(self, x) -> int:
        self.table.append(x)
        return len(self.table) - 1

    def enc(self, n: ast.AST):
        if isinstance(n, ast.Name):
            return ["name", n.id]
        if isinstance(n, ast.Attribute):
            return ["attr", self.enc(n.value), n.attr]
        if isinstance(n, ast.Lambda):
            return ["lam", [a.arg for a in n.args.args], self.enc(n.body)]
        if isinstance(n, ast.Call):
            f = n.func
            if isinstance(f, (ast.Name, ast.Attribute, ast.Lambda, ast.Call, ast.Subscript)):
                fe = self.enc(f)
            else:  # CPPCodeValue, FunctionAST: opaque
                fe = ["const", f"K{self.slot(f)}"]
            return ["call", fe, [self.enc(a) for a in n.args]]
        if isinstance(n, ast.Constant) or not isinstance(n, ast.expr):
            return ["const", f"K{self.slot(n)}"]
        # every other expression node: children in field order, the node itself is the template
        layout, kids = [], []
        for fld, val in ast.iter_fields(n):
            if isinstance(val, ast.expr):
                layout.append((fld, None)); kids.append(val)
            elif isinstance(val, list):
                for i, v in enumerate(val):
                    if isinstance(v, ast.expr):
                        layout.append((fld, i)); kids.append(v)
        return ["op", f"T{self.slot((n, layout))}", [self.enc(k) for k in kids]]

    def dec(self, c, d: int = 0) -> ast.AST:
        tag = c[0]
        if tag == "free":
            return ast.Name(id=c[1], ctx=ast.Load())
        if tag == "val":
            return ast.Name(id=f"fv_p{int(c[1])}_", ctx=ast.Load())
        if tag == "const":
            return copy.copy(self.table[int(c[1][1:])])
        if tag == "attr":
            return ast.Attribute(value=self.dec(c[1], d), attr=c[2], ctx=ast.Load())
        if tag == "call":
            return ast.Call(func=self.dec(c[1], d), args=[self.dec(a, d) for a in c[2]], keywords=[])
        if tag == "lam":
            n = int(c[1])
            args = ast.arguments(posonlyargs=[], args=[ast.arg(arg=f"fv_p{d + i}_") for i in range(n)], kwonlyargs=[], kw_defaults=[], defaults=[])
            return ast.Lambda(args=args, body=self.dec(c[2], d + n))
        if tag == "op":
            node, layout = self.table[int(c[1][1:])]
            new = copy.copy(node)
            for fld, _ in layout:
                v = getattr(new, fld)
                if isinstance(v, list):
                    setattr(new, fld, list(v))
            for (fld, i), k in zip(layout, c[2]):
                if i is None:
                    setattr(new, fld, self.dec(k, d))
                else:
                    getattr(new, fld)[i] = self.dec(k, d)
            if hasattr(new, "rep"):
                delattr(new, "rep")
            return new
        raise ValueError(f"bad closed term {c!r}")


def has_direct_app(a: ast.AST) -> bool:
    return any(isinstance(n, ast.Call) and isinstance(n.func, ast.Lambda) for n in ast.walk(a))


def model_vs_impl(src: str, backend: str, model: "core.Model"):
    """-> (status, detail): 'same' when the model's resolved term, printed back with unique names and no direct
    application, translates to the same package (or the same refusal) as the query itself"""
    a = impl.query_ast(src)
    exe = impl.executors()[backend]()
    try:
        a2 = exe.apply_ast_transformations(a)
    except Exception as e:  # noqa: BLE001
        impl.reset_globals()
        return ("skipped", f"transformations refused: {type(e).__name__}")
    codec = Codec()
    enc = codec.enc(a2)
    direct = has_direct_app(a2)
    rm = model.call("c08.resolve", [FUEL, enc])
    r1 = write_only(exe, a2)
    impl.reset_globals()
    if rm[0] != "ok":
        if r1 == ("error", "RecursionError"):
            return ("same", {"direct": direct, "both": "unbounded recursion / out of fuel"})
        if shares_heavy_argument(src):
            return ("skipped", "an argument of a directly applied lambda is looked up more than once (rep caching = call by need, model = call by name)")
        return ("differ", {"model": rm, "implementation": r1[:2] if r1[0] == "error" else "ok"})
    rebuilt = ast.fix_missing_locations(codec.dec(rm[1]))
    exe2 = impl.executors()[backend]()
    try:
        exe2.apply_ast_transformations(impl.query_ast(src))  # same executor state (metadata), result discarded
    except Exception:  # noqa: BLE001
        pass
    r2 = write_only(exe2, rebuilt)
    impl.reset_globals()
    if r1 == r2:
        return ("same", {"direct": direct, "accepted": r1[0] == "ok"})
    if shares_heavy_argument(src):
        return ("skipped", "an argument of a directly applied lambda is looked up more than once (rep caching = call by need, model = call by name)")
    return ("differ", {"direct": direct, "query": r1[0] if r1[0] == "ok" else r1, "printed_model_term": r2[0] if r2[0] == "ok" else r2,
                       "printed": ast.unparse(_printable(rebuilt))})


def shares_heavy_argument(src: str) -> bool:
    """a parameter of a directly applied lambda occurs more than once: the translator evaluates the argument node
    at its first lookup and keeps the rep on the node (call by need), the model re-resolves it at every lookup
    (call by name).  The two agree unless the argument emits statements or is looked up under two different
    captures; those cases are outside the model and are counted as skipped"""
    tree = ast.parse(src, mode="eval").body
    for n in ast.walk(tree):
        if isinstance(n, ast.Call) and isinstance(n.func, ast.Subscript) and isinstance(n.func.value, ast.Tuple) \
                and n.func.value.elts and isinstance(n.func.value.elts[0], ast.Lambda):
            lam = n.func.value.elts[0]
            for p in params(lam):
                if sum(1 for m in ast.walk(lam.body) if isinstance(m, ast.Name) and m.id == p) >= 2:
                    return True
    return False


def _printable(a: ast.AST) -> ast.AST:
    a = copy.deepcopy(a)
    for n in ast.walk(a):
        if isinstance(n, ast.Call) and not isinstance(n.func, ast.expr):
            n.func = ast.Name(id=f"<{type(n.func).__name__}>", ctx=ast.Load())
    return a


# ------------------------------------------------------------------------------------------------
# classification of a difference into failing-input classes
# ------------------------------------------------------------------------------------------------
FIRST_MSG = re.compile(r'throw std::runtime_error\("First\(\) called on an empty sequence \(.*\)"\);')


def strip_first_messages(text: str) -> str:
    return FIRST_MSG.sub('throw std::runtime_error("First() called on an empty sequence");', text)


def fusion_capture_shape(tree: ast.AST) -> bool:
    "X.SelectMany(lambda p: ..).Select/Where/SelectMany(lambda q: body) where p occurs free in the second lambda"
    for n in ast.walk(tree):
        for op in ("Select", "Where", "SelectMany"):
            if is_method_call(n, op) and is_method_call(n.func.value, "SelectMany"):
                p = params(n.func.value.args[0])[0]
                if p in free_vars(n.args[0]):
                    return True
    return False


def beta_capture_shape(tree: ast.AST) -> bool:
    """a lambda that func_adl beta-reduces while fusing (either step of a Select/Where/SelectMany chain, or applied
    directly) has a parameter that a nested lambda rebinds and uses: the substitution goes into the nested lambda"""
    def shadowed_use(lam: ast.Lambda) -> bool:
        ps = set(params(lam))
        for inner in all_lambdas(lam.body):
            for p in params(inner):
                if p in ps and any(isinstance(m, ast.Name) and m.id == p for m in ast.walk(inner.body)):
                    return True
        return False

    for n in ast.walk(tree):
        if isinstance(n, ast.Call) and isinstance(n.func, ast.Lambda) and shadowed_use(n.func):
            return True
        for op in ("Select", "Where", "SelectMany"):
            if is_method_call(n, op) and any(is_method_call(n.func.value, o2) for o2 in ("Select", "Where", "SelectMany")):
                if shadowed_use(n.args[0]) or shadowed_use(n.func.value.args[0]):  # both lambdas of a fused pair are applied
                    return True
    return False


def uses_trick(tree: ast.AST) -> bool:
    return any(isinstance(n, ast.Call) and isinstance(n.func, ast.Subscript) and isinstance(n.func.value, ast.Tuple)
               and n.func.value.elts and isinstance(n.func.value.elts[0], ast.Lambda) for n in ast.walk(tree))


def binders_distinct(tree: ast.AST) -> bool:
    names = [p for lam in all_lambdas(tree) for p in params(lam)]
    return len(names) == len(set(names))


OPERATOR_NAMES = {"Select", "SelectMany", "Where", "First", "Count", "Sum", "Max", "Min", "Aggregate", "EventDataset", "ResultTTree"}


def classify_alpha(variant: ast.AST, ra, rb) -> str:
    if ra[0] == "ok" and rb[0] == "ok" and ra[1] in RAW and rb[1] in RAW:
        sa = normalise({k: strip_first_messages(v) for k, v in RAW[ra[1]].items()})
        sb = normalise({k: strip_first_messages(v) for k, v in RAW[rb[1]].items()})
        if sa == sb:
            return "c08:first-message-names"
    if uses_trick(variant) and not binders_distinct(variant):
        return "c08:direct-application-capture"
    if any(p in OPERATOR_NAMES for lam in all_lambdas(variant) for p in params(lam)):
        return "c08:param-named-like-operator"
    if fusion_capture_shape(variant):
        return "c08:fusion-capture"
    if beta_capture_shape(variant):
        return "c08:beta-capture"
    return "c08:alpha"


# fixed cases kept from the investigation (run first, every tier)
CORPUS = [
    dict(kind="alpha", backend="atlas", why="dynamic scoping in visit_Call_Lambda",
         a='ds.Select(lambda e: e.Jets("A").Select(lambda y: ((lambda x: ((lambda z: x), 2)[0](1)), 2)[0](y.pt())))',
         b='ds.Select(lambda e: e.Jets("A").Select(lambda y: ((lambda x: ((lambda y: x), 2)[0](1)), 2)[0](y.pt())))'),
    dict(kind="alpha", backend="atlas", why="func_adl moves the second lambda under the SelectMany parameter",
         a='ds.Select(lambda e: e.Jets("A").Select(lambda o: o.kids().SelectMany(lambda j: j.kids()).Select(lambda t: t.pt() + o.eta())))',
         b='ds.Select(lambda e: e.Jets("A").Select(lambda o: o.kids().SelectMany(lambda o: o.kids()).Select(lambda t: t.pt() + o.eta())))'),
    dict(kind="alpha", backend="atlas", why="First() diagnostic quotes the query text",
         a='ds.Select(lambda e: e.Jets("A").Select(lambda j: j.pt()).First())',
         b='ds.Select(lambda e: e.Jets("A").Select(lambda q: q.pt()).First())'),
    dict(kind="alpha", backend="atlas", why="a parameter named like a known function is rewritten when called", key="c08:param-named-like-function",
         a='ds.Select(lambda e: e.Jets("A").Select(lambda sin: sin(1.0)))',
         b='ds.Select(lambda e: e.Jets("A").Select(lambda f: f(1.0)))'),
    dict(kind="alpha", backend="atlas", why="parameter named like an operator and used as its source",
         a='ds.Select(lambda eb: eb.Jets("a")).Select(lambda s: s.Select(lambda j: j.pt()))',
         b='ds.Select(lambda eb: eb.Jets("a")).Select(lambda Select: Select.Select(lambda j: j.pt()))'),
    dict(kind="alpha", backend="atlas", why="func_adl beta-reduces Where.Where into a nested lambda that rebinds the name",
         a='ds.Select(lambda e: e.Jets("a").Where(lambda a: a.eta() > 0).Where(lambda x: x.kids().Where(lambda k: k.pt() >= 1.5).Count() > 1).Select(lambda f: f.phi()))',
         b='ds.Select(lambda e: e.Jets("a").Where(lambda a: a.eta() > 0).Where(lambda x: x.kids().Where(lambda x: x.pt() >= 1.5).Count() > 1).Select(lambda f: f.phi()))'),
    dict(kind="alpha", backend="atlas", why="a parameter named like a declared C++ namespace, after that namespace was used",
         a='ds.Select(lambda e: e.Jets("A").Where(lambda j: j.pt() > FvNS.Kind.Color.Red).Select(lambda k: k.pt()))',
         b='ds.Select(lambda e: e.Jets("A").Where(lambda j: j.pt() > FvNS.Kind.Color.Red).Select(lambda FvNS: FvNS.pt()))'),
    dict(kind="alpha", backend="cms_aod", why="a parameter named like a declared C++ namespace, after that namespace was used (event level)",
         a='ds.Where(lambda e: e.Muons("muons").Where(lambda m: m.pt() == FvNS.Kind.Color.Blue).Count() > 0).Select(lambda ev: ev.Muons("muons").Count())',
         b='ds.Where(lambda e: e.Muons("muons").Where(lambda m: m.pt() == FvNS.Kind.Color.Blue).Count() > 0).Select(lambda FvNS: FvNS.Muons("muons").Count())'),
    dict(kind="alpha", backend="atlas", why="the test suite's nested lambda reusing an argument name",
         a='ds.Select(lambda e: e.Jets("A").Select(lambda j: e.Tracks("T").Where(lambda t: t.pt() > j.pt()).Count()))',
         b='ds.Select(lambda x: x.Jets("A").Select(lambda j: x.Tracks("T").Where(lambda x: x.pt() > j.pt()).Count()))'),
]


def with_kids_md(src: str, backend: str) -> str:
    "attach the base metadata right after ds (textually), so that every variant carries it"
    tree = ast.parse(src, mode="eval").body
    mds = base_md(backend)
    return src_of(with_metadata(tree, mds, [0] * len(mds)))


def compare_pair(a_src: str, b_src: str, backend: str, rt_b: bool = False):
    ra = run_query(a_src, backend)
    rb = run_query(b_src, backend, rt=rt_b)
    return ra, rb, ra == rb


def describe(ra, rb) -> str:
    def d(r):
        return "accepted" if r[0] == "ok" else f"refused ({r[1]})"

    if ra[0] == "ok" and rb[0] == "ok":
        la, lb = ra[1].splitlines(), rb[1].splitlines()
        for x, y in zip(la, lb):
            if x != y:
                return f"packages differ, first differing line: {x.strip()[:110]!r} vs {y.strip()[:110]!r}"
        return "packages differ in length"
    return f"{d(ra)} vs {d(rb)}"


def shrink_alpha(base_tree: ast.AST, variant_tree: ast.AST, backend: str, md_prefix) -> ast.AST:
    """undo renamings lambda by lambda (same positions in both trees) while the difference remains"""
    cur = copy.deepcopy(variant_tree)
    bl, n = all_lambdas(base_tree), len(all_lambdas(cur))
    base_src = md_prefix(src_of(base_tree))
    ra = run_query(base_src, backend)
    for i in range(n):
        cand = copy.deepcopy(cur)
        cl = all_lambdas(cand)
        if len(cl) != len(bl):
            break
        old, new = params(cl[i]), params(bl[i])
        if old == new:
            continue
        # rename this lambda's parameters back when that is capture-free
        fv = free_vars(cl[i])
        if any(p in fv for p in new):
            continue
        body = cl[i].body
        for o, nn in zip(old, new):
            body = subst(body, o, ast.Name(id=nn, ctx=ast.Load()))
        cl[i].body = body
        for arg, nn in zip(cl[i].args.args, new):
            arg.arg = nn
        try:
            rb = run_query(md_prefix(src_of(cand)), backend)
        except Exception:  # noqa: BLE001
            continue
        if rb != ra:
            cur = cand
    return cur


# ------------------------------------------------------------------------------------------------
def check(tier: str, seed: int, t0: float, build: core.BuildStatus) -> int:
    import logging

    logging.disable(logging.CRITICAL)
    ps = core.proof_status(PROP_FILE, build)
    oc = core.Outcome()
    rng = random.Random(seed * 7919 + 8)
    model = core.Model() if build.model_ok else None
    n_base = 36 if tier == "quick" else 400      # base queries per back end
    n_app = 60 if tier == "quick" else 700       # direct-application queries per back end
    depth = 2 if tier == "quick" else 3
    budget = 100 if tier == "quick" else 780      # seconds for the generated part
    stats = {k: {"pairs": 0, "same": 0, "differ": 0, "both_refused": 0} for k in
             ("qastle", "alpha", "metadata", "fusion", "alpha_direct_application")}
    per_backend = {b: 0 for b in BACKENDS}
    ops_hist: Dict[str, int] = {}
    strategies_used: Dict[str, int] = {}
    distinct = set()
    corr = {"same": 0, "differ": 0, "skipped": 0, "with_direct_application": 0, "accepted": 0, "refused_both": 0, "unbounded_both": 0}
    samples: List[Any] = []

    def violation(key, what, replay):
        oc.violations.append(core.Violation(key=key, what=what, replay=replay))

    def record(kind, ra, rb):
        s = stats[kind]
        s["pairs"] += 1
        oc.evaluations += 1
        if ra == rb:
            s["same"] += 1
            if ra[0] != "ok":
                s["both_refused"] += 1
        else:
            s["differ"] += 1

    # ---- corpus -------------------------------------------------------------------------------
    for c in CORPUS:
        a_src, b_src = with_kids_md(c["a"], c["backend"]), with_kids_md(c["b"], c["backend"])
        ra, rb, same = compare_pair(a_src, b_src, c["backend"])
        record("alpha", ra, rb)
        if not same:
            key = c.get("key") or classify_alpha(ast.parse(c["b"], mode="eval").body, ra, rb)
            violation(key, f"alpha-equivalent queries translate differently ({c['why']}): {describe(ra, rb)}; A = {c['a']} ; B = {c['b']}",
                      {"kind": "pair", "variant": "alpha", "backend": c["backend"], "a": a_src, "b": b_src, "broken": "oracle: name-normalised packages of two alpha-equivalent queries must be equal"})

    # ---- model correspondence + direct-application alpha variants -------------------------------
    t_gen = time.time()
    for backend in BACKENDS:
        for i in range(n_app):
            if time.time() - t_gen > budget * 0.35:
                break
            g = AppGen(rng, backend)
            base = g.query(rng.randint(1, depth + 1))
            tree = ast.parse(base, mode="eval").body
            strat = rng.choice(["same", "shadow", "mixed", "fresh"])
            var = alpha_variant(tree, strat, rng)
            for which, t in (("base", tree), ("variant", var)):
                src = with_kids_md(src_of(t), backend)
                if model is not None:
                    st, det = model_vs_impl(src, backend, model)
                    oc.evaluations += 1
                    corr[st] += 1
                    if st == "skipped":
                        corr.setdefault("skipped_reasons", {})
                        corr["skipped_reasons"][str(det)[:60]] = corr["skipped_reasons"].get(str(det)[:60], 0) + 1
                    if st == "same":
                        oc.traces_validated_against_impl += 1
                        if det.get("direct"):
                            corr["with_direct_application"] += 1
                        if det.get("accepted"):
                            corr["accepted"] += 1
                        elif det.get("both"):
                            corr["unbounded_both"] += 1
                        else:
                            corr["refused_both"] += 1
                    elif st == "differ":
                        oc.correspondence_breaks.append({"query": src, "backend": backend, **det})
            a_src, b_src = with_kids_md(base, backend), with_kids_md(src_of(var), backend)
            ra, rb, same = compare_pair(a_src, b_src, backend)
            record("alpha_direct_application", ra, rb)
            if ra[0] == "ok":
                distinct.add(ra[1])
            if not same and (ra[0] == "ok" or rb[0] == "ok"):
                small = shrink_alpha(tree, var, backend, lambda s, b=backend: with_kids_md(s, b))
                b_small = with_kids_md(src_of(small), backend)
                rb2 = run_query(b_small, backend)
                key = classify_alpha(small, ra, rb2)
                violation(key, f"alpha-renaming ({strat}) of a query with a directly applied lambda changes the translation: {describe(ra, rb2)}; A = {base} ; B = {src_of(small)}",
                          {"kind": "pair", "variant": "alpha", "backend": backend, "a": a_src, "b": b_small,
                           "broken": "theorem C08_alpha_refuted predicts it (dynamic scoping of visit_Call_Lambda); oracle: equal normalised packages"})
            if i < 2 and backend == "atlas":
                samples.append({"direct_application_base": base, "variant": src_of(var)})

    # ---- terminal forms whose Python spelling the wire format does not keep (tuple / list / single string of column
    #      names, tuple / list / dict rows): the AST and its qastle round trip must give the same package or the same refusal
    for backend in BACKENDS:
        cname, bank, _ = UNIVERSE[backend][0]
        obj = f'ds.SelectMany(lambda e: e.{cname}("{bank}"))'
        forms = [f'{obj}.Select(lambda j: (j.pt(), j.eta())).AsROOTTTree("f.root", "t", ("a", "b"))',
                 f'{obj}.Select(lambda j: (j.pt(), j.eta())).AsROOTTTree("f.root", "t", ["a", "b"])',
                 f'{obj}.Select(lambda j: [j.pt(), j.eta()]).AsROOTTTree("f.root", "t", ("a", "b"))',
                 f'{obj}.Select(lambda j: j.pt()).AsROOTTTree("f.root", "t", "a")',
                 f'{obj}.Select(lambda j: j.pt()).AsROOTTTree("f.root", "t", ("a",))',
                 f'{obj}.Select(lambda j: j.pt()).AsROOTTTree("f.root", "t", ["a"])',
                 f'{obj}.Select(lambda j: (j.pt(),)).AsROOTTTree("f.root", "t", ("a",))',
                 f'{obj}.Select(lambda j: (j.pt(), j.eta())).AsROOTTTree("f.root", "t", ("a",))',
                 f'{obj}.Select(lambda j: [j.pt(), j.eta()])',
                 f'{obj}.Select(lambda j: (j.pt(), j.eta()))',
                 f'{obj}.Select(lambda j: {{"x": j.pt(), "y": j.eta()}})',
                 f'ds.Select(lambda e: (e.{cname}("{bank}").Select(lambda j: j.pt()), e.{cname}("{bank}").Count()))']
        for base in forms:
            a_src = with_kids_md(base, backend)
            ra = run_query(a_src, backend)
            rb = run_query(a_src, backend, rt=True)
            per_backend[backend] += 1
            record("qastle", ra, rb)
            if ra != rb:
                violation("c08:qastle", f"qastle round trip changes the translation: {describe(ra, rb)}; query = {base}",
                          {"kind": "pair", "variant": "qastle", "backend": backend, "a": a_src, "b": a_src, "roundtrip_b": True,
                           "broken": "oracle: the package of the qastle-round-tripped AST equals that of the Python AST (third-party qastle, differential only)"})

    # ---- differential variants on generated queries ---------------------------------------------
    t_gen = time.time()
    STRATS = ["fresh", "same", "shadow", "coll", "func", "cpp", "arg", "ns", "mixed"]
    for i in range(n_base):
        for backend in BACKENDS:
            if time.time() - t_gen > budget * 0.65:
                break
            g = QGen(rng, backend, depth)
            base = g.query()
            for k, v in g.ops.items():
                ops_hist[k] = ops_hist.get(k, 0) + v
            tree = ast.parse(base, mode="eval").body
            a_src = with_kids_md(base, backend)
            ra = run_query(a_src, backend)
            per_backend[backend] += 1
            if ra[0] == "ok" and sum(g.ops.values()) >= 3:
                distinct.add(ra[1])
            if i < 2 and backend == "atlas":
                samples.append({"base": base, "accepted": ra[0] == "ok"})
            # (1) qastle
            rb = run_query(a_src, backend, rt=True)
            record("qastle", ra, rb)
            if ra != rb:
                violation("c08:qastle", f"qastle round trip changes the translation: {describe(ra, rb)}; query = {base}",
                          {"kind": "pair", "variant": "qastle", "backend": backend, "a": a_src, "b": a_src, "roundtrip_b": True,
                           "broken": "oracle: the package of the qastle-round-tripped AST equals that of the Python AST (third-party qastle, differential only)"})
            # (2) alpha
            for strat in rng.sample(STRATS, 3 if tier == "quick" else 5):
                var = alpha_variant(tree, strat, rng)
                if ast.dump(var) == ast.dump(tree):
                    continue
                strategies_used[strat] = strategies_used.get(strat, 0) + 1
                b_src = with_kids_md(src_of(var), backend)
                rb = run_query(b_src, backend)
                record("alpha", ra, rb)
                if ra != rb and (ra[0] == "ok" or rb[0] == "ok"):
                    small = shrink_alpha(tree, var, backend, lambda s, b=backend: with_kids_md(s, b))
                    b_small = with_kids_md(src_of(small), backend)
                    rb2 = run_query(b_small, backend)
                    key = classify_alpha(small, ra, rb2)
                    violation(key, f"alpha-renaming ({strat}) changes the translation: {describe(ra, rb2)}; A = {base} ; B = {src_of(small)}",
                              {"kind": "pair", "variant": "alpha", "backend": backend, "a": a_src, "b": b_small,
                               "broken": "oracle: name-normalised packages of two alpha-equivalent queries must be equal"})
            # (3) metadata placement
            mds = base_md(backend) + rng.sample(EXTRA_MD, rng.randint(1, 3))
            nchain = len(top_chain(tree))
            ref = src_of(with_metadata(tree, mds, [0] * len(mds)))
            r_ref = run_query(ref, backend)
            for _ in range(2):
                pos = sorted(rng.randint(0, nchain) for _ in mds)
                if not any(pos):
                    continue
                b_src = src_of(with_metadata(tree, mds, pos))
                rb = run_query(b_src, backend)
                record("metadata", r_ref, rb)
                if r_ref != rb:
                    violation("c08:metadata-position", f"moving MetaData calls along the chain (same relative order, positions {pos}) changes the translation: {describe(r_ref, rb)}; query = {base}",
                              {"kind": "pair", "variant": "metadata", "backend": backend, "a": ref, "b": b_src,
                               "broken": "oracle: equal packages wherever the MetaData calls sit (third-party extract_metadata, differential only)"})
            # (3b) two declarations of DIFFERENT C++ functions swapped: each call still gets its own function's code
            names = [m.get("name") for m in mds]
            if "fv_scale" in names and "fv_shift" in names:
                i1, i2 = names.index("fv_scale"), names.index("fv_shift")
                mds2 = list(mds)
                mds2[i1], mds2[i2] = mds2[i2], mds2[i1]
                b_src = src_of(with_metadata(tree, mds2, [0] * len(mds2)))
                rb = run_query(b_src, backend)
                record("metadata", r_ref, rb)
                if r_ref != rb:
                    violation("c08:metadata-position", f"swapping the declarations of two different C++ functions changes the translation: {describe(r_ref, rb)}; query = {base}",
                              {"kind": "pair", "variant": "metadata", "backend": backend, "a": ref, "b": b_src,
                               "broken": "oracle: equal packages whichever of two independent function declarations comes first"})
            # (4) fusion
            fused, nf = fuse_variant(tree)
            if nf:
                b_src = with_kids_md(src_of(fused), backend)
                rb = run_query(b_src, backend)
                record("fusion", ra, rb)
                if ra != rb:
                    violation("c08:fusion", f"hand-fused Select/Where chain translates differently from the chained form: {describe(ra, rb)}; chained = {base} ; fused = {src_of(fused)}",
                              {"kind": "pair", "variant": "fusion", "backend": backend, "a": a_src, "b": b_src,
                               "broken": "oracle: equal packages for chained and pre-fused steps (third-party simplify_chained_calls, differential only)"})

    # ---- directed: a sequence bound by one Select and used SEVERAL times by the next: chained (func_adl substitutes ONE node for every
    # use) versus hand-fused (a copy per use).  The unchanged translator retrieves the collection once for the shared node and once per
    # copy, so the two packages are compared modulo repeated retrievals of the same bank (strip_retrievals); everything else - loops,
    # filters, which element each test and each column reads - is the same program.
    shared_n = 0
    for backend in BACKENDS:
        cname, bank, _ = UNIVERSE[backend][0]
        for srcseq in (f'e.{cname}("{bank}").Where(lambda j: j.pt() > 30)', f'e.{cname}("{bank}").Select(lambda j: j.pt())',
                       f'e.{cname}("{bank}").Where(lambda j: j.pt() > 30).Where(lambda k: k.eta() < 2)'):
            elem_is_num = ".Select(lambda j: j.pt())" in srcseq
            u1 = "s.Select(lambda a: a * 2.0)" if elem_is_num else "s.Select(lambda a: a.pt())"
            u2 = "s.Select(lambda b: b + 1.0)" if elem_is_num else "s.Select(lambda b: b.eta())"
            for uses in ((u1, u2), ("s.Count()", u1), (u1, "s.Count()"), (u1, u2, "s.Count()")):
                chained = f"ds.Select(lambda e: {srcseq}).Select(lambda s: ({', '.join(uses)}))"
                fused_tree, nf_ = fuse_variant(ast.parse(chained, mode="eval").body)
                fused = src_of(fused_tree)
                ra, rb = run_query(chained, backend), run_query(fused, backend)
                oc.evaluations += 1
                shared_n += 1
                same = ra[0] == "ok" and rb[0] == "ok" and (ra[1] == rb[1] or normalise(strip_retrievals(RAW[ra[1]])) == normalise(strip_retrievals(RAW[rb[1]])))
                if not same:
                    violation("c08:fusion", f"a bound sequence used several times: the chained form and the hand-fused form translate to different programs even modulo "
                              f"repeated retrievals ({describe(ra, rb) if ra[0] != 'ok' or rb[0] != 'ok' else 'loop bodies differ'}); chained = {chained} ; fused = {fused}",
                              {"kind": "pair", "variant": "fusion-shared", "backend": backend, "a": chained, "b": fused,
                               "broken": "oracle: equal packages (modulo repeated retrievals of one bank) for chained and pre-fused steps"})
                else:
                    oc.traces_validated_against_impl += 1
    # ---- directed: two independent C++ function declarations in either order, the calls in either order ----
    for backend in BACKENDS:
        cname, bank, _ = UNIVERSE[backend][0]
        for body in ("fv_scale(j.pt()) + fv_shift(j.eta())", "fv_shift(j.pt())", "fv_scale(j.eta())"):
            q = f'ds.Select(lambda e: e.{cname}("{bank}").Select(lambda j: {body}))'
            tree = ast.parse(q, mode="eval").body
            mds = base_md(backend)
            names = [m.get("name") for m in mds]
            i1, i2 = names.index("fv_scale"), names.index("fv_shift")
            mds2 = list(mds)
            mds2[i1], mds2[i2] = mds2[i2], mds2[i1]
            a_src = src_of(with_metadata(tree, mds, [0] * len(mds)))
            b_src = src_of(with_metadata(tree, mds2, [0] * len(mds2)))
            ra, rb = run_query(a_src, backend), run_query(b_src, backend)
            oc.evaluations += 1
            if ra != rb or ra[0] != "ok":
                violation("c08:metadata-position", f"swapping the declarations of two different C++ functions changes the translation (or the query is refused): {describe(ra, rb)}; query = {q}",
                          {"kind": "pair", "variant": "metadata", "backend": backend, "a": a_src, "b": b_src,
                           "broken": "oracle: equal packages whichever of two independent function declarations comes first"})
            else:
                oc.traces_validated_against_impl += 1
    # ---- directed: two independent METHOD declarations (one reached through a dereference, one not) in either order ----
    for backend in BACKENDS:
        cname, bank, etype = UNIVERSE[backend][0]
        d1 = {"metadata_type": "add_method_type_info", "type_string": etype, "method_name": "fv_link_pt", "return_type": "double", "deref_count": 1}
        d2 = {"metadata_type": "add_method_type_info", "type_string": etype, "method_name": "fv_plain_pt", "return_type": "double"}
        d3 = {"metadata_type": "add_method_type_info", "type_string": etype, "method_name": "fv_link2", "return_type": "float", "deref_count": 2}
        for body in ("j.fv_link_pt() + j.fv_plain_pt()", "j.fv_plain_pt()", "j.fv_plain_pt() * j.fv_link2()"):
            q = f'ds.Select(lambda e: e.{cname}("{bank}").Select(lambda j: {body}))'
            tree = ast.parse(q, mode="eval").body
            for order_a, order_b in (([d1, d2, d3], [d2, d1, d3]), ([d1, d2, d3], [d3, d2, d1]), ([d2, d3], [d3, d2])):
                a_src = src_of(with_metadata(tree, order_a, [0] * len(order_a)))
                b_src = src_of(with_metadata(tree, order_b, [0] * len(order_b)))
                ra, rb = run_query(a_src, backend), run_query(b_src, backend)
                oc.evaluations += 1
                if ra != rb or ra[0] != "ok":
                    violation("c08:metadata-position", f"the order of independent method declarations (one with deref_count, one without) changes the translation "
                              f"(or the query is refused): {describe(ra, rb)}; query = {q}",
                              {"kind": "pair", "variant": "metadata", "backend": backend, "a": a_src, "b": b_src,
                               "broken": "oracle: equal packages whichever of two independent method declarations comes first"})
                else:
                    oc.traces_validated_against_impl += 1
    # ---- directed: two enums of the same SHORT name in different namespaces, declared in either order, each used by the query ----
    for backend in BACKENDS:
        cname, bank, etype = UNIVERSE[backend][0]
        e1 = {"metadata_type": "define_enum", "namespace": "FvA.Jet", "name": "Color", "values": ["Red", "Blue"]}
        e2 = {"metadata_type": "define_enum", "namespace": "FvA.Muon", "name": "Color", "values": ["Green", "Red", "Blue"]}
        for q in (f'ds.Select(lambda e: e.{cname}("{bank}").Where(lambda j: j.pt() > FvA.Jet.Color.Blue).Select(lambda k: k.eta()))',
                  f'ds.Select(lambda e: e.{cname}("{bank}").Where(lambda j: j.pt() > FvA.Muon.Color.Blue).Select(lambda k: k.eta()))',
                  f'ds.Select(lambda e: e.{cname}("{bank}").Where(lambda j: j.pt() > FvA.Jet.Color.Blue).Where(lambda m: m.eta() > FvA.Muon.Color.Blue).Count())'):
            tree = ast.parse(q, mode="eval").body
            a_src = src_of(with_metadata(tree, [e1, e2], [0, 0]))
            b_src = src_of(with_metadata(tree, [e2, e1], [0, 0]))
            c_src = src_of(with_metadata(tree, [e1, e2], [0, 1]))
            ra, rb, rc = run_query(a_src, backend), run_query(b_src, backend), run_query(c_src, backend)
            oc.evaluations += 1
            if ra != rb or ra != rc or ra[0] != "ok":
                violation("c08:metadata-position", f"two enums named Color in different namespaces: the order / position of their declarations changes the translation "
                          f"(or the query is refused): {describe(ra, rb) if ra != rb else describe(ra, rc)}; query = {q}",
                          {"kind": "pair", "variant": "metadata", "backend": backend, "a": a_src, "b": b_src if ra != rb else c_src,
                           "broken": "oracle: equal packages whichever of two independent enum declarations comes first"})
            else:
                oc.traces_validated_against_impl += 1
    # ---- rewriter model vs. the real rewriters ----------------------------------------------------
    rw = {"cases": 0, "agree": 0}
    if model is not None:
        for backend in BACKENDS:
            for _ in range(8 if tier == "quick" else 60):
                g = QGen(rng, backend, depth)
                base = with_kids_md(g.query(), backend)
                try:
                    ok = rewriter_agrees(base, backend, model)
                except Exception as e:  # noqa: BLE001
                    ok = f"harness: {type(e).__name__}: {e}"
                rw["cases"] += 1
                oc.evaluations += 1
                if ok is True:
                    rw["agree"] += 1
                    oc.traces_validated_against_impl += 1
                else:
                    oc.correspondence_breaks.append({"rewriter_query": base, "backend": backend, "detail": ok})
        model.close()

    oc.distinct_nontrivial = len(distinct)
    oc.rule = (f"corpus ({len(CORPUS)} pairs) + per back end {n_app} generated queries with directly applied lambdas (model-vs-implementation on base and renamed variant, and the pair) "
               f"+ {n_base} generated base queries per back end (typed grammar, depth {depth}, pairwise distinct parameter names) x variants: qastle round trip, "
               f"3-5 alpha strategies of {STRATS}, 2 MetaData placements, hand fusion when a Select.Select / Where.Where chain is present; wall budget {budget}s; "
               "non-trivial = accepted base query with >= 3 operators, distinct by normalised package")
    oc.samples = samples[:8]
    oc.extra = {
        "shared_bound_sequence_pairs_compared_modulo_repeated_retrievals": shared_n,
        "differential_variants_TESTS_not_proofs": stats,
        "base_queries_per_backend": per_backend,
        "operator_histogram": ops_hist,
        "alpha_strategies": strategies_used,
        "model_correspondence": corr,
        "rewriter_correspondence": rw,
        "model_available": model is not None,
        "fragment": "theorems C08_alpha_partial/_open cover queries without directly applied lambdas; C08_rename covers the whole model for consistent injective renamings; C08_alpha_refuted and C08_known_function_param_refuted are replayed on the implementation by the corpus",
    }
    known_keys = {k["key"] for k in core.known_findings() if k.get("property") == PID and k.get("status") == "known"}
    if not [v for v in oc.violations if not v.no_failing_input and v.key not in known_keys] and (ps.broken or oc.correspondence_breaks or model is None or core.build_hygiene_cache()):
        what = ps.broken or (f"correspondence Binding model vs translator: {json.dumps(oc.correspondence_breaks[0], default=str)[:700]}" if oc.correspondence_breaks else
                             ("hygiene gate: " + "; ".join(core.build_hygiene_cache()) if core.build_hygiene_cache() else "model executable could not be built"))
        oc.violations.append(core.Violation(key="c08:unproved", what=what, no_failing_input=True,
                                            replay={"broken": what, "searched": f"{oc.evaluations} evaluations with the equal-package oracle"}))
    elif oc.correspondence_breaks or ps.broken:
        # a concrete failing input exists already; the broken tie is reported in the evidence
        pass
    return core.finish(PID, tier, seed, t0, ps, build, oc, TRUSTED, ASSUME)


def rewriter_agrees(src: str, backend: str, model: "core.Model"):
    """the model's `rewrite` replaces exactly the calls the real find_known_functions + cpp_ast_finder replace"""
    from func_adl.ast import extract_metadata
    from func_adl.ast.func_adl_ast_utils import change_extension_functions_to_calls
    from func_adl_xAOD.common.cpp_functions import find_known_functions, functions_to_replace
    from func_adl_xAOD.common import cpp_ast

    a = impl.query_ast(src)
    exe = impl.executors()[backend]()
    a, _md = extract_metadata(a)
    a = change_extension_functions_to_calls(a)
    before = Codec().enc(a)
    K = sorted(k for k in functions_to_replace if "." not in k)
    MC = sorted(dict(exe._method_names))
    a = find_known_functions().visit(a)
    a = cpp_ast.cpp_ast_finder(dict(exe._method_names)).visit(a)
    after = Codec().enc(a)
    impl.reset_globals()
    rm = model.call("c08.rewrite", [K, [], MC, before])
    if rm[0] != "ok":
        return f"model: {rm}"

    def shape(e):
        t = e[0]
        if t == "call":
            f = e[1]
            return ["call", "<replaced>" if f[0] == "const" else shape(f), [shape(x) for x in e[2]]]
        if t == "attr":
            return ["attr", shape(e[1]), e[2]]
        if t == "lam":
            return ["lam", e[1], shape(e[2])]
        if t == "op":
            return ["op", [shape(x) for x in e[2]]]
        if t == "const":
            return ["const"]
        return e

    return True if shape(rm[1]) == shape(after) else {"model": shape(rm[1]), "implementation": shape(after)}


def replay(path: str, build: core.BuildStatus) -> int:
    import logging

    logging.disable(logging.CRITICAL)
    data = json.loads(open(path).read())
    if data.get("no_failing_input_found"):
        print(f"replay names a broken obligation only: {data.get('broken')}")
        ps = core.proof_status(PROP_FILE, build)
        print("proof status now:", ps.broken or "all theorems check")
        return 1 if ps.broken else 0
    ra = run_query(data["a"], data["backend"])
    rb = run_query(data["b"], data["backend"], rt=bool(data.get("roundtrip_b")))
    print("variant:", data.get("variant"), "backend:", data["backend"])
    print("A:", data["a"])
    print("B:", data["b"], "(qastle round trip)" if data.get("roundtrip_b") else "")
    print("outcome:", "equal normalised packages" if ra == rb else describe(ra, rb))
    if ra != rb:
        print(f"VIOLATION property={PID} replay={path}")
        return 1
    return 0
