"""C06 - event collections are fetched by the requested bank, type and backend idiom.

Theorems: coq/Properties/C06.v over coq/Model/Collections.v (hand model of get_collection,
process_ast_node for the single parameter `collection_name`, the collection declaration branches of
process_metadata, the executors' method table and backend check) and the regenerated
gen/Collections.v (tables, container-class formats, coder line templates, metadata keys).
Tie: the extracted model is compared with the real executors on generated queries (every built-in
collection x bank strings x 3 backends x positions, random metadata declarations, malformed
declarations and calls): retrieval blocks, token members, booking code, include and library lists,
loop headers and member access on the fetched value.
Search: an independent regex-level oracle of the property text on the rendered files."""
import json
import logging
import random
import re
from collections import Counter
from typing import Any, Dict, List, Optional, Tuple

from .. import core, impl

PID = "C06"
PROP_FILE = "Properties/C06.v"
TRUSTED = [
    "Coq 8.16.1 kernel (coqc); vm_compute on the regenerated finite tables (the bound is the table itself)",
    "translator tools/fv/translators/collections.py (Python ast; literal tables, f-string templates, exact shapes of the metadata branches and of build_collection_callback; refuses anything else)",
    "hand model coq/Model/Collections.v; re.sub(r'\\bcollection_name\\b', literal, line) modelled as replacement of maximal ASCII word runs equal to the parameter (validated against re.sub on generated lines; replacement text without backslashes)",
    "unique_name modelled as (base, counter); distinctness of rendered names rests on decimal printing being injective (compared through an injective-preserving renaming only)",
    "extraction (ExtrOcamlBasic, ExtrOcamlString) + ocaml/main.ml driver + S-expression codec tools/fv/sexp.py",
    "correspondence check = differential test bounded by the generator below; func_adl's own AST passes are not modelled (queries are chosen so that each written collection call is translated exactly once, in source order)",
    "what evtStore()->retrieve / getByLabel / getByToken / consumes do at run time is the experiment framework's business",
]
ASSUME = [
    "bank names over [A-Za-z0-9_:.- ] (quoting of other characters is property C18; backslashes in the substituted text are property C11)",
    "metadata values have their documented types (strings, lists of strings, booleans); dict keys are unique",
    "container type names do not contain the word collection_name (stated as a hypothesis of the idiom theorems, decided for the built-in tables)",
]

BACKENDS = ["atlas", "cms_aod", "cms_miniaod"]
MAIN_FILE = {"atlas": "query.cxx", "cms_aod": "Analyzer.cc", "cms_miniaod": "Analyzer.cc"}
TEMPLATE_DIR = {"atlas": "func_adl_xAOD/template/atlas/r21", "cms_aod": "func_adl_xAOD/template/cms/r5", "cms_miniaod": "func_adl_xAOD/template/cms/r7"}
MD_TYPE = {"atlas": "add_atlas_event_collection_info", "cms_aod": "add_cms_aod_event_collection_info", "cms_miniaod": "add_cms_miniaod_event_collection_info"}

BANKS = ["AntiKt4EMTopoJets", "slimmedMuons", "a", "A1", "x_y", "muons:inst", "a:b:c", "globalMuons", "EventInfo", "result", "collection_name",
         "my collection_name", "with space", "0", "007", "Calo-Jets", "v1.2", "offlinePrimaryVertices", "_", "UPPER", "mixedCase9", "a  b"]


# --------------------------------------------------------------------------------------------
# the implementation's own tables (only used to know what a query asks for)
# --------------------------------------------------------------------------------------------
def impl_tables() -> Dict[str, Dict[str, Dict[str, Any]]]:
    from func_adl_xAOD.atlas.xaod.event_collections import atlas_xaod_collections
    from func_adl_xAOD.cms.aod.event_collections import cms_aod_collections
    from func_adl_xAOD.cms.miniaod.event_collections import cms_miniaod_collections
    from func_adl_xAOD.common.event_collections import event_collection_collection_container

    out: Dict[str, Dict[str, Dict[str, Any]]] = {}
    for key, tab in (("atlas", atlas_xaod_collections), ("cms_aod", cms_aod_collections), ("cms_miniaod", cms_miniaod_collections)):
        out[key] = {}
        for s in tab:
            coll = isinstance(s.container_type, event_collection_collection_container)
            out[key][s.name] = dict(name=s.name, type=s.container_type.type, coll=coll, pd_type=s.container_type.p_depth,
                                    elem_ptr=(s.container_type.element_type.p_depth > 0) if coll else False,
                                    includes=list(s.include_files), libs=list(s.libraries), declared=False)
    return out


def spec_from_md(backend: str, md: Dict[str, Any]) -> Dict[str, Any]:
    """What a (valid) declaration for `backend` asks for, read off the documented keys."""
    coll = bool(md["contains_collection"])
    return dict(name=md["name"], type=md["container_type"], coll=coll, pd_type=1,
                elem_ptr=(True if backend == "atlas" else bool(md.get("element_pointer", False))) if coll else False,
                includes=list(md["include_files"]), libs=list(md.get("link_libraries", [])) if backend == "atlas" else [], declared=True)


# --------------------------------------------------------------------------------------------
# queries
# --------------------------------------------------------------------------------------------
class Use:
    def __init__(self, name: str, args: List[Any], kind: str = "count"):
        self.name, self.args, self.kind = name, args, kind

    def call(self) -> str:
        return f"e.{self.name}({', '.join(repr(a) if not isinstance(a, tuple) else a[0] for a in self.args)})"

    def wire(self):
        return [self.name, [["s", a] if isinstance(a, str) else ["o"] for a in self.args]]

    def bank(self) -> Optional[str]:
        return self.args[0] if len(self.args) == 1 and isinstance(self.args[0], str) else None

    def key(self):
        return (self.name, tuple(str(a) for a in self.args), self.kind)


def term(u: Use, coll: bool) -> str:
    """An expression using the fetched value: collections are iterated, singletons used as values."""
    if not coll:
        return f"{u.call()}.runNumber()"
    if u.kind == "count":
        return f"{u.call()}.Count()"
    return f"{u.call()}.Select(lambda x: x.pt())"


def build_query(position: str, uses: List[Use], colls: List[bool]) -> str:
    ts = [term(u, c) for u, c in zip(uses, colls)]
    if position == "tuple":
        return "ds.Select(lambda e: (" + ", ".join(ts) + "))" if len(ts) > 1 else f"ds.Select(lambda e: {ts[0]})"
    if position == "nested":
        # the second collection is fetched inside the loop over the first
        assert len(uses) == 2 and colls[0]
        inner = f"{uses[1].call()}.Count()" if colls[1] else f"{uses[1].call()}.runNumber()"
        return f"ds.Select(lambda e: {uses[0].call()}.Select(lambda j: j.pt() + {inner}))"
    if position == "where":
        assert len(uses) == 2 and colls[0]
        inner = f"{uses[1].call()}.Count()" if colls[1] else f"{uses[1].call()}.runNumber()"
        return f"ds.Select(lambda e: {uses[0].call()}.Where(lambda j: j.pt() > {inner}).Count())"
    if position == "selectmany":
        assert len(uses) == 1 and colls[0]
        return f"ds.SelectMany(lambda e: {uses[0].call()}).Select(lambda j: j.pt())"
    raise ValueError(position)


class Case:
    def __init__(self, backend: str, position: str, uses: List[Use], md: List[Dict[str, Any]], note: str = ""):
        self.backend, self.position, self.uses, self.md, self.note = backend, position, uses, md, note

    def specs(self, tables) -> Dict[str, Dict[str, Any]]:
        t = dict(tables[self.backend])
        for m in self.md:
            try:
                if m.get("metadata_type") == MD_TYPE[self.backend]:
                    t[m["name"]] = spec_from_md(self.backend, m)
            except Exception:  # noqa: BLE001 - malformed declaration: the expectation is a refusal anyway
                pass
        return t

    def query(self, tables) -> str:
        sp = self.specs(tables)
        colls = [sp[u.name]["coll"] if u.name in sp else True for u in self.uses]
        return build_query(self.position, self.uses, colls)

    def wire(self):
        def val(v):
            if isinstance(v, bool):
                return ["b", "true" if v else "false"]
            if isinstance(v, str):
                return ["s", v]
            return ["l", list(v)]

        return [self.backend, [[[k, val(v)] for k, v in m.items()] for m in self.md], [u.wire() for u in self.uses]]

    def to_json(self, tables):
        return {"backend": self.backend, "position": self.position, "query": self.query(tables), "metadata": self.md,
                "uses": [[u.name, [a if isinstance(a, str) else list(a) for a in u.args], u.kind] for u in self.uses], "note": self.note}

    @staticmethod
    def from_json(d) -> "Case":
        return Case(d["backend"], d["position"], [Use(n, [a if isinstance(a, str) else tuple(a) for a in args], k) for n, args, k in d["uses"]], d["metadata"], d.get("note", ""))


def run_impl(case: Case, tables):
    src = case.query(tables)
    try:
        a = impl.query_ast(src, case.md)
    except Exception as e:  # noqa: BLE001
        return src, ("error", "query-construction:" + type(e).__name__, str(e)[:200])
    # cms_miniaod: the package is also rendered a SECOND time from the same translated query (a second output directory, a
    # retry): each retrieval of that package has its token declared and initialised too
    r = impl.translate(case.backend, a, write_again=(case.backend == "cms_miniaod"))
    impl.reset_globals()
    return src, r


def second_rendering_tokens(res) -> Optional[str]:
    sl = res[1].get("slots_again") if res[0] == "ok" else None
    if not sl:
        return None
    q = "\n".join(str(x) for x in sl.get("query_code", []))
    used = re.findall(r"iEvent\.getByToken\((\w+), result\)", q)
    decls = [m for x in sl.get("class_decl", []) for m in re.findall(r"edm::EDGetTokenT<.*> (\w+);", str(x))]
    inits = [m for x in sl.get("book_code", []) for m in re.findall(r"^\s*(\w+) = consumes<", str(x))]
    for tok in used:
        if decls.count(tok) != 1 or inits.count(tok) != 1:
            return (f"second rendering of the same translated query: token {tok} is read by getByToken but declared {decls.count(tok)}x and "
                    f"initialised {inits.count(tok)}x in that package")
    return None


def run_on(exe, case: Case, tables):
    """One query on a given executor object (the object is kept by the caller and reused)."""
    import tempfile
    from pathlib import Path

    src = case.query(tables)
    try:
        a = impl.query_ast(src, case.md)
    except Exception as e:  # noqa: BLE001
        return src, ("error", "query-construction:" + type(e).__name__, str(e)[:200])
    with tempfile.TemporaryDirectory(prefix="fv-c06-") as d:
        out = Path(d)
        try:
            a2 = exe.apply_ast_transformations(a)
            exe.write_cpp_files(a2, out)
        except Exception as e:  # noqa: BLE001 - exception class is the observable
            return src, ("error", type(e).__name__, str(e)[:300])
        files = {f.name: {"text": f.read_text(), "mode": f.stat().st_mode & 0o777} for f in sorted(out.iterdir())}
    return src, ("ok", {"files": files})


def outcome_class(res) -> str:
    return "ok" if res[0] == "ok" else res[1]


def run_sequence(backend: str, steps: List["Case"], tables):
    """All steps on ONE executor object, in order.  A step whose uses name something that is neither a
    built-in nor declared by that step is additionally run on a fresh executor (reference outcome)."""
    exe = impl.executors()[backend]()
    out = []
    for c in steps:
        src, res = run_on(exe, c, tables)
        ref = None
        if any(u.name not in c.specs(tables) for u in c.uses):
            ref = outcome_class(run_on(impl.executors()[backend](), c, tables)[1])
        out.append((src, res, ref))
    impl.reset_globals()
    return out


def sequence_oracle(steps: List["Case"], tables, results) -> Optional[Tuple[int, str]]:
    """The property is a statement about each query: what an earlier query on the same executor declared
    must not matter.  Returns (index of the failing step, description)."""
    for i, (c, (src, res, ref)) in enumerate(zip(steps, results)):
        if ref is not None:
            if outcome_class(res) != ref:
                return (i, f"query {i + 1} uses a name that is neither built-in nor declared by it: a fresh executor gives {ref}, the reused executor gives {outcome_class(res)}")
            continue
        bad = oracle(c, tables, res)
        if bad:
            return (i, f"query {i + 1} ({src}) after {i} earlier quer{'y' if i == 1 else 'ies'} on the same executor: [{bad[0]}] {bad[1]}")
    return None


# --------------------------------------------------------------------------------------------
# reading the rendered package
# --------------------------------------------------------------------------------------------
def stripped_lines(text: str) -> List[str]:
    return [ln.strip() for ln in text.splitlines() if ln.strip()]


def block_tree(lines: List[str]):
    root: Dict[str, Any] = {"items": [], "parent": None}
    cur = root
    for ln in lines:
        if ln == "{":
            b = {"items": [], "parent": cur}
            cur["items"].append(b)
            cur = b
        elif ln in ("}", "};"):
            cur = cur["parent"] or root
        else:
            cur["items"].append(ln)
    return root


def walk(b):
    for it in b["items"]:
        if isinstance(it, dict):
            yield it
            yield from walk(it)


_TEMPLATE_INCLUDES: Dict[str, List[str]] = {}


def template_includes(backend: str) -> List[str]:
    if backend not in _TEMPLATE_INCLUDES:
        t = (core.REPO / TEMPLATE_DIR[backend] / MAIN_FILE[backend]).read_text()
        _TEMPLATE_INCLUDES[backend] = re.findall(r'^\s*#include "([^"]+)"', t, flags=re.M)
    return _TEMPLATE_INCLUDES[backend]


def projection(backend: str, files: Dict[str, Any]) -> Dict[str, Any]:
    """The part of the package C06 speaks about, read structurally (same shape as the model's s_pkg)."""
    text = files[MAIN_FILE[backend]]["text"]
    lines = stripped_lines(text)
    root = block_tree(lines)
    fetches = []
    for b in walk(root):
        items = b["items"]
        if len(items) >= 3 and all(isinstance(x, str) for x in items):
            m = re.fullmatch(r"(\w+) = result;", items[-1])
            if m and re.fullmatch(r".* result( = 0)?;", items[0]):
                parent = b["parent"]
                decl = [x for x in parent["items"] if isinstance(x, str) and re.fullmatch(r".* " + re.escape(m.group(1)) + r";", x)]
                fetches.append({"var": m.group(1), "lines": ["{"] + items + ["}"], "decls_in_parent": decl})
    tokens = re.findall(r"^\s*(edm::EDGetTokenT<.*>) (\w+);\s*$", text, flags=re.M)
    book = [ln for ln in lines if re.fullmatch(r"\w+ = consumes<.*;", ln)]
    incs = re.findall(r'^\s*#include "([^"]+)"', text, flags=re.M)
    tinc = Counter(template_includes(backend))
    extra = []
    for i in incs:
        if tinc[i] > 0:
            tinc[i] -= 1
        else:
            extra.append(i)
    libs: List[str] = []
    if backend == "atlas":
        m = re.search(r"LINK_LIBRARIES AnaAlgorithmLib (.*)\)", files["package_CMakeLists.txt"]["text"])
        libs = m.group(1).split() if m else ["<LINK_LIBRARIES line not found>"]
    return {"fetches": fetches, "tokens": [list(t) for t in tokens], "book": book, "includes": extra, "libs": libs, "text": text, "lines": lines}


def canon(names: List[str], payload: Any) -> Any:
    """Rename the given identifiers to V0, V1, ... in order of first listing (injective-preserving:
    a name listed twice keeps one image)."""
    mp: Dict[str, str] = {}
    for n in names:
        if n not in mp:
            mp[n] = f"V{len(mp)}"
    if not mp:
        return payload
    rx = re.compile(r"\b(" + "|".join(re.escape(n) for n in sorted(mp, key=len, reverse=True)) + r")\b")

    def go(x):
        if isinstance(x, str):
            return rx.sub(lambda m: mp[m.group(1)], x)
        if isinstance(x, list):
            return [go(y) for y in x]
        return x

    return go(payload)


def impl_view(p: Dict[str, Any]):
    names = [f["var"] for f in p["fetches"]] + [t[1] for t in p["tokens"]]
    payload = [[f["decls_in_parent"] for f in p["fetches"]], [f["lines"] for f in p["fetches"]], [f"{t[0]} {t[1]};" for t in p["tokens"]], p["book"], p["includes"], p["libs"]]
    return canon(names, payload)


def model_view(r):
    decls, blocks, cls, book, inc, libs, reps = r
    names = [d[1] for d in decls] + [c[1] for c in cls]
    payload = [[[f"{d[0]} {d[1]};"] for d in decls], blocks, [f"{c[0]} {c[1]};" for c in cls], book, inc, libs]
    return canon(names, payload)


# --------------------------------------------------------------------------------------------
# the property text, checked on one rendered package (independent of the model)
# --------------------------------------------------------------------------------------------
def norm_ty(s: str) -> str:
    return re.sub(r"\s+", "", s)


def idiom_type(backend: str, t: str) -> List[str]:
    if backend == "atlas":
        return [norm_ty(f"const {t}*")]
    return [norm_ty(f"edm::Handle<{t}>"), norm_ty(f"Handle<{t}>")] if backend == "cms_miniaod" else [norm_ty(f"edm::Handle<{t}>")]


def strip_example(text: str) -> str:
    """The CMS templates carry a commented-out (#ifdef'd) example retrieval."""
    return re.sub(r"#ifdef THIS_IS_AN_EVENT_EXAMPLE.*?#endif", "", text, flags=re.S)


def oracle(case: Case, tables, res) -> Optional[Tuple[str, str]]:
    """None, or (violation class, description)."""
    backend = case.backend
    specs = case.specs(tables)
    bad_md = malformed_md(case)
    bad_call = [u for u in case.uses if u.bank() is None]
    if bad_md or bad_call:
        why = bad_md or f"call {bad_call[0].call()} has wrong argument count or type"
        if res[0] != "error":
            return ("accepted-malformed", f"{why}, but the query was translated")
        if res[1] not in ("ValueError", "KeyError"):
            return ("accepted-malformed", f"{why}: refused with {res[1]} (neither ValueError nor KeyError)")
        return None
    if res[0] == "error":
        return ("refused-valid", f"a well-formed query was refused: {res[1]}: {res[2][:160]}")
    files = res[1]["files"]
    text = files[MAIN_FILE[backend]]["text"]
    want = Counter()
    for u in case.uses:
        want[(specs[u.name]["type"], u.bank())] += 1
    got = Counter()
    fetched_vars: List[Tuple[str, str, str]] = []  # (var, declared result type, type name)
    if backend == "atlas":
        ms = list(re.finditer(r'(\S[^\n;]*?) result = 0;\s+ANA_CHECK \(evtStore\(\)->retrieve\(result, "([^"\n]*)"\)\);\s+(\w+) = result;', text))
        if text.count("->retrieve(") != len(ms):
            return ("unchecked-retrieve", "an evtStore()->retrieve call is not of the status-checked form `T* result = 0; ANA_CHECK (...retrieve(result, \"bank\")); v = result;`")
        for m in ms:
            t = re.fullmatch(r"const(.*)\*", norm_ty(m.group(1)))
            got[(t.group(1) if t else "?" + m.group(1), m.group(2))] += 1
            fetched_vars.append((m.group(3), m.group(1), t.group(1) if t else "?"))
    elif backend == "cms_aod":
        live = strip_example(text)
        ms = list(re.finditer(r'(\S[^\n;]*?) result;\s+iEvent\.getByLabel\("([^"\n]*)", result\);\s+(\w+) = result;', live))
        if live.count("getByLabel(") != len(ms):
            return ("wrong-idiom", "a getByLabel call is not of the form `edm::Handle<T> result; iEvent.getByLabel(\"bank\", result); v = result;`")
        for m in ms:
            t = re.fullmatch(r"edm::Handle<(.*)>", norm_ty(m.group(1)))
            got[(t.group(1) if t else "?" + m.group(1), m.group(2))] += 1
            fetched_vars.append((m.group(3), m.group(1), t.group(1) if t else "?"))
    else:
        live = strip_example(text)
        ms = list(re.finditer(r'(\S[^\n;]*?) result;\s+iEvent\.getByToken\((\w+), result\);\s+(\w+) = result;', live))
        if live.count("getByToken(") != len(ms):
            return ("wrong-idiom", "a getByToken call is not of the form `Handle<T> result; iEvent.getByToken(token, result); v = result;`")
        decls = re.findall(r"^\s*edm::EDGetTokenT<(.*)> (\w+);\s*$", text, flags=re.M)
        inits = re.findall(r'^\s*(\w+) = consumes<(.*)>\(edm::InputTag\("([^"\n]*)"\)\);\s*$', text, flags=re.M)
        used = [m.group(2) for m in ms]
        for tok in used:
            nd = [d for d in decls if d[1] == tok]
            ni = [i for i in inits if i[0] == tok]
            if len(nd) != 1 or len(ni) != 1 or used.count(tok) != 1:
                banks = [i[2] for i in ni]
                return ("miniaod-shared-token", f"token {tok} is declared {len(nd)}x, initialised {len(ni)}x (tags {banks}) and used by {used.count(tok)} retrievals: "
                        "each use needs its own token, declared and initialised once with its bank's tag")
        if len(decls) != len(ms) or len(inits) != len(ms):
            return ("token-count", f"{len(ms)} retrievals but {len(decls)} token members and {len(inits)} initialisations")
        again = second_rendering_tokens(res)
        if again:
            return ("token-second-rendering", again)
        for m in ms:
            d = [d for d in decls if d[1] == m.group(2)][0]
            i = [i for i in inits if i[0] == m.group(2)][0]
            t = re.fullmatch(r"(?:edm::)?Handle<(.*)>", norm_ty(m.group(1)))
            tn = t.group(1) if t else "?" + m.group(1)
            if norm_ty(d[0]) != tn or norm_ty(i[1]) != tn:
                return ("token-type", f"token {m.group(2)}: handle of {tn}, token of {d[0]}, consumes<{i[1]}>")
            got[(tn, i[2])] += 1
            fetched_vars.append((m.group(3), m.group(1), tn))
    want_n = Counter({(norm_ty(t), b): n for (t, b), n in want.items()})
    if got != want_n:
        return ("wrong-fetch", f"query asks for (type, bank) {sorted(want_n.items())} but the job retrieves {sorted(got.items())}")
    # result variables: declared in the enclosing block with the container type, assigned once
    p = projection(backend, files)
    if len(p["fetches"]) != len(fetched_vars):
        return ("block-shape", f"{len(fetched_vars)} retrievals but {len(p['fetches'])} blocks of the shape {{ T result..; fetch; v = result; }}")
    for f in p["fetches"]:
        rt = re.fullmatch(r"(.*) result( = 0)?;", f["lines"][1]).group(1)
        if len(f["decls_in_parent"]) != 1 or norm_ty(f["decls_in_parent"][0]) != norm_ty(f"{rt} {f['var']};"):
            return ("result-variable", f"{f['var']}: declarations in the enclosing block {f['decls_in_parent']} (expected one of type {rt})")
        if len(re.findall(r"^\s*" + re.escape(f["var"]) + r" = ", text, flags=re.M)) != 1:
            return ("result-variable", f"{f['var']} is assigned more than once")
        if norm_ty(rt) not in [x for u in case.uses for x in idiom_type(backend, specs[u.name]["type"])]:
            return ("wrong-fetch", f"{f['var']} has type {rt}, not a container idiom of this backend")
    # headers and libraries
    incs = re.findall(r'#include "([^"]+)"', text)
    for u in case.uses:
        for i in specs[u.name]["includes"]:
            if i not in incs:
                return ("missing-include", f"{u.name} needs {i}, not included by {MAIN_FILE[backend]}")
        if backend == "atlas":
            for lib in specs[u.name]["libs"]:
                if lib not in p["libs"]:
                    return ("missing-library", f"{u.name} needs library {lib}; LINK_LIBRARIES has {p['libs']}")
    if len(set(incs)) != len(incs) or len(set(p["libs"])) != len(p["libs"]):
        return ("duplicate-request", "an include or a link library is requested twice")
    # iteration / value use
    tvars = {}
    for (var, _, tn), u in zip(fetched_vars, order_uses(case, fetched_vars, specs)):
        tvars[var] = u
    for var, u in tvars.items():
        sp = specs[u.name]
        loops = re.findall(r"for \(auto &&(\w+) : (\*?)" + re.escape(var) + r"\)", text)
        if not sp["coll"]:
            if loops:
                return ("singleton-iterated", f"{u.name} is a single object but the job loops over {var}")
            if not re.search(re.escape(var) + r"->runNumber\(\)", text):
                return ("singleton-use", f"{u.name}: expected {var}->runNumber() in the job")
            continue
        if len(loops) != 1 or loops[0][1] != ("*" if sp["pd_type"] > 0 else ""):
            return ("iteration", f"{u.name}: expected one loop over {'*' if sp['pd_type'] > 0 else ''}{var}, found {loops}")
        if u.kind == "select" or case.position in ("nested", "where", "selectmany") and u is case.uses[0]:
            it = loops[0][0]
            op = "->" if sp["elem_ptr"] else "."
            acc = re.findall(re.escape(it) + r"(->|\.)pt\(\)", text)
            if not acc or any(a != op for a in acc):
                cls = "cms-element-pointer-ignored" if (sp["declared"] and backend != "atlas" and sp["elem_ptr"]) else "element-kind"
                return (cls, f"{u.name} declares its elements as {'pointers' if sp['elem_ptr'] else 'objects'} but the job accesses them with {acc or 'nothing'} (expected {it}{op}pt())")
    return None


def order_uses(case: Case, fetched_vars, specs) -> List[Use]:
    """Pair retrievals (in file order) with the query's uses: same (type, bank) - any consistent pairing."""
    remaining = list(case.uses)
    out = []
    for var, _, tn in fetched_vars:
        pick = None
        for u in remaining:
            if norm_ty(specs[u.name]["type"]) == tn and var.rstrip("0123456789") == u.name.lower():
                pick = u
                break
        if pick is None:
            pick = remaining[0]
        remaining.remove(pick)
        out.append(pick)
    return out


REQUIRED = ["name", "include_files", "container_type", "contains_collection"]


def malformed_md(case: Case) -> Optional[str]:
    """Why the property demands a refusal of the metadata, or None."""
    allowed = {b: None for b in BACKENDS}
    for m in case.md:
        t = m.get("metadata_type")
        b = {v: k for k, v in MD_TYPE.items()}.get(t)
        if b is None:
            return f"unknown metadata type {t}"
        keys = ["metadata_type", "name", "include_files", "container_type", "element_type", "contains_collection"] + (["link_libraries"] if b == "atlas" else ["element_pointer"])
        for k in m:
            if k not in keys:
                return f"unexpected key {k} in a {b} collection declaration"
        for k in REQUIRED:
            if k not in m:
                return f"required key {k} missing in a {b} collection declaration"
        if bool(m["contains_collection"]) != ("element_type" in m):
            return "element_type given iff contains_collection violated"
        if b != "atlas" and not m["contains_collection"]:
            return "CMS has no single-object container"
        if b != case.backend:
            return f"declaration for backend {b} given to the {case.backend} executor"
    return None


# --------------------------------------------------------------------------------------------
# generators
# --------------------------------------------------------------------------------------------
def builtin_cases(tables, tier: str) -> List[Case]:
    out: List[Case] = []
    banks1 = BANKS
    banks2 = BANKS[:6] if tier == "quick" else BANKS
    for b in BACKENDS:
        names = list(tables[b])
        for i, n in enumerate(names):
            coll = tables[b][n]["coll"]
            for bank in banks1:
                out.append(Case(b, "tuple", [Use(n, [bank], "select" if coll and len(out) % 2 else "count")], []))
            other = names[(i + 1) % len(names)]
            for j, bank in enumerate(banks2):
                bank2 = banks2[(j + 3) % len(banks2)]
                out.append(Case(b, "tuple", [Use(n, [bank]), Use(other, [bank2])], []))
                out.append(Case(b, "tuple", [Use(n, [bank]), Use(n, [bank])], [], "same collection, same bank"))
                out.append(Case(b, "tuple", [Use(n, [bank], "select"), Use(n, [bank2])], [], "same collection, two banks"))
                if coll:
                    out.append(Case(b, "nested", [Use(n, [bank]), Use(other, [bank2])], []))
                    out.append(Case(b, "where", [Use(n, [bank]), Use(n, [bank2])], []))
                    out.append(Case(b, "selectmany", [Use(n, [bank])], []))
            out.append(Case(b, "tuple", [Use(names[(i + k) % len(names)], [BANKS[(i + k) % len(BANKS)]]) for k in range(3)], []))
    return out


TYPES = ["My::JetContainer", "xAOD::CaloClusterContainer", "reco::PFJetCollection", "std::vector<My::Hit>", "pat::TauCollection", "T"]
ELEMS = ["My::Jet", "xAOD::CaloCluster", "reco::PFJet", "My::Hit", "pat::Tau", "E"]
INCS = ["My/JetContainer.h", "xAODCaloEvent/CaloClusterContainer.h", "DataFormats/JetReco/interface/PFJet.h", "a.h", "xAODJet/JetContainer.h"]
LIBS = ["xAODCaloEvent", "MyLib", "xAODJet"]


def gen_decl(rng: random.Random, backend_of_decl: str, tables, executor_backend: str, valid: bool = True) -> Dict[str, Any]:
    builtin = list(tables[executor_backend])
    name = rng.choice(builtin) if rng.random() < 0.35 else rng.choice(["MyJets", "CaloClusters", "PFJets", "Taus", "Things"])
    k = rng.randrange(len(TYPES))
    coll = True if backend_of_decl != "atlas" else rng.random() < 0.75
    md: Dict[str, Any] = {"metadata_type": MD_TYPE[backend_of_decl], "name": name,
                          "include_files": rng.sample(INCS, rng.randint(0, 3)), "container_type": TYPES[k], "contains_collection": coll}
    if coll:
        md["element_type"] = ELEMS[k]
    if backend_of_decl == "atlas":
        if rng.random() < 0.6:
            md["link_libraries"] = rng.sample(LIBS, rng.randint(0, 2))
    elif rng.random() < 0.7:
        md["element_pointer"] = rng.random() < 0.5
    if not valid:
        kind = rng.choice(["extra-key", "missing-key", "mismatch", "cms-single", "foreign-key"])
        if kind == "extra-key":
            md[rng.choice(["colour", "element_types", "libraries"])] = "x"
        elif kind == "missing-key":
            del md[rng.choice(REQUIRED)]
        elif kind == "mismatch":
            if "element_type" in md:
                del md["element_type"]
            else:
                md["element_type"] = "E"
        elif kind == "cms-single":
            md["contains_collection"] = False
            md.pop("element_type", None)
            if backend_of_decl == "atlas":
                md["colour"] = "x"
        else:
            md["element_pointer" if backend_of_decl == "atlas" else "link_libraries"] = True if backend_of_decl == "atlas" else ["L"]
    # shuffle key order (dict order is the iteration order of the key check)
    items = list(md.items())
    rng.shuffle(items)
    return dict(items)


def random_case(rng: random.Random, tables) -> Case:
    b = rng.choice(BACKENDS)
    r = rng.random()
    md: List[Dict[str, Any]] = []
    n_md = rng.choice([0, 1, 1, 2, 3])
    bad = None
    if r < 0.22:
        bad = rng.choice(["decl", "backend", "arity0", "arity2", "nonstring", "nonstring-expr", "keyword", "keyword"])
    for i in range(n_md):
        md.append(gen_decl(rng, b, tables, b))
    if bad == "decl":
        md.insert(rng.randint(0, len(md)), gen_decl(rng, b, tables, b, valid=False))
    if bad == "backend":
        other = rng.choice([x for x in BACKENDS if x != b])
        md.insert(rng.randint(0, len(md)), gen_decl(rng, other, tables, b))
    case = Case(b, "tuple", [], md, bad or "")
    sp = case.specs(tables)
    names = list(sp)
    declared = [m["name"] for m in md if m.get("metadata_type") == MD_TYPE[b] and "name" in m]
    n_uses = rng.choice([1, 2, 2, 3])
    uses = []
    for i in range(n_uses):
        n = rng.choice(declared) if declared and rng.random() < 0.6 else rng.choice(names)
        uses.append(Use(n, [rng.choice(BANKS)], rng.choice(["count", "select"])))
    if bad == "arity0":
        uses[rng.randrange(len(uses))].args = []
    elif bad == "arity2":
        uses[rng.randrange(len(uses))].args = [rng.choice(BANKS), rng.choice(BANKS)]
    elif bad == "nonstring":
        uses[rng.randrange(len(uses))].args = [(rng.choice(["1", "2.5", "True"]),)]
    elif bad == "keyword":
        # the bank passed by keyword (no positional argument at all), or a positional bank plus a keyword: malformed calls
        kw = rng.choice(["name", "bank", "collection_name", "tag", "label"])
        bank = rng.choice(BANKS)
        uses[rng.randrange(len(uses))].args = [(f"{kw}={bank!r}",)] if rng.random() < 0.7 else [(f"{bank!r}, {kw}={rng.choice(BANKS)!r}",)]
    elif bad == "nonstring-expr":
        uses[rng.randrange(len(uses))].args = [(rng.choice(["'a' + 'b'", "e", "('x',)", "-1", "1 + 1", "-(2.5)", "not True"]),)]
    pos = "tuple"
    if bad is None and len(uses) == 2 and sp.get(uses[0].name, {}).get("coll") and rng.random() < 0.4:
        pos = rng.choice(["nested", "where"])
        uses[0].kind = uses[1].kind = "count"
    if bad is None and len(uses) == 1 and sp.get(uses[0].name, {}).get("coll") and rng.random() < 0.3:
        pos = "selectmany"
    case.position, case.uses = pos, uses
    return case


def reuse_sequences(rng: random.Random, tables, n_random: int) -> List[Tuple[str, List[Case]]]:
    """Query sequences for one executor object: a query declaring a collection that replaces a built-in and
    one with a new name, then metadata-free queries using the built-in name and the (now undeclared) new name."""
    out: List[Tuple[str, List[Case]]] = []
    for b in BACKENDS:
        names = list(tables[b])
        for i, n in enumerate(names):
            k = i % len(TYPES)
            over = {"metadata_type": MD_TYPE[b], "name": n, "include_files": [INCS[i % len(INCS)]], "container_type": TYPES[k],
                    "element_type": ELEMS[k], "contains_collection": True}
            fresh = {"metadata_type": MD_TYPE[b], "name": "MyThings", "include_files": ["a.h"], "container_type": "My::ThingContainer",
                     "element_type": "My::Thing", "contains_collection": True}
            if b == "atlas":
                over["link_libraries"] = ["MyLib"]
            bank = BANKS[i % len(BANKS)]
            a = Case(b, "tuple", [Use(n, [bank], "select"), Use("MyThings", ["things"])], [over, fresh], "declares override + new name")
            b1 = Case(b, "tuple", [Use(n, [bank], "select" if tables[b][n]["coll"] else "count")], [], "built-in after override")
            c1 = Case(b, "tuple", [Use("MyThings", ["things"])], [], "undeclared name after declaration")
            b2 = Case(b, "tuple", [Use(n, [BANKS[(i + 1) % len(BANKS)]]), Use(names[(i + 1) % len(names)], [bank])], [], "two built-ins after override")
            out.append((b, [a, b1, c1, b2]))
    for _ in range(n_random):
        b = rng.choice(BACKENDS)
        steps = []
        for _ in range(rng.randint(2, 4)):
            c = random_case(rng, tables)
            while c.backend != b:
                c = random_case(rng, tables)
            steps.append(c)
        out.append((b, steps))
    return out


def subst_cases(rng: random.Random, n: int) -> List[Tuple[str, str, str]]:
    words = ["collection_name", "result", "x", "collection_name2", "_collection_name", "collection", "name", "Collection_Name"]
    seps = [" ", "(", ")", ",", ";", "->", ".", "::", "<", ">", "*", "\"", "-", "=", "\t", "", ""]
    out = []
    for _ in range(n):
        s = "".join(rng.choice(words) + rng.choice(seps) for _ in range(rng.randint(0, 8)))
        out.append(("collection_name", '"' + rng.choice(BANKS) + '"', s))
    return out


# --------------------------------------------------------------------------------------------
# the check
# --------------------------------------------------------------------------------------------
def compare(case: Case, tables, res, model) -> Optional[Dict[str, Any]]:
    """Model vs implementation on one case; None when they agree."""
    rm = model.call("c06.query", case.wire())
    if rm[0] == "error":
        if rm[1] == "unmodelled":
            return {"case": case.to_json(tables), "model": rm, "implementation": "n/a", "why": "generator produced an input outside the model"}
        if res[0] == "error" and res[1] == rm[1]:
            return None
        return {"case": case.to_json(tables), "model": rm, "implementation": list(res[:3]) if res[0] == "error" else "translated"}
    if res[0] == "error":
        return {"case": case.to_json(tables), "model": "translated", "implementation": list(res[:3])}
    p = projection(case.backend, res[1]["files"])
    vi, vm = impl_view(p), model_view(rm[1])
    if vi != vm:
        diff = [k for k, (a, b) in zip(["declarations", "blocks", "token members", "booking", "includes", "libraries"], zip(vi, vm)) if a != b]
        return {"case": case.to_json(tables), "differs_in": diff, "implementation": vi, "model": vm}
    # use of the fetched values: loop header and member access predicted by the model
    text = p["text"]
    for f, rep in zip(p["fetches"], rm[1][6]):
        var = f["var"]
        if rep[0] == "coll":
            loops = re.findall(r"for \(auto &&(\w+) : (\*?" + re.escape(var) + r")\)", text)
            want_expr = rep[2].replace(rep[1], var)
            if len(loops) != 1 or loops[0][1] != want_expr:
                return {"case": case.to_json(tables), "differs_in": ["loop header"], "implementation": loops, "model": want_expr}
            acc = re.findall(r"\b" + re.escape(loops[0][0]) + r"(->|\.)pt\(\)", text)
            if any("i" + a != rep[5] for a in acc):
                return {"case": case.to_json(tables), "differs_in": ["member access"], "implementation": acc, "model": rep[5]}
        else:
            if re.search(r": \*?" + re.escape(var) + r"\)", text) or not re.search(re.escape(rep[2].replace(rep[1], var)) + r"runNumber\(\)", text):
                return {"case": case.to_json(tables), "differs_in": ["singleton use"], "model": rep}
    return None


def shrink(case: Case, tables, still_bad) -> Case:
    cur = case
    changed = True
    while changed:
        changed = False
        cands = []
        if len(cur.uses) > 1 and cur.position == "tuple":
            cands += [Case(cur.backend, "tuple", cur.uses[:i] + cur.uses[i + 1:], cur.md, cur.note) for i in range(len(cur.uses))]
        used = {u.name for u in cur.uses}
        cands += [Case(cur.backend, cur.position, cur.uses, cur.md[:i] + cur.md[i + 1:], cur.note) for i in range(len(cur.md))
                  if cur.md[i].get("name") not in used or sum(1 for m in cur.md if m.get("name") == cur.md[i].get("name")) > 1]
        for c in cands:
            try:
                if still_bad(c):
                    cur, changed = c, True
                    break
            except Exception:  # noqa: BLE001
                continue
    return cur


def header_block_cases(oc: core.Outcome, tables) -> Dict[str, int]:
    """A collection used in a query that ALSO carries an inject_code block naming the collection's own header among its
    header_includes (a block ported from another query): the generated job still includes every header the container needs -
    in the main file, or (ATLAS) in the header file the main file includes."""
    hist: Dict[str, int] = Counter()
    for b in BACKENDS:
        for name, sp in tables[b].items():
            if not sp["includes"]:
                continue
            variants = [{"header_includes": [sp["includes"][0]]}, {"header_includes": list(sp["includes"]) + ["vector"]},
                        {"body_includes": list(sp["includes"]) + ["vector"], "link_libraries": list(sp.get("libs", []))},
                        {"body_includes": [sp["includes"][0]], "header_includes": [sp["includes"][0]]}]
            for fields in variants:
                incs = fields
                blk = {"metadata_type": "inject_code", "name": "fv_hdr", "private_members": ["int m_fv_x;"], **fields}
                kind = "Count()" if sp["coll"] else "isValid()"
                src = f'ds.Select(lambda e: e.{name}("b1").{kind})' if sp["coll"] else f'ds.Select(lambda e: e.{name}("b1").runNumber())'
                try:
                    r = impl.translate(b, impl.query_ast(src, [blk]))
                except Exception as e:  # noqa: BLE001
                    r = ("error", type(e).__name__, str(e))
                impl.reset_globals()
                oc.evaluations += 1
                if r[0] != "ok":
                    hist["refused"] += 1
                    continue
                files = r[1]["files"]
                text = files[MAIN_FILE[b]]["text"] + (files.get("query.h", {"text": ""})["text"] if b == "atlas" else "")
                got = re.findall(r'#include "([^"]+)"', text)
                missing = [i for i in sp["includes"] if i not in got]
                if b == "atlas" and sp.get("libs") and "package_CMakeLists.txt" in files:
                    cm = files["package_CMakeLists.txt"]["text"]
                    m_ = re.search(r"LINK_LIBRARIES ([^)]*)\)", cm)
                    have = m_.group(1).split() if m_ else []
                    missing += ["library " + lib for lib in sp["libs"] if lib not in have]
                hist["included" if not missing else "MISSING"] += 1
                if missing:
                    oc.violations.append(core.Violation(
                        key="c06:missing-include",
                        what=f"{b}: {src} with an inject_code block {incs}: {name} needs {missing}, which the generated package does not request",
                        replay={"kind": "header-block", "backend": b, "query": src, "metadata": [blk], "missing": missing}))
    return dict(hist)


def check(tier: str, seed: int, t0: float, build: core.BuildStatus) -> int:
    logging.disable(logging.CRITICAL)
    ps = core.proof_status(PROP_FILE, build)
    oc = core.Outcome()
    refusal = build.gen_errors.get("Collections.v")
    rng = random.Random(seed * 7919 + 6)
    tables = impl_tables()
    model = core.Model() if build.model_ok else None
    cases: List[Case] = []
    corpus = core.VERIF / "tools" / "corpus" / "c06.json"
    if corpus.exists():
        cases.extend(Case.from_json(c) for c in json.loads(corpus.read_text()))
    n_corpus = len(cases)
    hdr_hist = header_block_cases(oc, tables)
    bi = builtin_cases(tables, tier)
    cases.extend(bi)
    n_random = 700 if tier == "quick" else 9000
    cases.extend(random_case(rng, tables) for _ in range(n_random))
    hist: Dict[str, int] = Counter()
    per_backend: Dict[str, int] = Counter()
    positions: Dict[str, int] = Counter()
    errs: Dict[str, int] = Counter()
    distinct = set()
    seen_v = set()
    builtins_covered = set()
    for case in cases:
        src, res = run_impl(case, tables)
        oc.evaluations += 1
        per_backend[case.backend] += 1
        positions[case.position] += 1
        hist["malformed" if (malformed_md(case) or any(u.bank() is None for u in case.uses)) else ("declared" if case.md else "builtin")] += 1
        if res[0] == "error":
            errs[res[1]] += 1
        for u in case.uses:
            if not case.md and u.name in tables[case.backend]:
                builtins_covered.add((case.backend, u.name))
        if len(case.uses) >= 2 or case.md:
            distinct.add(json.dumps([case.backend, src, case.md], sort_keys=True))
        bad = oracle(case, tables, res)
        if bad:
            if bad[0] in seen_v:
                continue
            seen_v.add(bad[0])
            cls = bad[0]
            small = shrink(case, tables, lambda c: (oracle(c, tables, run_impl(c, tables)[1]) or ("", ""))[0] == cls)
            s_src, s_res = run_impl(small, tables)
            what = oracle(small, tables, s_res)[1]
            oc.violations.append(core.Violation(
                key=f"c06:{cls}", what=f"{small.backend}: {s_src} {('with ' + json.dumps(small.md)) if small.md else ''}: {what}",
                replay={"kind": "query", **small.to_json(tables), "oracle": what,
                        "model": model.call("c06.query", small.wire()) if model else None,
                        "broken": "property oracle on the implementation's rendered package"}))
            continue
        if model is not None:
            d = compare(case, tables, res, model)
            if d is None:
                oc.traces_validated_against_impl += 1
            else:
                oc.correspondence_breaks.append(d)
    # several queries on ONE executor object: an earlier query's declarations must not reach a later query
    n_seq_random = 40 if tier == "quick" else 600
    seqs = reuse_sequences(rng, tables, n_seq_random)
    seq_steps = 0
    seq_reported = False
    for b, steps in seqs:
        results = run_sequence(b, steps, tables)
        oc.evaluations += len(steps)
        seq_steps += len(steps)
        distinct.add(json.dumps([b, [r[0] for r in results], [c.md for c in steps]], sort_keys=True))
        bad = sequence_oracle(steps, tables, results)
        if bad:
            if seq_reported:
                continue
            seq_reported = True
            # shrink: drop steps before / after the failing one while it still fails
            cur = steps[: bad[0] + 1]
            changed = True
            while changed and len(cur) > 1:
                changed = False
                for i in range(len(cur) - 1):
                    cand = cur[:i] + cur[i + 1:]
                    if sequence_oracle(cand, tables, run_sequence(b, cand, tables)) is not None:
                        cur, changed = cand, True
                        break
            res2 = run_sequence(b, cur, tables)
            what = sequence_oracle(cur, tables, res2)
            alone = oracle(cur[-1], tables, run_impl(cur[-1], tables)[1]) if all(u.name in cur[-1].specs(tables) for u in cur[-1].uses) else None
            oc.violations.append(core.Violation(
                key="c06:executor-reuse",
                what=f"{b}: on one executor object, {what[1]}; the same query on a fresh executor: {'holds' if alone is None else alone[1]}",
                replay={"kind": "sequence", "backend": b, "steps": [c.to_json(tables) for c in cur], "oracle": what[1],
                        "model_last_step": model.call("c06.query", cur[-1].wire()) if model else None,
                        "broken": "property oracle on the package rendered for the last query of the sequence (theorems C06_builtin_kept / C06_override are per-query: the method table of a query is the backend table updated by that query's own declarations)"}))
            continue
        if model is not None:
            for c, (src, res, ref) in zip(steps, results):
                if ref is not None:
                    oc.traces_validated_against_impl += 1
                    continue
                d = compare(c, tables, res, model)
                if d is None:
                    oc.traces_validated_against_impl += 1
                else:
                    d["after_earlier_queries_on_same_executor"] = True
                    oc.correspondence_breaks.append(d)
    # the substitution alone against re.sub
    n_sub = 1500 if tier == "quick" else 20000
    sub_ok = 0
    if model is not None:
        for w, repl, s in subst_cases(rng, n_sub):
            oc.evaluations += 1
            want = re.sub(rf"\b{re.escape(w)}\b", repl, s)
            gotm = model.call("c06.subst", [w, repl, s])
            if gotm != want:
                oc.correspondence_breaks.append({"subst": [w, repl, s], "re.sub": want, "model": gotm})
            else:
                sub_ok += 1
        # regenerated tables as the model sees them vs the imported Python objects
        mt = model.call("c06.tables", [])
        for ent in mt:
            key, accepts, specs = ent[0], ent[1], ent[2]
            names = [s[1] for s in specs]
            if names != list(tables[key]):
                oc.correspondence_breaks.append({"table": key, "model": names, "implementation": list(tables[key])})
            for s in specs:
                t = tables[key].get(s[1])
                if t and (s[4] != t["type"] or s[2] != t["includes"] or s[10] != t["libs"] or (s[3] == "coll") != t["coll"]):
                    oc.correspondence_breaks.append({"table": key, "row": s, "implementation": t})
        model.close()
    oc.distinct_nontrivial = len(distinct)
    missing = [f"{b}.{n}" for b in BACKENDS for n in tables[b] if (b, n) not in builtins_covered]
    oc.rule = (f"corpus ({n_corpus}) + every built-in collection of the three tables x {len(BANKS)} bank strings alone, and with {6 if tier == 'quick' else len(BANKS)} bank strings in "
               f"{{two different collections, same collection twice (same / different bank), nested lambda, Where predicate, SelectMany}} ({len(bi)} queries) "
               f"+ {n_random} random cases (0-3 metadata declarations incl. overrides of built-ins, 22% malformed: bad declaration keys, foreign backend, arity 0/2, non-string argument, bank passed by keyword) "
               f"+ {len(seqs)} query sequences on one executor object each ({seq_steps} queries: declaration overriding every built-in + a new name, then metadata-free queries; {n_seq_random} random sequences of 2-4 cases) "
               f"+ {n_sub} substitution lines against re.sub; non-trivial = at least two collection uses or a declaration; distinct by (backend, query text, metadata)")
    oc.samples = [c.to_json(tables) for c in (bi[1], bi[len(bi) // 2], cases[n_corpus + len(bi)], cases[-1])]
    oc.extra = {"collection_with_header_include_block": hdr_hist, "input_classes": dict(hist), "per_backend": dict(per_backend), "positions": dict(positions), "implementation_errors": dict(errs),
                "builtins_not_covered": missing, "executor_reuse_sequences": len(seqs), "executor_reuse_queries": seq_steps, "substitution_lines_ok": sub_ok, "translator_refusal": refusal, "model_available": build.model_ok,
                "bank_alphabet": "[A-Za-z0-9_:.- ] (22 fixed strings incl. 'result' and 'collection_name')"}
    concrete = [v for v in oc.violations if not v.no_failing_input]
    if ps.broken or refusal or oc.correspondence_breaks or not build.model_ok or core.build_hygiene_cache():
        what = (refusal and f"translator refused: {refusal}") or ps.broken or (oc.correspondence_breaks and f"correspondence Collections.v vs implementation: {json.dumps(oc.correspondence_breaks[0], default=str)[:700]}") \
            or (core.build_hygiene_cache() and "hygiene gate: " + "; ".join(core.build_hygiene_cache())) or "model executable could not be built"
        if not concrete:
            oc.violations.append(core.Violation(key="c06:unproved", what=str(what), no_failing_input=True,
                                                replay={"broken": str(what), "searched": f"{oc.evaluations} generated cases with the property oracle, none failed"}))
        else:
            oc.extra["broken_obligation_explained_by_failing_input"] = str(what)[:600]
    return core.finish(PID, tier, seed, t0, ps, build, oc, TRUSTED, ASSUME)


def replay(path: str, build: core.BuildStatus) -> int:
    logging.disable(logging.CRITICAL)
    data = json.loads(open(path).read())
    if data.get("no_failing_input_found"):
        ps = core.proof_status(PROP_FILE, build)
        print("broken obligation recorded:", data.get("broken"))
        print("proof status now:", ps.broken or "all theorems check")
        return 1 if ps.broken else 0
    tables = impl_tables()
    if data.get("kind") == "header-block":
        oc2 = core.Outcome()
        header_block_cases(oc2, tables)
        bad = [v for v in oc2.violations if v.replay.get("query") == data.get("query") and v.replay.get("backend") == data.get("backend")]
        for v in bad:
            print(v.what)
        if bad:
            print(f"VIOLATION property={PID} replay={path}")
            return 1
        print("every header the container needs is included")
        return 0
    if data.get("kind") == "sequence":
        steps = [Case.from_json(c) for c in data["steps"]]
        results = run_sequence(data["backend"], steps, tables)
        for i, (c, (src, res, ref)) in enumerate(zip(steps, results)):
            print(f"query {i + 1} on the same {data['backend']} executor:", src)
            print("  metadata:", json.dumps(c.md))
            if res[0] == "error":
                print("  implementation:", res[1], res[2])
            else:
                for f in projection(c.backend, res[1]["files"])["fetches"]:
                    print("  retrieval:", " ".join(f["lines"]), "| declared:", f["decls_in_parent"])
            if ref is not None:
                print("  fresh executor gives:", ref)
        bad = sequence_oracle(steps, tables, results)
        print("oracle:", bad[1] if bad else "property holds on this sequence")
        if bad:
            print(f"VIOLATION property={PID} replay={path}")
            return 1
        return 0
    case = Case.from_json(data)
    src, res = run_impl(case, tables)
    print("backend:", case.backend)
    print("query:", src)
    print("metadata:", json.dumps(case.md))
    if res[0] == "error":
        print("implementation:", res[1], res[2])
    else:
        p = projection(case.backend, res[1]["files"])
        for f in p["fetches"]:
            print("retrieval:", " ".join(f["lines"]), "| declared:", f["decls_in_parent"])
        print("token members:", p["tokens"])
        print("booking:", p["book"])
    if build.model_ok:
        m = core.Model()
        print("model:", m.call("c06.query", case.wire()))
        m.close()
    bad = oracle(case, tables, res)
    print("oracle:", bad[1] if bad else "property holds on this input")
    if bad:
        print(f"VIOLATION property={PID} replay={path}")
        return 1
    return 0
