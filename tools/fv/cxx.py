"""From the package the implementation writes to the Coq IR (coq/Cpp/IR.v).

* `slots(backend, files)` locates, in the rendered files, the regions each template for-loop produced
  (query_code, book_code, class_decl, include lists ...) using the template's own static text as anchors.
* `parse_program(...)` parses the emitted per-event code, class declarations and booking code into the
  S-expression form of `IR.program`.  Fail-closed: a line or expression the grammar does not cover becomes an
  opaque node carrying its text and identifier tokens; structural surprises raise ParseError.
* every caller re-renders the IR with the extracted Coq printer (`cpp.print`) and compares with the emitted
  lines, so what the theorems talk about is the text the C++ compiler would read.
"""
import re
from fractions import Fraction
from pathlib import Path
from typing import Any, Dict, List, Optional, Tuple

from . import core

TEMPLATE_DIRS = {"atlas": "func_adl_xAOD/template/atlas/r21", "cms_aod": "func_adl_xAOD/template/cms/r5", "cms_miniaod": "func_adl_xAOD/template/cms/r7"}
CODE_FILE = {"atlas": "query.cxx", "cms_aod": "Analyzer.cc", "cms_miniaod": "Analyzer.cc"}


class ParseError(Exception):
    pass


# ------------------------------------------------------------------------------------------------
# slot extraction
# ------------------------------------------------------------------------------------------------
_FOR = re.compile(r"\{%-?\s*for\s+(\w+)\s+in\s+(\w+)\s*-?%\}(.*?)\{%(-?)\s*endfor\s*-?%\}", re.S)


def _template_regex(text: str) -> Tuple[re.Pattern, List[Tuple[str, str, str]]]:
    """Regex matching any rendering of the template; one named group per for-loop."""
    if text.endswith("\n"):
        text = text[:-1]  # jinja2: keep_trailing_newline=False
    pos = 0
    parts = []
    loops = []
    for i, m in enumerate(_FOR.finditer(text)):
        static = text[pos : m.start()]
        if m.group(4) == "-":  # `{%- endfor %}` strips whitespace before it: handled in body below
            pass
        parts.append(re.escape(static))
        var, seq, body = m.group(1), m.group(2), m.group(3)
        if m.group(4) == "-":
            body = body.rstrip()
        vm = re.search(r"\{\{\s*" + var + r"\s*\}\}", body)
        if not vm or "{%" in body or body.count("{{") != 1:
            raise ParseError(f"template loop over {seq} has an unexpected body")
        loops.append((seq, body[: vm.start()], body[vm.end() :]))
        parts.append(f"(?P<g{i}>.*?)")
        pos = m.end()
    rest = text[pos:]
    if "{{" in text[:0] or "{%" in rest:
        raise ParseError("template directive outside a for loop")
    parts.append(re.escape(rest))
    return re.compile("".join(parts) + r"\Z", re.S), loops


def _split_region(region: str, pre: str, post: str) -> List[str]:
    """region = (pre item post)*, items as short as possible."""
    out = []
    i = 0
    n = len(region)
    while i < n:
        if not region.startswith(pre, i):
            raise ParseError(f"slot region does not continue with the loop body prefix at {i}: {region[i:i+40]!r}")
        i += len(pre)
        k = i
        while True:
            if k > n:
                raise ParseError("slot region: loop body suffix not found")
            if region.startswith(post, k):
                after = k + len(post)
                if after == n or (region.startswith(pre, after) and (pre != "" or post != "")):
                    if k > i or after == n or pre != "" or post != "":
                        out.append(region[i:k])
                        i = after
                        break
            k += 1
    return out


def slots(backend: str, files: Dict[str, Dict[str, Any]]) -> Dict[str, List[str]]:
    """All for-loop slots of every rendered template file of the backend: name -> list of items."""
    res: Dict[str, List[str]] = {}
    tdir = core.REPO / TEMPLATE_DIRS[backend]
    for fname, f in files.items():
        tpath = tdir / fname
        if not tpath.exists():
            continue
        ttext = tpath.read_text()
        if "{%" not in ttext:
            continue
        rx, loops = _template_regex(ttext)
        m = rx.match(f["text"])
        if not m:
            raise ParseError(f"{fname}: rendered file does not match its template's static text")
        for i, (seq, pre, post) in enumerate(loops):
            items = _split_region(m.group(f"g{i}"), pre, post)
            res[seq] = res.get(seq, []) + items
    return res


# ------------------------------------------------------------------------------------------------
# expression parser
# ------------------------------------------------------------------------------------------------
_TOK = re.compile(
    r"\s*(?:(?P<num>(?:\d+\.\d*|\.\d+|\d+)(?:[eE][+-]?\d+)?)|(?P<id>[A-Za-z_][A-Za-z0-9_]*(?:::[A-Za-z_][A-Za-z0-9_]*)*)"
    r"|(?P<str>\"(?:[^\"\\]|\\.)*\")|(?P<op>->|<=|>=|==|!=|&&|\|\||[-+*/%<>!(),.&]))"
)
IDENT = re.compile(r"[A-Za-z_][A-Za-z0-9_]*")


def idents(text: str) -> List[str]:
    """Identifier tokens of a piece of C++ text (string literals skipped), in order, duplicates removed."""
    text = re.sub(r'"(?:[^"\\]|\\.)*"', '""', text)
    out = []
    for m in IDENT.finditer(text):
        if m.group(0) not in out:
            out.append(m.group(0))
    return out


def _tokenize(s: str):
    pos = 0
    toks = []
    while pos < len(s):
        m = _TOK.match(s, pos)
        if not m or m.end() == pos:
            if s[pos:].strip() == "":
                break
            raise ParseError(f"cannot tokenise {s[pos:pos+20]!r}")
        kind = m.lastgroup
        toks.append((kind, m.group(kind), m.start(kind), m.end(kind)))
        pos = m.end()
    return toks


class _P:
    """Pratt parser for the expression forms the translator builds.  Produces a generic tree
    ('paren', x) ('bin', op, a, b) ('pre', op, a) ('call', f, args) ('meth', o, arrow, m, args)
    ('field', o, arrow, m) ('cast', ty, a) ('var', x) ('num', text) ('str', text) ('bool', b)."""

    PREC = {"*": 7, "/": 7, "%": 7, "+": 6, "-": 6, "<": 5, "<=": 5, ">": 5, ">=": 5, "==": 4, "!=": 4}

    def __init__(self, s):
        self.s = s
        self.t = _tokenize(s)
        self.i = 0

    def peek(self):
        return self.t[self.i] if self.i < len(self.t) else (None, None, len(self.s), len(self.s))

    def eat(self, val=None):
        k, v, a, b = self.peek()
        if k is None or (val is not None and v != val):
            raise ParseError(f"expected {val!r} at {a} in {self.s!r}")
        self.i += 1
        return k, v

    def expr(self, minp=0):
        left = self.unary()
        while True:
            k, v, _, _ = self.peek()
            if k == "op" and v in self.PREC and self.PREC[v] >= minp:
                self.eat()
                right = self.expr(self.PREC[v] + 1)
                left = ("bin", v, left, right)
            else:
                return left

    def unary(self):
        k, v, _, _ = self.peek()
        if k == "op" and v in ("!", "*", "-", "+"):
            self.eat()
            return ("pre", v, self.unary())
        return self.postfix(self.primary())

    def args(self):
        out = []
        self.eat("(")
        if self.peek()[1] == ")":
            self.eat(")")
            return out
        while True:
            out.append(self.expr())
            if self.peek()[1] == ",":
                self.eat(",")
                continue
            self.eat(")")
            return out

    def postfix(self, e):
        while True:
            k, v, _, _ = self.peek()
            if k == "op" and v in (".", "->"):
                self.eat()
                k2, name = self.eat()
                if k2 != "id":
                    raise ParseError("member name expected")
                if self.peek()[1] == "(":
                    e = ("meth", e, v == "->", name, self.args())
                else:
                    e = ("field", e, v == "->", name)
            else:
                return e

    def primary(self):
        k, v, a, b = self.peek()
        if k == "num":
            self.eat()
            return ("num", v)
        if k == "str":
            self.eat()
            return ("str", v[1:-1])
        if k == "op" and v == "(":
            self.eat("(")
            e = self.expr()
            self.eat(")")
            return ("paren", e)
        if k == "id":
            self.eat()
            if v in ("true", "false"):
                return ("bool", v == "true")
            if v == "static_cast":
                self.eat("<")
                # type text up to the matching '>'
                depth = 1
                start = self.peek()[2]
                while depth:
                    kk, vv, aa, bb = self.peek()
                    if kk is None:
                        raise ParseError("unterminated static_cast")
                    if vv == "<":
                        depth += 1
                    elif vv == ">":
                        depth -= 1
                        if depth == 0:
                            end = aa
                    self.i += 1
                ty = self.s[start:end]
                a1 = self.args()
                if len(a1) != 1:
                    raise ParseError("static_cast arity")
                return ("cast", ty, a1[0])
            if self.peek()[1] == "(":
                return ("call", v, self.args())
            return ("var", v)
        raise ParseError(f"unexpected token {v!r} in {self.s!r}")


def _num(text: str):
    if re.fullmatch(r"\d+", text):
        return ["int", int(text)]
    fr = Fraction(text)
    return ["dbl", text, fr.numerator, fr.denominator]


def _to_ir(g, top=False):
    k = g[0]
    if k == "var":
        return ["var", g[1]]
    if k == "num":
        return _num(g[1])
    if k == "str":
        return ["str", g[1]]
    if k == "bool":
        return ["bool", g[1]]
    if k == "paren":
        inner = g[1]
        if inner[0] == "bin":
            return ["bin", inner[1], _to_ir(inner[2]), _to_ir(inner[3])]
        if inner[0] == "pre" and inner[1] in ("+", "-", "!") and inner[2][0] == "paren":
            return ["un", inner[1], _to_ir(inner[2][1])]
        if inner[0] == "pre" and inner[1] == "*":
            return ["deref", _to_ir(inner[2])]  # only valid in object position; checked by the re-print
        raise ParseError("unsupported parenthesised form")
    if k == "pre":
        if g[1] == "!":
            return ["not", _to_ir(g[2])]
        if g[1] == "*":
            return ["deref", _to_ir(g[2])]
        raise ParseError("bare unary minus/plus")
    if k == "bin":
        if top and g[1] == "-":
            return ["subi", _to_ir(g[2]), _to_ir(g[3])]
        raise ParseError("unparenthesised binary operator")
    if k == "call":
        return ["call", g[1], [_to_ir(a) for a in g[2]]]
    if k == "meth":
        return ["meth", _to_ir(g[1]), g[2], g[3], [_to_ir(a) for a in g[4]]]
    if k == "field":
        return ["field", _to_ir(g[1]), g[2], g[3]]
    if k == "cast":
        return ["cast", g[1], _to_ir(g[2])]
    raise ParseError(k)


def pr_exp(e, obj=False) -> str:
    """Mirror of IR.pr_exp / pr_obj (used only to decide when to fall back to an opaque node; the
    authoritative re-print is done by the extracted Coq printer)."""
    k = e[0]
    if k == "var":
        return e[1]
    if k == "int":
        return str(e[1])
    if k == "dbl":
        return e[1]
    if k == "bool":
        return "true" if e[1] else "false"
    if k == "str":
        return '"' + e[1] + '"'
    if k == "bin":
        return "(" + pr_exp(e[2]) + e[1] + pr_exp(e[3]) + ")"
    if k == "un":
        return "(" + e[1] + "(" + pr_exp(e[2]) + "))"
    if k == "not":
        return "!" + pr_exp(e[1])
    if k == "deref":
        return ("(*" + pr_exp(e[1], True) + ")") if obj else ("*" + pr_exp(e[1]))
    if k == "call":
        return e[1] + "(" + ",".join(pr_exp(a) for a in e[2]) + ")"
    if k == "meth":
        return pr_exp(e[1], True) + ("->" if e[2] else ".") + e[3] + "(" + ",".join(pr_exp(a) for a in e[4]) + ")"
    if k == "field":
        return pr_exp(e[1], True) + ("->" if e[2] else ".") + e[3]
    if k == "cast":
        return "static_cast<" + e[1] + ">(" + pr_exp(e[2]) + ")"
    if k == "subi":
        return pr_exp(e[1]) + " - " + pr_exp(e[2])
    if k == "opaque":
        return e[1]
    raise ParseError(k)


def parse_exp(text: str):
    """Expression text -> IR sexp; anything outside the grammar (or that does not re-print to the same
    text) becomes an opaque node with its identifier tokens."""
    try:
        p = _P(text)
        g = p.expr()
        if p.i != len(p.t):
            raise ParseError("trailing tokens")
        ir = _to_ir(g, top=True)
        if pr_exp(ir) == text:
            return ir
    except (ParseError, ValueError, ZeroDivisionError):
        pass
    return ["opaque", text, idents(text)]


# ------------------------------------------------------------------------------------------------
# statements
# ------------------------------------------------------------------------------------------------
_DECL = re.compile(r"^(?P<type>[^=()]+?) (?P<name>[A-Za-z_][A-Za-z0-9_]*)(?: \((?P<init>.*)\))?;$")
_SET = re.compile(r"^(?P<x>[A-Za-z_][A-Za-z0-9_]*) = (?P<e>.*);$")
_PUSH = re.compile(r"^(?P<x>[A-Za-z_][A-Za-z0-9_]*)\.push_back\((?P<e>.*)\);$")
_CLEAR = re.compile(r"^(?P<x>[A-Za-z_][A-Za-z0-9_]*)\.clear\(\);$")
_CAST = re.compile(r"^static_cast<(?P<t>[^()]*)>\((?P<e>.*)\)$")
_FOR_L = re.compile(r"^for \(auto &&(?P<x>[A-Za-z_][A-Za-z0-9_]*) : (?P<e>.*)\)$")
_IF = re.compile(r"^if \((?P<c>.*)\)$")
_FILL = re.compile(r'^(?:tree\s*\("(?P<t>[^"]*)"\)|myTree)->Fill\(\);$')
_THROW = re.compile(r"^throw .*;$")
_IOTA = re.compile(r"^std::iota\((?P<v>\w+)\.begin\(\),(?P=v)\.end\(\),(?P<b>\w+)\);$")
_RESULT = re.compile(r"^(?P<x>[A-Za-z_][A-Za-z0-9_]*) = result;$")

FETCH_IDIOMS = {
    "atlas": (re.compile(r"^(?P<t>.+) result = 0;$"), re.compile(r'^ANA_CHECK \(evtStore\(\)->retrieve\(result, "(?P<bank>(?:[^"\\]|\\.)*)"\)\);$')),
    "cms_aod": (re.compile(r"^(?P<t>.+) result;$"), re.compile(r'^iEvent\.getByLabel\("(?P<bank>(?:[^"\\]|\\.)*)", result\);$')),
    "cms_miniaod": (re.compile(r"^(?P<t>.+) result;$"), re.compile(r"^iEvent\.getByToken\((?P<tok>\w+), result\);$")),
}


def _balanced(s: str) -> bool:
    d = 0
    ins = False
    i = 0
    while i < len(s):
        c = s[i]
        if ins:
            if c == "\\":
                i += 1
            elif c == '"':
                ins = False
        elif c == '"':
            ins = True
        elif c == "(":
            d += 1
        elif c == ")":
            d -= 1
            if d < 0:
                return False
        i += 1
    return d == 0 and not ins


def _split_cast(text: str):
    m = _CAST.match(text)
    if m and _balanced(m.group("e")):
        return [m.group("t")], m.group("e")
    return [], text


class _Lines:
    def __init__(self, lines: List[str]):
        self.l = lines
        self.i = 0

    def peek(self) -> Optional[str]:
        return self.l[self.i] if self.i < len(self.l) else None

    def next(self) -> str:
        if self.i >= len(self.l):
            raise ParseError("unexpected end of code")
        s = self.l[self.i]
        self.i += 1
        return s


def _parse_block(L: _Lines, depth: int, backend: str, bare: bool):
    ind = "  " * depth
    if L.next() != ind + "{":
        raise ParseError(f"'{{' expected at line {L.i}")
    # a bare block whose last statement is `x = result;` and that has no nested block is injected code
    if bare:
        j = L.i
        body = []
        nested = False
        while j < len(L.l) and L.l[j] != ind + "}":
            if L.l[j].strip() in ("{", "}"):
                nested = True
            body.append(L.l[j])
            j += 1
        if j >= len(L.l):
            raise ParseError("unterminated block")
        if not nested and body:
            m = _RESULT.match(body[-1].strip())
            raw = [b[len(ind) + 2 :] if b.startswith(ind + "  ") else b.strip() for b in body]
            if m and all(b.startswith(ind + "  ") for b in body):
                L.i = j + 1
                lines = raw[:-1]
                decl_rx, get_rx = FETCH_IDIOMS[backend]
                if len(lines) == 2 and decl_rx.match(lines[0]) and get_rx.match(lines[1]):
                    ct = decl_rx.match(lines[0]).group("t")
                    g = get_rx.match(lines[1])
                    bank = g.groupdict().get("bank")
                    if bank is None:
                        bank = "token:" + g.group("tok")
                    return ["fetch", backend, m.group("x"), ct, bank, lines]
                return ["user", lines, idents("\n".join(lines)), [m.group("x")]]
    decls = []
    while True:
        s = L.peek()
        if s is None:
            raise ParseError("unterminated block")
        t = s[len(ind) + 2 :] if s.startswith(ind + "  ") else None
        if t is None:
            break
        m = _DECL.match(t)
        if not m or t.startswith(("return ", "throw ", "else", "for ", "if ")) or _SET.match(t):
            break
        init = m.group("init")
        if init is not None and not _balanced(init):
            break
        decls.append([m.group("type"), m.group("name"), [parse_exp(init)] if init is not None else []])
        L.next()
    stmts = []
    while True:
        s = L.peek()
        if s is None:
            raise ParseError("unterminated block")
        if s == ind + "}":
            L.next()
            return ["blk", decls, stmts]
        if not s.startswith(ind + "  "):
            raise ParseError(f"bad indentation at line {L.i}: {s!r}")
        t = s[len(ind) + 2 :]
        if t == "{":
            b = _parse_block(L, depth + 1, backend, True)
            stmts.append(b if b[0] in ("fetch", "user") else ["block", b])
            continue
        m = _FOR_L.match(t)
        if m:
            L.next()
            b = _parse_block(L, depth + 1, backend, False)
            stmts.append(["for", m.group("x"), parse_exp(m.group("e")), b])
            continue
        m = _IF.match(t)
        if m:
            L.next()
            b = _parse_block(L, depth + 1, backend, False)
            els = []
            if L.peek() == ind + "  else":
                L.next()
                els = [_parse_block(L, depth + 1, backend, False)]
            stmts.append(["if", parse_exp(m.group("c")), b, els])
            continue
        L.next()
        if t == "else":
            raise ParseError("else without a preceding if block")
        if _FILL.match(t):
            stmts.append(["fill", t])
            continue
        if _THROW.match(t):
            stmts.append(["throw", t])
            continue
        m = _IOTA.match(t)
        if m:
            stmts.append(["iota", m.group("v"), m.group("b")])
            continue
        m = _CLEAR.match(t)
        if m:
            stmts.append(["clear", m.group("x")])
            continue
        m = _PUSH.match(t)
        if m and _balanced(m.group("e")):
            c, e = _split_cast(m.group("e"))
            stmts.append(["push", m.group("x"), c, parse_exp(e)])
            continue
        m = _SET.match(t)
        if m and _balanced(m.group("e")):
            c, e = _split_cast(m.group("e"))
            stmts.append(["set", m.group("x"), c, parse_exp(e)])
            continue
        stmts.append(["line", t, idents(t)])


_MEMBER = re.compile(r"^(?P<type>.+) (?P<name>[A-Za-z_][A-Za-z0-9_]*);$")
BOOK_RX = {
    "atlas": (re.compile(r'^ANA_CHECK \(book \(TTree \("(?P<t>(?:[^"\\]|\\.)*)", "My analysis ntuple"\)\)\);$'), re.compile(r'^auto myTree = tree \("(?P<t>(?:[^"\\]|\\.)*)"\);$')),
    "cms_aod": (re.compile(r"^edm::Service<TFileService> fs;$"), re.compile(r'^myTree = fs->make<TTree>\("(?P<t>(?:[^"\\]|\\.)*)", "My analysis ntuple"\);$')),
    "cms_miniaod": (re.compile(r"^edm::Service<TFileService> fs;$"), re.compile(r'^myTree = fs->make<TTree>\("(?P<t>(?:[^"\\]|\\.)*)", "My analysis ntuple"\);$')),
}
_BRANCH = re.compile(r'^myTree->Branch\("(?P<n>(?:[^"\\]|\\.)*)", &(?P<v>[A-Za-z_][A-Za-z0-9_]*)\);$')


def parse_program(backend: str, sl: Dict[str, List[str]]):
    """slots -> (program sexp, query_code lines as emitted (non-blank), notes)."""
    qlines = [l.rstrip() for l in sl.get("query_code", []) if l.strip() != ""]
    L = _Lines(qlines)
    body = _parse_block(L, 0, backend, False)
    if L.i != len(qlines):
        raise ParseError("text after the outermost block")
    members = []
    for l in sl.get("class_decl", []):
        t = l.strip()  # class_declaration_code appends a newline to every line
        if not t:
            continue
        m = _MEMBER.match(t)
        if not m:
            raise ParseError(f"class declaration line not understood: {t!r}")
        members.append([m.group("type"), m.group("name")])
    book = [l.strip() for l in sl.get("book_code", []) if l.strip() not in ("", "{", "}")]
    tree = None
    branches = []
    extra = []
    for t in book:
        mb = _BRANCH.match(t)
        if mb:
            branches.append([mb.group("n"), mb.group("v")])
            continue
        hit = False
        for rx in BOOK_RX[backend]:
            m = rx.match(t)
            if m:
                hit = True
                if "t" in m.groupdict():
                    if tree is not None and tree != m.group("t"):
                        raise ParseError("two different tree names in the booking code")
                    tree = m.group("t")
        if not hit:
            extra.append(t)
    return [members, tree if tree is not None else "", branches, extra, body], qlines


def roundtrip(model: "core.Model", body, qlines: List[str]) -> Optional[str]:
    """Re-render the IR with the extracted Coq printer; None if identical to the emitted lines."""
    r = model.call("cpp.print", body)
    if r[0] != "ok":
        return f"model refused the IR: {r}"
    if r[1] != qlines:
        for i, (a, b) in enumerate(zip(r[1], qlines)):
            if a != b:
                return f"line {i}: printed {a!r} != emitted {b!r}"
        return f"line count {len(r[1])} != {len(qlines)}"
    return None
