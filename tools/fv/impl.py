"""Driving the real implementation in /repo (imported from FV_REPO, default /repo)."""
import ast
import importlib
import logging
import os
import sys
import tempfile
from pathlib import Path
from typing import Any, Dict, List, Optional, Tuple

REPO = os.environ.get("FV_REPO", "/repo")
if sys.path[0] != REPO:
    sys.path.insert(0, REPO)


def executors() -> Dict[str, Any]:
    from func_adl_xAOD.atlas.xaod.executor import atlas_xaod_executor
    from func_adl_xAOD.cms.aod.executor import cms_aod_executor
    from func_adl_xAOD.cms.miniaod.executor import cms_miniaod_executor

    return {"atlas": atlas_xaod_executor, "cms_aod": cms_aod_executor, "cms_miniaod": cms_miniaod_executor}


class _DS:
    """Minimal func_adl dataset that hands back the AST instead of executing it."""

    def __new__(cls):
        from func_adl import EventDataset

        class _Inner(EventDataset):
            async def execute_result_async(self, a, title=None):
                return a

        return _Inner()


def query_ast(src: str, md: Optional[List[Dict[str, Any]]] = None) -> ast.AST:
    """`src` is a Python expression over the dataset variable `ds` (method-chain style).  Metadata
    dictionaries are attached with MetaData right after the dataset unless the source does it."""
    from func_adl import ObjectStream

    ds = _DS()
    # extract_metadata lists outermost first: attach in reverse so process_metadata sees `md` in order
    for m in reversed(md or []):
        ds = ds.MetaData(m)
    tree = ast.parse(src, mode="eval")

    class _Q(ast.NodeTransformer):
        # func_adl reads lambda source text; outermost lambdas are therefore passed as strings
        def visit_Lambda(self, node):
            return ast.copy_location(ast.Constant(value=ast.unparse(node)), node)

    tree = ast.fix_missing_locations(_Q().visit(tree))
    stream = eval(compile(tree, "<query>", "eval"), {"ds": ds})
    if isinstance(stream, ObjectStream):
        return stream.query_ast
    return stream


def reset_globals():
    """What tests/conftest.py does between tests: used only where a check wants a pristine process state."""
    import func_adl_xAOD.common.cpp_types as ctyp

    ctyp.g_method_type_dict = {}
    if hasattr(ctyp, "g_toplevel_ns"):
        ctyp.g_toplevel_ns = {}


LAST_KIND_INPUT: Dict[str, Any] = {}


def translate(backend: str, a: ast.AST, want_ast: bool = False, write_again: bool = False) -> Tuple[str, Any]:
    """Run the whole repository pipeline on a query AST.  Returns ("ok", {files, info}) or
    ("error", exception class name, message).  write_again: the transformed AST is rendered a second time into another
    directory (a package written twice, or a retry after a late failure); the second rendering's slots are returned as
    "slots_again" (or "error_again")."""
    exe = executors()[backend]()
    captured: Dict[str, Any] = {}
    again: Dict[str, Any] = {}
    target = [captured]
    orig_copy = exe._copy_template_file

    def _copy(j2_env, info_dict, template_file, final_dir):
        # harness-side observation of the dictionary handed to jinja2 (no change to /repo)
        if not target[0]:
            target[0].update({k: (list(v) if isinstance(v, (list, tuple)) else v) for k, v in info_dict.items()})
        return orig_copy(j2_env, info_dict, template_file, final_dir)

    exe._copy_template_file = _copy  # type: ignore
    with tempfile.TemporaryDirectory(prefix="fv-pkg-") as d:
        out = Path(d)
        try:
            LAST_KIND_INPUT.clear()
            LAST_KIND_INPUT["stage"] = "transform"
            a2 = exe.apply_ast_transformations(a)
            if want_ast:
                from . import astser

                LAST_KIND_INPUT["ast"] = astser.ser(a2)
                LAST_KIND_INPUT["registry"] = astser.registry()
            LAST_KIND_INPUT["stage"] = "write"
            info = exe.write_cpp_files(a2, out)
            LAST_KIND_INPUT["stage"] = "done"
        except Exception as e:  # noqa: BLE001 - exception class is the observable
            return ("error", type(e).__name__, str(e)[:300])
        files = {}
        for f in sorted(out.iterdir()):
            files[f.name] = {"text": f.read_text(), "mode": f.stat().st_mode & 0o777}
        rr = info.result_rep
        res = {
            "files": files,
            "main_script": info.main_script,
            "all_filenames": list(info.all_filenames),
            "treename": getattr(rr, "treename", None),
            "filename": getattr(rr, "filename", None),
            "slots": captured,
        }
        if write_again:
            target[0] = again
            with tempfile.TemporaryDirectory(prefix="fv-pkg2-") as d2:
                try:
                    exe.write_cpp_files(a2, Path(d2))
                    res["slots_again"] = again
                except Exception as e:  # noqa: BLE001
                    res["error_again"] = f"{type(e).__name__}: {str(e)[:200]}"
        return ("ok", res)
