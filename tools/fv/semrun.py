"""One query through everything: implementation -> package -> IR (round-trip checked) -> Coq-defined
execution on generated events, next to the reference semantics of the query source.  Shared by the checks
of C01-C05, C09 and C13."""
import re
from fractions import Fraction
from typing import Any, Dict, List, Optional, Tuple

from . import core, cxx, impl, qgen


class Case:
    """Everything known about one (backend, query) pair."""

    def __init__(self, backend: str, src: str):
        self.backend = backend
        self.src = src
        self.status = ""  # "ok" | "refused" | "unparsed"
        self.error: Optional[Tuple[str, str]] = None
        self.pkg: Optional[Dict[str, Any]] = None
        self.prog = None
        self.qlines: List[str] = []
        self.note = ""


def translate(backend: str, src: str, md=None, model: Optional[core.Model] = None, write_again: bool = False) -> Case:
    c = Case(backend, src)
    try:
        a = impl.query_ast(src, md)
    except Exception as e:  # noqa: BLE001
        c.status = "refused"
        c.error = (type(e).__name__, str(e)[:200])
        c.note = "func_adl front end refused the source"
        return c
    r = impl.translate(backend, a, write_again=write_again)
    impl.reset_globals()
    if r[0] == "error":
        c.status = "refused"
        c.error = (r[1], r[2])
        return c
    c.pkg = r[1]
    try:
        prog, ql = cxx.parse_program(backend, r[1]["slots"])
    except cxx.ParseError as e:
        c.status = "unparsed"
        c.note = f"emitted code outside the IR grammar: {e}"
        return c
    _resolve_tokens(prog)
    c.prog, c.qlines = prog, ql
    if model is not None:
        rt = cxx.roundtrip(model, prog[4], ql)
        if rt is not None:
            c.status = "unparsed"
            c.note = f"IR does not re-print to the emitted text: {rt}"
            return c
    c.status = "ok"
    return c


_TOKEN_INIT = re.compile(r'^(?P<tok>\w+) = consumes<(?P<t>[^()]*)>\(edm::InputTag\("(?P<bank>(?:[^"\\]|\\.)*)"\)\);$')


def _resolve_tokens(prog):
    """miniAOD: a retrieval names a token; the bank it reads is the one of the LAST initialisation of that
    token in the constructor (later assignments overwrite earlier ones)."""
    inits: Dict[str, str] = {}
    for ln in prog[3]:
        m = _TOKEN_INIT.match(ln)
        if m:
            inits[m.group("tok")] = m.group("bank")

    def walk(b):
        for i, s in enumerate(b[2]):
            if s[0] == "fetch" and s[4].startswith("token:"):
                s[4] = inits.get(s[4][6:], s[4])
            elif s[0] == "for":
                walk(s[3])
            elif s[0] == "if":
                walk(s[2])
                for e in s[3]:
                    walk(e)
            elif s[0] == "block":
                walk(s[1])

    walk(prog[4])


def execute(model: core.Model, prog, events: List[Dict[str, Any]]):
    """Coq-defined run_job of the parsed program over the events (one job)."""
    return model.call("cpp.run", [prog, [qgen.event_wire(e) for e in events]])


# ------------------------------------------------------------------------------------------------
# comparison of values (numeric equality; int/double representation differences are not value
# differences - kinds are compared separately by the typing checks)
# ------------------------------------------------------------------------------------------------
def norm(v):
    t = v[0]
    if t == "i":
        return ("n", Fraction(int(v[1])))
    if t == "d":
        return ("n", Fraction(int(v[1]), int(v[2])))
    if t == "b":
        return ("n", Fraction(1 if v[1] in (True, "true") else 0))
    if t == "v":
        return ("v", tuple(norm(x) for x in v[1:]))
    if t == "sym":
        return ("sym", v[1], tuple(norm(x) for x in v[2:]))
    if t == "o":
        return ("o", int(v[1]))
    if t == "uninit":
        return ("uninit",)
    if t == "null":
        return ("null",)
    if t == "s":
        return ("s", v[1])
    return ("?", repr(v))


def rows_equal(a: List[List[Any]], b: List[List[Any]]) -> bool:
    return [[norm(v) for v in r] for r in a] == [[norm(v) for v in r] for r in b]


DIV_ZERO_SKIPPED = [0]   # events left undecided by the rule below (reported in the evidence of the checks that compare)


def compare_event(job_rows, job_fault: Optional[str], ref) -> Optional[str]:
    """None if the event's outcome agrees with the reference, else a description."""
    # Division by zero is a fault in the model only because its numbers are exact rationals; in C++ a floating division
    # by zero is defined (inf / nan) and fails nothing.  An event on which only ONE side divides by zero (the other side
    # did not evaluate that division at all: a later element behind First, a predicate on elements after the first
    # passing one) is outside the value domain both sides share, and decides nothing.
    if (ref[0] == "fault" and ref[1] == "div_zero" and job_fault is None) or (job_fault == "div_zero" and ref[0] != "fault"):
        DIV_ZERO_SKIPPED[0] += 1
        return None
    if ref[0] == "fault":
        if job_fault is None:
            return f"query is undefined on this event ({ref[1]}) but the job wrote {len(job_rows)} row(s) and did not fail"
        return None
    if job_fault is not None:
        return f"job fails ({job_fault}) on an event where the query is defined"
    if not rows_equal(job_rows, ref[1]):
        return f"rows differ: job {show_rows(job_rows)} vs query {show_rows(ref[1])}"
    return None


def show(v) -> str:
    t = v[0]
    if t == "i":
        return str(v[1])
    if t == "d":
        f = Fraction(int(v[1]), int(v[2]))
        return str(float(f)) if f.denominator != 1 else f"{f.numerator}.0"
    if t == "b":
        return str(v[1])
    if t == "v":
        return "[" + ", ".join(show(x) for x in v[1:]) + "]"
    if t == "sym":
        return v[1] + "(" + ", ".join(show(x) for x in v[2:]) + ")"
    return str(v)


def show_rows(rs) -> str:
    return "[" + "; ".join("(" + ", ".join(show(v) for v in r) + ")" for r in rs[:6]) + ("; ..." if len(rs) > 6 else "") + "]"


def differential(model: core.Model, case: Case, uni: qgen.Universe, events: List[Dict[str, Any]]):
    """Run each event as its own one-event job (so a fault does not hide later events) and compare with
    the reference.  Returns (list of (event index, description), unsupported reason or None)."""
    diffs = []
    for i, ev in enumerate(events):
        try:
            ref = qgen.reference_event(case.src, ev, uni)
        except qgen.RefUnsupported as e:
            return diffs, f"reference: {e}"
        j = execute(model, case.prog, [ev])
        if j[0] == "stuck":
            kind = j[2][0]
            if kind == "opaque":
                return diffs, f"exec: opaque {j[2][1][:60]}"
            diffs.append((i, f"generated code is not executable C++ on this event: {j[2]}"))
            continue
        if j[0] == "abort":
            d = compare_event([], j[3], ref)
        else:
            d = compare_event(j[1][0], None, ref)
        if d:
            diffs.append((i, d))
    return diffs, None
