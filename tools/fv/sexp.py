"""S-expression wire format shared with ocaml/main.ml.  Atoms are always double-quoted."""
from typing import Any, List, Union

Sexp = Union[str, List["Sexp"]]


def _esc(s: str) -> str:
    out = []
    for b in s.encode("utf-8", "surrogateescape"):
        c = chr(b)
        if c == '"':
            out.append('\\"')
        elif c == "\\":
            out.append("\\\\")
        elif c == "\n":
            out.append("\\n")
        elif c == "\r":
            out.append("\\r")
        elif c == "\t":
            out.append("\\t")
        elif b < 32 or b > 126:
            out.append("\\x%02x" % b)
        else:
            out.append(c)
    return "".join(out)


def dumps(x: Any) -> str:
    if isinstance(x, bool):
        return '"true"' if x else '"false"'
    if isinstance(x, int):
        return '"%d"' % x
    if isinstance(x, str):
        return '"' + _esc(x) + '"'
    if isinstance(x, (list, tuple)):
        return "(" + " ".join(dumps(y) for y in x) + ")"
    raise TypeError(f"cannot encode {type(x)}")


def loads(s: str) -> Sexp:
    pos = 0
    n = len(s)

    def skip():
        nonlocal pos
        while pos < n and s[pos] in " \t\r\n":
            pos += 1

    def item():
        nonlocal pos
        skip()
        if pos >= n:
            raise ValueError("eof")
        if s[pos] == "(":
            pos += 1
            out = []
            while True:
                skip()
                if pos >= n:
                    raise ValueError("eof in list")
                if s[pos] == ")":
                    pos += 1
                    return out
                out.append(item())
        if s[pos] == '"':
            pos += 1
            buf = bytearray()
            while True:
                c = s[pos]
                if c == '"':
                    pos += 1
                    break
                if c == "\\":
                    e = s[pos + 1]
                    if e == "n":
                        buf.append(10)
                    elif e == "r":
                        buf.append(13)
                    elif e == "t":
                        buf.append(9)
                    elif e == "\\":
                        buf.append(92)
                    elif e == '"':
                        buf.append(34)
                    elif e == "x":
                        buf.append(int(s[pos + 2 : pos + 4], 16))
                        pos += 2
                    else:
                        raise ValueError("escape")
                    pos += 2
                else:
                    buf.extend(c.encode("utf-8"))
                    pos += 1
            return buf.decode("utf-8", "surrogateescape")
        raise ValueError(f"unexpected {s[pos]!r} at {pos}")

    r = item()
    skip()
    if pos != n:
        raise ValueError("trailing")
    return r
