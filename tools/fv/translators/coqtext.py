"""Helpers to print Python values as Coq terms (raw text emission)."""
from typing import Iterable


def cstr(s: str) -> str:
    """Coq string literal for a byte string (non-printable bytes are not expected in tables)."""
    b = s.encode("utf-8")
    for ch in b:
        if ch < 32 or ch > 126:
            raise ValueError(f"non-printable byte in {s!r}")
    return '"' + s.replace('"', '""') + '"'


def clist(items: Iterable[str], per_line: int = 6) -> str:
    items = list(items)
    if not items:
        return "[]"
    rows = ["; ".join(items[i : i + per_line]) for i in range(0, len(items), per_line)]
    return "[ " + ";\n    ".join(rows) + " ]"
