"""gen/Runner_{atlas_r21,cms_r5,cms_r7}.v from func_adl_xAOD/template/*/runner.sh (fail-closed).

Parses exactly the bash subset the three scripts use into the AST of coq/Model/Shell.v:
  assignments (plain words; the two idioms  X="$( cd "$( dirname "${BASH_SOURCE[0]}" )" >/dev/null 2>&1 && pwd )"
  and  X=`pwd`), `set -e`, `set -x`, `while getopts "<optstring>" v; do case "$v" in ... esac done`,
  `shift $((OPTIND-1))`, if/elif/else/fi with [ -f|-e|-d|-z W ], [ W =|==|!= W ], [[ W == "lit"* ]],
  exit N, echo W.. [> W], cd W, source/. W, export X=W, X='<simple command>' followed by eval $X,
  cat > W << EOF / << 'EOF' here-documents, and simple external commands (first word may be a variable).
Anything else raises Refusal naming the line.  Self-test: the parse is printed back from the AST and must
equal the source with comments, blank lines, indentation and redundant blanks removed.
"""
import re
from typing import Any, List, Optional, Tuple

from ..core import REPO
from ..regen import Refusal, translator

SCRIPTS = {
    "atlas_r21": "func_adl_xAOD/template/atlas/r21/runner.sh",
    "cms_r5": "func_adl_xAOD/template/cms/r5/runner.sh",
    "cms_r7": "func_adl_xAOD/template/cms/r7/runner.sh",
}
SCRIPTDIR_IDIOM = '"$( cd "$( dirname "${BASH_SOURCE[0]}" )" >/dev/null 2>&1 && pwd )"'
PWD_IDIOM = "`pwd`"
NAME = r"[A-Za-z_][A-Za-z0-9_]*"


class P:
    """parser state: numbered lines"""

    def __init__(self, text: str, what: str):
        self.lines = text.split("\n")
        self.i = 0
        self.what = what

    def refuse(self, msg: str, ln: Optional[int] = None):
        n = (self.i if ln is None else ln) + 1
        raise Refusal(f"{self.what} line {n}: {msg}")


# ---------------------------------------------------------------- words
def tokenize(p: P, s: str) -> List[Any]:
    """-> list of ('word', segments) | ('op', text).  segments: ('u', parts) | ('d', parts) | ('s', text);
    parts: ('lit', t) | ('esc', c) | ('var', name, braces) | ('glob', '*')"""
    toks: List[Any] = []
    i, n = 0, len(s)
    segs: List[Any] = []

    def flush():
        nonlocal segs
        if segs:
            toks.append(("word", segs))
            segs = []

    def add_u(part):
        if segs and segs[-1][0] == "u":
            if part[0] == "lit" and segs[-1][1] and segs[-1][1][-1][0] == "lit":
                segs[-1][1][-1] = ("lit", segs[-1][1][-1][1] + part[1])
            else:
                segs[-1][1].append(part)
        else:
            segs.append(("u", [part]))

    def read_var(j: int):
        # s[j] == '$'
        if j + 1 >= n:
            p.refuse("lone $")
        c = s[j + 1]
        if c == "{":
            m = re.compile(r"\{(" + NAME + r")\}").match(s, j + 1)
            if not m:
                p.refuse("unsupported ${...} expansion")
            return ("var", m.group(1), True), m.end()
        if c in "#@" or c.isdigit():
            return ("var", c, False), j + 2
        m = re.compile(NAME).match(s, j + 1)
        if not m:
            p.refuse(f"unsupported expansion ${c}")
        return ("var", m.group(0), False), m.end()

    while i < n:
        c = s[i]
        if c in " \t":
            flush()
            i += 1
        elif c == "#" and not segs:
            break  # comment
        elif c == "'":
            j = s.find("'", i + 1)
            if j < 0:
                p.refuse("unterminated single quote")
            segs.append(("s", s[i + 1 : j]))
            i = j + 1
        elif c == '"':
            parts: List[Any] = []
            i += 1
            while True:
                if i >= n:
                    p.refuse("unterminated double quote")
                d = s[i]
                if d == '"':
                    i += 1
                    break
                if d == "\\" and i + 1 < n and s[i + 1] in '"\\$`':
                    parts.append(("esc", s[i + 1]))
                    i += 2
                elif d == "$":
                    if s.startswith("$(", i):
                        p.refuse("command substitution")
                    v, i = read_var(i)
                    parts.append(v)
                elif d == "`":
                    p.refuse("command substitution")
                else:
                    if parts and parts[-1][0] == "lit":
                        parts[-1] = ("lit", parts[-1][1] + d)
                    else:
                        parts.append(("lit", d))
                    i += 1
            segs.append(("d", parts))
        elif c == "\\":
            if i + 1 >= n:
                p.refuse("line continuation")
            add_u(("esc", s[i + 1]))
            i += 2
        elif c == "$":
            if s.startswith("$(", i):
                p.refuse("command or arithmetic substitution")
            v, i = read_var(i)
            add_u(v)
        elif c == "`":
            p.refuse("command substitution")
        elif c == "*":
            add_u(("glob", "*"))
            i += 1
        elif c in "?{}~":
            p.refuse(f"unsupported shell metacharacter {c!r}")
        elif c in ";&|<>()":
            flush()
            for op in ("<<", ";;", "&&", "||", ">>"):
                if s.startswith(op, i):
                    toks.append(("op", op))
                    i += len(op)
                    break
            else:
                toks.append(("op", c))
                i += 1
        else:
            add_u(("lit", c))
            i += 1
    flush()
    return toks


def word_text(segs) -> str:
    out = []
    for sg in segs:
        if sg[0] == "s":
            out.append("'" + sg[1] + "'")
            continue
        body = []
        for pt in sg[1]:
            if pt[0] == "lit":
                body.append(pt[1])
            elif pt[0] == "esc":
                body.append("\\" + pt[1])
            elif pt[0] == "glob":
                body.append("*")
            else:
                body.append("${" + pt[1] + "}" if pt[2] else "$" + pt[1])
        out.append('"' + "".join(body) + '"' if sg[0] == "d" else "".join(body))
    return "".join(out)


def plain_literal(segs) -> Optional[str]:
    """the word as a string when it contains no expansion"""
    out = []
    for sg in segs:
        if sg[0] == "s":
            out.append(sg[1])
        else:
            for pt in sg[1]:
                if pt[0] in ("lit", "esc"):
                    out.append(pt[1])
                else:
                    return None
    return "".join(out)


def has_glob(segs) -> bool:
    return any(sg[0] == "u" and any(pt[0] == "glob" for pt in sg[1]) for sg in segs)


# ---------------------------------------------------------------- statements
def words_only(p: P, toks, what: str):
    ws = []
    for t in toks:
        if t[0] != "word":
            p.refuse(f"operator {t[1]!r} in {what}")
        if has_glob(t[1]):
            p.refuse(f"glob pattern in {what}")
        ws.append(t[1])
    return ws


def parse_test(p: P, toks) -> Any:
    ws = [t[1] if t[0] == "word" else p.refuse(f"operator {t[1]!r} in a test") for t in toks]
    lits = [plain_literal(w) if not has_glob(w) else None for w in ws]
    if len(ws) >= 2 and lits[0] == "[" and lits[-1] == "]":
        inner, il, br = ws[1:-1], lits[1:-1], "["
    elif len(ws) >= 2 and lits[0] == "[[" and lits[-1] == "]]":
        inner, il, br = ws[1:-1], lits[1:-1], "[["
    else:
        p.refuse("condition is not a [ ] or [[ ]] test")
    if br == "[[":
        if len(inner) == 3 and il[1] == "==" and has_glob(inner[2]):
            pat = inner[2]
            if len(pat) == 2 and pat[0][0] in ("d", "s") and pat[1] == ("u", [("glob", "*")]) and plain_literal([pat[0]]) is not None and not has_glob(inner[0]):
                return ("prefix", inner[0], plain_literal([pat[0]]), pat)
        p.refuse("unsupported [[ ]] test")
    if any(has_glob(w) for w in inner):
        p.refuse("glob in [ ] test")
    if len(inner) == 3 and il[1] == "!=" and il[2] == "0" and word_text(inner[0]) == "$#":
        return ("argsleft",)
    if len(inner) == 2 and il[0] in ("-f", "-e", "-d", "-z"):
        return ("un", il[0], inner[1], br)
    if len(inner) == 3 and il[1] in ("=", "==", "!="):
        return ("bin", il[1], inner[0], inner[2], br)
    p.refuse("unsupported [ ] test")


def test_text(t) -> str:
    if t[0] == "argsleft":
        return "[ $# != 0 ]"
    if t[0] == "prefix":
        return f"[[ {word_text(t[1])} == {word_text(t[3])} ]]"
    if t[0] == "un":
        return f"[ {t[1]} {word_text(t[2])} ]"
    return f"[ {word_text(t[2])} {t[1]} {word_text(t[3])} ]"


def parse_simple(p: P, line: str, allow_eval_of: Optional[Tuple[str, str]] = None) -> Any:
    """one simple statement on one line"""
    m = re.fullmatch(r"shift \$\(\(OPTIND-1\)\)", line)
    if m:
        return ("shiftopt",)
    m = re.match(r"(" + NAME + r")=(.*)$", line)
    if m:
        name, rhs = m.group(1), m.group(2)
        if rhs == SCRIPTDIR_IDIOM:
            return ("scriptdir", name)
        if rhs == PWD_IDIOM:
            return ("pwdto", name)
        toks = tokenize(p, rhs)
        if len(toks) > 1 or (toks and toks[0][0] != "word"):
            p.refuse("assignment followed by more words (prefix assignment) or operators")
        w = toks[0][1] if toks else []
        if has_glob(w):
            p.refuse("glob in assignment")
        return ("assign", name, w)
    toks = tokenize(p, line)
    if toks and toks[-1] == ("op", ";"):
        toks = toks[:-1]
    if not toks:
        p.refuse("empty statement")
    if toks[0][0] != "word":
        p.refuse(f"statement starts with operator {toks[0][1]!r}")
    head = plain_literal(toks[0][1])
    rest = toks[1:]
    if head == "set":
        ws = [plain_literal(w) for w in words_only(p, rest, "set")]
        if ws == ["-e"]:
            return ("sete",)
        if ws == ["-x"]:
            return ("setx",)
        p.refuse(f"set {ws} not modelled")
    if head == "exit":
        ws = [plain_literal(w) for w in words_only(p, rest, "exit")]
        if len(ws) == 1 and ws[0] is not None and ws[0].isdigit() and int(ws[0]) < 256:
            return ("exit", int(ws[0]))
        p.refuse("exit with a non-literal status")
    if head == "echo":
        if len(rest) >= 2 and rest[-2] == ("op", ">") and rest[-1][0] == "word":
            return ("echo", words_only(p, rest[:-2], "echo"), words_only(p, rest[-1:], "echo")[0])
        return ("echo", words_only(p, rest, "echo"), None)
    if head == "cd":
        ws = words_only(p, rest, "cd")
        if len(ws) != 1:
            p.refuse("cd needs exactly one word")
        return ("cd", ws[0])
    if head in ("source", "."):
        ws = words_only(p, rest, "source")
        if len(ws) != 1:
            p.refuse("source with arguments")
        return ("source", head, ws[0])
    if head == "export":
        if len(rest) != 1 or rest[0][0] != "word":
            p.refuse("export form")
        txt = word_text(rest[0][1])
        m = re.match(r"(" + NAME + r")=(.*)$", txt)
        if not m:
            p.refuse("export without assignment")
        w = tokenize(p, m.group(2))
        if len(w) != 1 or w[0][0] != "word" or has_glob(w[0][1]):
            p.refuse("export value")
        return ("export", m.group(1), w[0][1])
    if head == "eval":
        ws = words_only(p, rest, "eval")
        if len(ws) == 1 and ws[0] == [("u", [("var", ws[0][0][1][0][1], False)])] and allow_eval_of and allow_eval_of[0] == ws[0][0][1][0][1]:
            inner = parse_simple(p, allow_eval_of[1])
            if inner[0] != "run":
                p.refuse("eval of something other than a simple external command")
            return ("eval", allow_eval_of[0], allow_eval_of[1], inner)
        p.refuse("eval of anything but a variable assigned a single-quoted literal on the previous line")
    if head == "cat":
        # cat > W << EOF | << 'EOF'
        if len(rest) == 4 and rest[0] == ("op", ">") and rest[1][0] == "word" and rest[2] == ("op", "<<") and rest[3][0] == "word":
            tag = rest[3][1]
            if tag == [("s", plain_literal(tag))]:
                return ("heredoc", words_only(p, [rest[1]], "cat")[0], True, plain_literal(tag))
            if len(tag) == 1 and tag[0][0] == "u" and plain_literal(tag) is not None:
                return ("heredoc", words_only(p, [rest[1]], "cat")[0], False, plain_literal(tag))
        p.refuse("cat is only modelled as  cat > FILE << TAG")
    if head in ("if", "elif", "else", "fi", "while", "do", "done", "case", "esac", "for", "until", "function", "then", "select", "time", "[", "[[", "test", "local", "return", "exec", "trap", "shift", "unset", "read", "wait", "kill", "true", "false", ":", "pushd", "popd", "printf", "alias", "declare", "typeset", "readonly", "let", "getopts", "break", "continue", "command", "builtin"):
        p.refuse(f"{head} in an unsupported position")
    ws = words_only(p, toks, "command")
    first = ws[0]
    if head is None and not (len(first) == 1 and first[0][0] == "u" and len(first[0][1]) == 1 and first[0][1][0][0] == "var"):
        p.refuse("command name is neither a literal nor a single variable")
    if head is not None and not re.fullmatch(r"[A-Za-z_][A-Za-z0-9_.+-]*", head):
        p.refuse(f"command name {head!r}")
    return ("run", ws)


def clean(line: str) -> str:
    return line.strip()


def is_skip(line: str) -> bool:
    s = line.strip()
    return s == "" or s.startswith("#")


def parse_block(p: P, terminators) -> List[Any]:
    out: List[Any] = []
    while True:
        if p.i >= len(p.lines):
            if terminators:
                p.refuse(f"end of file while looking for {terminators}")
            return out
        raw = p.lines[p.i]
        if is_skip(raw):
            p.i += 1
            continue
        line = clean(raw)
        first = line.split()[0]
        if first in terminators or (first.rstrip(";") in terminators):
            return out
        if first == "while":
            out.append(parse_getopts(p))
            continue
        if first == "if":
            out.append(parse_if(p))
            continue
        prev = out[-1] if out else None
        allow = None
        if prev and prev[0] == "assign" and len(prev[2]) == 1 and prev[2][0][0] == "s":
            allow = (prev[1], prev[2][0][1])
        st = parse_simple(p, line, allow)
        if st[0] == "heredoc":
            start = p.i
            body = []
            p.i += 1
            while True:
                if p.i >= len(p.lines):
                    p.refuse("unterminated here-document", start)
                if p.lines[p.i] == st[3]:
                    break
                body.append(p.lines[p.i])
                p.i += 1
            text = "".join(b + "\n" for b in body)
            if not st[2] and re.search(r"[$`\\]", text):
                p.refuse("expansion inside an unquoted here-document", start)
            st = ("heredoc", st[1], st[2], st[3], text)
        out.append(st)
        p.i += 1


def parse_if(p: P) -> Any:
    branches = []
    els: Optional[List[Any]] = None
    kw = "if"
    while True:
        line = clean(p.lines[p.i])
        m = re.fullmatch(kw + r" (.*); then", line)
        if not m:
            p.refuse(f"{kw} line is not `{kw} <test>; then`")
        t = parse_test(p, tokenize(p, m.group(1)))
        p.i += 1
        body = parse_block(p, {"elif", "else", "fi"})
        branches.append((t, body))
        line = clean(p.lines[p.i])
        if line == "fi":
            p.i += 1
            break
        if line == "else":
            p.i += 1
            els = parse_block(p, {"fi"})
            if clean(p.lines[p.i]) != "fi":
                p.refuse("expected fi")
            p.i += 1
            break
        if line.startswith("elif "):
            kw = "elif"
            continue
        p.refuse("expected elif/else/fi")
    return ("if", branches, els)


def parse_getopts(p: P) -> Any:
    line = clean(p.lines[p.i])
    m = re.fullmatch(r'while getopts "([A-Za-z:]+)" (' + NAME + r"); do", line)
    if not m:
        p.refuse("only `while getopts \"<optstring>\" <var>; do` loops are modelled")
    optstring, var = m.group(1), m.group(2)
    if optstring.startswith(":"):
        p.refuse("silent getopts mode")
    p.i += 1
    while is_skip(p.lines[p.i]):
        p.i += 1
    if clean(p.lines[p.i]) != f'case "${var}" in':
        p.refuse("getopts loop body must be a single case on the option variable")
    p.i += 1
    arms = []
    while True:
        while is_skip(p.lines[p.i]):
            p.i += 1
        line = clean(p.lines[p.i])
        if line == "esac":
            p.i += 1
            break
        m = re.fullmatch(r"([A-Za-z?])\)", line)
        if not m:
            p.refuse("case arm pattern must be a single letter or ?")
        p.i += 1
        body = parse_block(p, {";;", "esac"})
        term = clean(p.lines[p.i]) == ";;"
        if term:
            p.i += 1
        arms.append((m.group(1), body, term))
    while is_skip(p.lines[p.i]):
        p.i += 1
    if clean(p.lines[p.i]) != "done":
        p.refuse("statements after the case inside the getopts loop")
    p.i += 1
    return ("getopts", optstring, var, arms)


def parse_script(text: str, what: str):
    p = P(text, what)
    if not p.lines or not re.fullmatch(r"#!/bin/(env )?bash", p.lines[0].strip()):
        p.refuse("first line is not a bash shebang")
    p.i = 1
    return parse_block(p, set())


# ---------------------------------------------------------------- printing back (self-test)
def print_stmt(st, out: List[str]):
    k = st[0]
    if k == "assign":
        out.append(f"{st[1]}={word_text(st[2])}")
    elif k == "scriptdir":
        out.append(f"{st[1]}={SCRIPTDIR_IDIOM}")
    elif k == "pwdto":
        out.append(f"{st[1]}={PWD_IDIOM}")
    elif k == "sete":
        out.append("set -e")
    elif k == "setx":
        out.append("set -x")
    elif k == "shiftopt":
        out.append("shift $((OPTIND-1))")
    elif k == "exit":
        out.append(f"exit {st[1]}")
    elif k == "echo":
        s = " ".join(["echo"] + [word_text(w) for w in st[1]])
        out.append(s + (f" > {word_text(st[2])}" if st[2] is not None else ""))
    elif k == "cd":
        out.append(f"cd {word_text(st[1])}")
    elif k == "source":
        out.append(f"{st[1]} {word_text(st[2])}")
    elif k == "export":
        out.append(f"export {st[1]}={word_text(st[2])}")
    elif k == "eval":
        out.append(f"eval ${st[1]}")
    elif k == "heredoc":
        tag = f"'{st[3]}'" if st[2] else st[3]
        out.append(f"cat > {word_text(st[1])} << {tag}")
        out.append(("HEREDOC", st[4] + st[3]))
    elif k == "run":
        out.append(" ".join(word_text(w) for w in st[1]))
    elif k == "if":
        for i, (t, body) in enumerate(st[1]):
            out.append(("if " if i == 0 else "elif ") + test_text(t) + "; then")
            for b in body:
                print_stmt(b, out)
        if st[2] is not None:
            out.append("else")
            for b in st[2]:
                print_stmt(b, out)
        out.append("fi")
    elif k == "getopts":
        out.append(f'while getopts "{st[1]}" {st[2]}; do')
        out.append(f'case "${st[2]}" in')
        for pat, body, term in st[3]:
            out.append(f"{pat})")
            for b in body:
                print_stmt(b, out)
            if term:
                out.append(";;")
        out.append("esac")
        out.append("done")
    else:
        raise Refusal(f"printer: unknown statement {k}")


def normalised_source(text: str) -> List[Any]:
    out: List[Any] = []
    lines = text.split("\n")
    i = 1
    while i < len(lines):
        raw = lines[i]
        if is_skip(raw):
            i += 1
            continue
        s = re.sub(r"[ \t]+", " ", raw.strip())
        if s.endswith(";") and not s.endswith(";;"):
            s = s[:-1].rstrip()
        out.append(s)
        m = re.search(r"<< ?'?([A-Za-z_]+)'?$", s)
        if m:
            body = []
            i += 1
            while i < len(lines) and lines[i] != m.group(1):
                body.append(lines[i])
                i += 1
            out.append(("HEREDOC", "".join(b + "\n" for b in body) + m.group(1)))
        i += 1
    return out


def self_test(text: str, ast, what: str):
    printed: List[Any] = []
    for st in ast:
        print_stmt(st, printed)
    src = normalised_source(text)
    if printed != src:
        for k, (a, b) in enumerate(zip(printed + [None] * len(src), src + [None] * len(printed))):
            if a != b:
                raise Refusal(f"{what}: self-test: statement {k} re-prints as {a!r} but the source has {b!r}")


# ---------------------------------------------------------------- Coq emission
def cstr(s: str) -> str:
    for ch in s.encode("utf-8"):
        if (ch < 32 and ch not in (10,)) or ch > 126:
            raise Refusal(f"non-printable byte {ch} in a script string")
    return '"' + s.replace('"', '""') + '"'


def cword(segs) -> str:
    parts: List[str] = []
    lit = ""

    def flush():
        nonlocal lit
        if lit:
            parts.append(f"WLit {cstr(lit)}")
            lit = ""

    for sg in segs:
        if sg[0] == "s":
            lit += sg[1]
            continue
        for pt in sg[1]:
            if pt[0] in ("lit", "esc"):
                lit += pt[1]
            elif pt[0] == "var":
                flush()
                parts.append(f"WVar {'true' if sg[0] == 'd' else 'false'} {cstr(pt[1])}")
            else:
                raise Refusal("glob reached the emitter")
        if sg[0] == "d" and not sg[1]:
            # "" : an explicitly empty quoted string still makes a field
            flush()
            parts.append('WLit ""')
    flush()
    return "[" + "; ".join(parts) + "]"


def cwords(ws) -> str:
    return "[" + "; ".join(cword(w) for w in ws) + "]"


def ctest(t) -> str:
    if t[0] == "argsleft":
        return "TArgsLeft"
    if t[0] == "prefix":
        return f"TPrefix {cword(t[1])} {cstr(t[2])}"
    if t[0] == "un":
        return {"-f": "TFileF", "-e": "TFileE", "-d": "TFileD", "-z": "TStrZ"}[t[1]] + " " + cword(t[2])
    return ("TNe " if t[1] == "!=" else "TEq ") + cword(t[2]) + " " + cword(t[3])


HEREDOCS: List[str] = []


def ccmds(sts, ind: int) -> str:
    pad = " " * ind
    if not sts:
        return "CNil"
    return "".join(f"\n{pad}(CCons ({ccmd(s, ind + 2)})" for s in sts) + f"\n{pad}CNil" + ")" * len(sts)


def ccmd(st, ind: int) -> str:
    k = st[0]
    pad = " " * ind
    if k == "assign":
        return f"CAssign {cstr(st[1])} {cword(st[2])}"
    if k == "scriptdir":
        return f"CScriptDir {cstr(st[1])}"
    if k == "pwdto":
        return f"CPwdTo {cstr(st[1])}"
    if k == "sete":
        return "CSetE"
    if k == "setx":
        return "CSetX"
    if k == "shiftopt":
        return "CShiftOpt"
    if k == "exit":
        return f"CExit {st[1]}"
    if k == "echo":
        return f"CEcho {cwords(st[1])} " + (f"(Some {cword(st[2])})" if st[2] is not None else "None")
    if k == "cd":
        return f"CCd {cword(st[1])}"
    if k == "source":
        return f"CSource {cword(st[2])}"
    if k == "export":
        return f"CExport {cstr(st[1])} {cword(st[2])}"
    if k == "eval":
        return f"CEval {cstr(st[1])} {cstr(st[2])} ({ccmd(st[3], ind)})"
    if k == "heredoc":
        HEREDOCS.append(st[4])
        return f"CHeredoc {cword(st[1])} (hb {len(HEREDOCS) - 1})"
    if k == "run":
        return f"CRun {cwords(st[1])}"
    if k == "if":
        s = ""
        for t, body in st[1]:
            s += f"\n{pad}(BCons ({ctest(t)}) ({ccmds(body, ind + 2)})"
        s += f"\n{pad}BNil" + ")" * len(st[1])
        els = ccmds(st[2] or [], ind + 2)
        return f"CIf ({s}) ({els})"
    if k == "getopts":
        s = ""
        for pat, body, _ in st[3]:
            s += f"\n{pad}(ACons {cstr(pat)} ({ccmds(body, ind + 2)})"
        s += f"\n{pad}ANil" + ")" * len(st[3])
        return f"CGetopts {cstr(st[1])} {cstr(st[2])} ({s})"
    raise Refusal(f"emitter: unknown statement {k}")


def render(backend: str) -> str:
    path = REPO / SCRIPTS[backend]
    what = SCRIPTS[backend].split("template/")[1]
    try:
        text = path.read_text()
    except OSError as e:
        raise Refusal(f"{what}: cannot read: {e}")
    ast = parse_script(text, what)
    self_test(text, ast, what)
    loops = [i for i, st in enumerate(ast) if st[0] == "getopts"]
    if len(loops) != 1:
        raise Refusal(f"{what}: expected exactly one top-level getopts loop, found {len(loops)}")
    k = loops[0]
    g = ast[k]
    HEREDOCS.clear()
    pre_txt = ccmds(ast[:k], 2)
    arms_probe = "".join(ccmds(body, 4) for _, body, _ in g[3])
    if HEREDOCS:
        raise Refusal(f"{what}: here-document before or inside the getopts loop")
    arms = ""
    for pat, body, _ in g[3]:
        arms += f"\n  (ACons {cstr(pat)} ({ccmds(body, 4)})"
    arms += "\n  ANil" + ")" * len(g[3])
    return ("From FV Require Import Base.Prelude Model.Shell.\n\n"
            f"(* {SCRIPTS[backend]} : statements before the getopts loop, the loop, statements after it *)\n"
            f"Definition script_pre : cmds := {pre_txt}.\n"
            f"Definition script_os : string := {cstr(g[1])}.\n"
            f"Definition script_var : string := {cstr(g[2])}.\n"
            f"Definition script_arms : arms := {arms}.\n"
            "(* here-document bodies are referred to by number: no command inspects them *)\n"
            f"Definition script_rest_of (hb : nat -> string) : cmds := {ccmds(ast[k + 1:], 2)}.\n"
            "Definition heredocs : list string := [" + ";\n  ".join(cstr(h) for h in HEREDOCS) + "].\n"
            "Definition script_rest : cmds := script_rest_of (fun i => nth i heredocs \"\").\n"
            "Definition script : cmds := capp script_pre (CCons (CGetopts script_os script_var script_arms) script_rest).\n")


FALLBACK = ("From FV Require Import Base.Prelude Model.Shell.\nDefinition script_pre : cmds := CNil.\nDefinition script_os : string := \"\".\n"
            "Definition script_var : string := \"\".\nDefinition script_arms : arms := ANil.\nDefinition script_rest : cmds := CNil.\n"
            "Definition script : cmds := CNil.\n")


@translator("Runner_atlas_r21.v", FALLBACK)
def runner_atlas_r21() -> str:
    return render("atlas_r21")


@translator("Runner_cms_r5.v", FALLBACK)
def runner_cms_r5() -> str:
    return render("cms_r5")


@translator("Runner_cms_r7.v", FALLBACK)
def runner_cms_r7() -> str:
    return render("cms_r7")
