"""gen/OutFile.v: the constants that decide which ROOT file each backend's job delivers, regenerated from the
three runner.sh templates, ATestRun_eljob.py, analyzer_cfg.py, copy_root_tree.C and the file-name literal of
call_ResultTTree (fail-closed: every constant must be found exactly once in the shape named below)."""
import ast
import re
from typing import List

from ..core import REPO
from ..regen import Refusal, translator
from .coqtext import cstr

EXECUTORS = {
    "atlas": "func_adl_xAOD/atlas/xaod/executor.py",
    "cms_aod": "func_adl_xAOD/cms/aod/executor.py",
    "cms_miniaod": "func_adl_xAOD/cms/miniaod/executor.py",
}

FALLBACK = """From FV Require Import Base.Prelude Model.TreeSchema.
Definition descriptor_literal : string := "".
Definition atlas_outfile : atlas_out := {| ao_stream := ""; ao_sample := ""; ao_submit_dir := ""; ao_copy_source := "" |}.
Definition cms_empty : cms_out := {| co_export_var := ""; co_export_val := ""; co_cfg_env := ""; co_cfg_wired := false;
  co_cvt_input := ""; co_cvt_output := ""; co_dest_dir_file := ""; co_cfg_label := ""; co_copy_dir := "x" |}.
Definition cms_aod_outfile : cms_out := cms_empty.
Definition cms_miniaod_outfile : cms_out := cms_empty.
"""


def _read(rel: str) -> str:
    p = REPO / rel
    if not p.exists():
        raise Refusal(f"{rel} is missing")
    return p.read_text()


def _one(rx: str, text: str, what: str, flags=re.M) -> re.Match:
    ms = list(re.finditer(rx, text, flags))
    if len(ms) != 1:
        raise Refusal(f"{what}: expected exactly one match, found {len(ms)}")
    return ms[0]


def template_dir(backend: str) -> str:
    src = _read(EXECUTORS[backend])
    m = _one(r"template_dir_name\s*=\s*['\"]([^'\"]+)['\"]", src, f"{EXECUTORS[backend]}: template_dir_name literal")
    return m.group(1)


def descriptor_literal() -> str:
    rel = "func_adl_xAOD/common/ast_to_cpp_translator.py"
    tree = ast.parse(_read(rel))
    hits: List[ast.Call] = []
    for n in ast.walk(tree):
        if isinstance(n, ast.Call) and isinstance(n.func, ast.Attribute) and n.func.attr == "cpp_ttree_rep":
            hits.append(n)
    if len(hits) != 1:
        raise Refusal(f"{rel}: expected exactly one cpp_ttree_rep(...) construction, found {len(hits)}")
    c = hits[0]
    if len(c.args) != 3 or c.keywords or not (isinstance(c.args[0], ast.Constant) and isinstance(c.args[0].value, str)):
        raise Refusal(f"{rel}: cpp_ttree_rep is not called as (string literal, tree name, scope)")
    if not (isinstance(c.args[1], ast.Name) and c.args[1].id == "tree_name"):
        raise Refusal(f"{rel}: second argument of cpp_ttree_rep is not the variable tree_name")
    return c.args[0].value


def atlas_consts():
    d = template_dir("atlas")
    job = _read(f"{d}/ATestRun_eljob.py")
    run = _read(f"{d}/runner.sh")
    stream = _one(r"^job\.outputAdd\(ROOT\.EL\.OutputStream\('([^']*)'\)\)$", job, "ATestRun_eljob.py: job.outputAdd(ROOT.EL.OutputStream('...'))").group(1)
    if len(re.findall(r"outputAdd", job)) != 1 or len(re.findall(r"OutputStream", job)) != 1:
        raise Refusal("ATestRun_eljob.py: more than one output stream")
    sample = _one(r'^ROOT\.SH\.readFileList\(sh, "([^"]*)", "filelist\.txt"\)$', job, "ATestRun_eljob.py: ROOT.SH.readFileList(sh, \"...\", \"filelist.txt\")").group(1)
    if len(re.findall(r"readFileList|scanDir|SampleLocal|SampleGrid", job)) != 1:
        raise Refusal("ATestRun_eljob.py: more than one sample definition")
    _one(r"^driver\.submit\(job, options\.submission_dir\)$", job, "ATestRun_eljob.py: driver.submit(job, options.submission_dir)")
    _one(r"^parser\.add_option\('-s', '--submission-dir', dest='submission_dir',$", job, "ATestRun_eljob.py: --submission-dir option")
    sub = _one(r"^\s*python \S*/ATestRun_eljob\.py --submission-dir=(\S+)$", run, "atlas runner.sh: python .../ATestRun_eljob.py --submission-dir=<dir>").group(1)
    src = _one(r"^\s*\$cmd (\S+) \$destination$", run, "atlas runner.sh: $cmd <source> $destination").group(1)
    _one(r'^output_method="cp"$', run, 'atlas runner.sh: output_method="cp" default')
    _one(r"^\s*destination=\$output_dir$", run, "atlas runner.sh: destination=$output_dir")
    if "$" in src or "$" in sub:
        raise Refusal("atlas runner.sh: copy source or submission directory is not a literal")
    return stream, sample, sub, src


_CVT = r"""^\s*cvt='root -b -l -q \$DIR/copy_root_tree\.C\\\(\\"([^\\"]*)\\",\\"([^\\"]*)\\"\\\)'$"""


def cms_consts(backend: str):
    d = template_dir(backend)
    run = _read(f"{d}/runner.sh")
    cfg = _read(f"{d}/analyzer_cfg.py")
    cpy = _read(f"{d}/copy_root_tree.C")
    ex = _one(r"^\s*export (\w+)=(\S+)$", run, f"{backend} runner.sh: export <VAR>=<file>")
    env = _one(r'^output_file = os\.environ\["(\w+)"\]$', cfg, f"{backend} analyzer_cfg.py: output_file = os.environ[\"...\"]").group(1)
    wired = len(re.findall(r'^process\.TFileService = cms\.Service\("TFileService", fileName=cms\.string\(output_file\)\)$', cfg, re.M)) == 1
    if len(re.findall(r"TFileService", cfg)) != 2 or len(re.findall(r"\boutput_file\b", cfg)) != 2:
        raise Refusal(f"{backend} analyzer_cfg.py: TFileService / output_file used in an unexpected way")
    label = _one(r"^process\.(\w+) = cms\.EDAnalyzer\($|^process\.(\w+) = cms\.EDAnalyzer\(\"Analyzer\"\)$", cfg, f"{backend} analyzer_cfg.py: process.<label> = cms.EDAnalyzer(")
    label = label.group(1) or label.group(2)
    cd = _one(r'^\s*f_in->cd\("([^"]*)"\);$', cpy, f"{backend} copy_root_tree.C: f_in->cd(\"...\")").group(1)
    _one(r"^\s*t->CloneTree\(\)->Write\(\);$", cpy, f"{backend} copy_root_tree.C: t->CloneTree()->Write()")
    _one(r'^\s*TFile \*f_in = new TFile\(input_name, "READ"\);$', cpy, f"{backend} copy_root_tree.C: input file")
    _one(r'^\s*TFile \*f_out = new TFile\(output_name, "RECREATE"\);$', cpy, f"{backend} copy_root_tree.C: output file")
    dest = _one(r"^\s*destination=\$output_dir/(\S+)$", run, f"{backend} runner.sh: destination=$output_dir/<file>").group(1)
    _one(r'^output_method="cp"$', run, f'{backend} runner.sh: output_method="cp" default')
    _one(r"^\s*cmsRun \S+$", run, f"{backend} runner.sh: cmsRun <cfg>")
    # the cp branch: the conversion right after `if [ $cmd == "cp" ]; then`
    m = _one(r'^\s*if \[ \$cmd == "cp" \]; then\n(.*)\n\s*eval \$cvt\n\s*else$', run, f'{backend} runner.sh: if [ $cmd == "cp" ]; then cvt=...; eval $cvt; else')
    c = re.match(_CVT, m.group(1))
    if not c:
        raise Refusal(f"{backend} runner.sh: conversion command of the cp branch is not the expected root -b -l -q copy_root_tree.C call")
    if "$" in dest or "$" in ex.group(2):
        raise Refusal(f"{backend} runner.sh: file names are not literals")
    return ex.group(1), ex.group(2), env, wired, c.group(1), c.group(2), dest, label, cd


def _cms_record(name: str, k) -> str:
    var, val, env, wired, cin, cout, dest, label, cd = k
    return (
        f"Definition {name} : cms_out := {{| co_export_var := {cstr(var)}; co_export_val := {cstr(val)}; co_cfg_env := {cstr(env)};\n"
        f"  co_cfg_wired := {'true' if wired else 'false'}; co_cvt_input := {cstr(cin)}; co_cvt_output := {cstr(cout)};\n"
        f"  co_dest_dir_file := {cstr(dest)}; co_cfg_label := {cstr(label)}; co_copy_dir := {cstr(cd)} |}}."
    )


@translator("OutFile.v", FALLBACK)
def out_file() -> str:
    lit = descriptor_literal()
    stream, sample, sub, src = atlas_consts()
    out = ["From FV Require Import Base.Prelude Model.TreeSchema.", ""]
    out.append("(* ast_to_cpp_translator.py call_ResultTTree: rh.cpp_ttree_rep(<literal>, tree_name, scope) *)")
    out.append(f"Definition descriptor_literal : string := {cstr(lit)}.")
    out.append(f"(* {template_dir('atlas')}: ATestRun_eljob.py and runner.sh *)")
    out.append(
        f"Definition atlas_outfile : atlas_out := {{| ao_stream := {cstr(stream)}; ao_sample := {cstr(sample)};\n"
        f"  ao_submit_dir := {cstr(sub)}; ao_copy_source := {cstr(src)} |}}."
    )
    out.append(f"(* {template_dir('cms_aod')}: runner.sh, analyzer_cfg.py, copy_root_tree.C *)")
    out.append(_cms_record("cms_aod_outfile", cms_consts("cms_aod")))
    out.append(f"(* {template_dir('cms_miniaod')}: runner.sh, analyzer_cfg.py, copy_root_tree.C *)")
    out.append(_cms_record("cms_miniaod_outfile", cms_consts("cms_miniaod")))
    return "\n".join(out) + "\n"
