"""gen/OpTables.v from the dict literals of func_adl_xAOD/common/ast_to_cpp_translator.py
(compare_operations, _known_unary_operators, _known_binary_operators) and common/utils.py
(_type_priority), plus the type names accepted by check_accumulator_type (fail-closed)."""
import ast

from ..core import REPO
from ..regen import Refusal, translator
from .coqtext import clist, cstr

TRANSLATOR_PY = "func_adl_xAOD/common/ast_to_cpp_translator.py"
UTILS_PY = "func_adl_xAOD/common/utils.py"


def _module_assign(tree: ast.Module, name: str, path: str) -> ast.expr:
    found = []
    for node in tree.body:
        targets = []
        if isinstance(node, ast.Assign):
            targets, value = node.targets, node.value
        elif isinstance(node, ast.AnnAssign) and node.value is not None:
            targets, value = [node.target], node.value
        for t in targets:
            if isinstance(t, ast.Name) and t.id == name:
                found.append(value)
    if len(found) != 1:
        raise Refusal(f"{path}: expected exactly one module-level assignment to {name}, found {len(found)}")
    # nobody else may rebind or mutate the table
    for node in ast.walk(tree):
        if isinstance(node, ast.Subscript) and isinstance(node.ctx, (ast.Store, ast.Del)) and isinstance(node.value, ast.Name) and node.value.id == name:
            raise Refusal(f"{path}: {name} is mutated by a subscript assignment at line {node.lineno}")
        if isinstance(node, ast.Call) and isinstance(node.func, ast.Attribute) and isinstance(node.func.value, ast.Name) and node.func.value.id == name and node.func.attr in ("update", "pop", "clear", "setdefault", "popitem", "__setitem__"):
            raise Refusal(f"{path}: {name}.{node.func.attr}(...) at line {node.lineno}")
    return found[0]


def _ast_class_table(tree: ast.Module, name: str, path: str):
    d = _module_assign(tree, name, path)
    if not isinstance(d, ast.Dict):
        raise Refusal(f"{path}: {name} is not a dict literal")
    rows = []
    for k, v in zip(d.keys, d.values):
        if not (isinstance(k, ast.Attribute) and isinstance(k.value, ast.Name) and k.value.id == "ast"):
            raise Refusal(f"{path}: {name}: key at line {getattr(k, 'lineno', '?')} is not of the form ast.<Class>")
        if not hasattr(ast, k.attr):
            raise Refusal(f"{path}: {name}: ast.{k.attr} does not exist")
        if not (isinstance(v, ast.Constant) and isinstance(v.value, str)):
            raise Refusal(f"{path}: {name}[ast.{k.attr}] is not a string literal")
        rows.append((k.attr, v.value))
    # a dict literal: a later duplicate key wins; refuse instead of modelling that
    if len({k for k, _ in rows}) != len(rows):
        raise Refusal(f"{path}: {name} has a duplicate key")
    return rows


def _priority_table(tree: ast.Module, path: str):
    d = _module_assign(tree, "_type_priority", path)
    if not isinstance(d, ast.Dict):
        raise Refusal(f"{path}: _type_priority is not a dict literal")
    rows = []
    for k, v in zip(d.keys, d.values):
        if not (isinstance(k, ast.Constant) and isinstance(k.value, str)):
            raise Refusal(f"{path}: _type_priority: non-string key")
        if not (isinstance(v, ast.Constant) and type(v.value) is int):
            raise Refusal(f"{path}: _type_priority[{k.value!r}] is not an int literal")
        rows.append((k.value, v.value))
    if len({k for k, _ in rows}) != len(rows):
        raise Refusal(f"{path}: _type_priority has a duplicate key")
    return rows


def _accumulator_types(tree: ast.Module, path: str):
    """check_accumulator_type: `t_str = str(t); return (t_str == "a") or (t_str == "b") ...`"""
    fns = [n for n in tree.body if isinstance(n, ast.FunctionDef) and n.name == "check_accumulator_type"]
    if len(fns) != 1:
        raise Refusal(f"{path}: check_accumulator_type not found exactly once")
    body = [s for s in fns[0].body if not (isinstance(s, ast.Expr) and isinstance(s.value, ast.Constant))]
    if len(body) != 2 or ast.unparse(body[0]) != "t_str = str(t)" or not isinstance(body[1], ast.Return):
        raise Refusal(f"{path}: check_accumulator_type no longer has the shape `t_str = str(t); return t_str == ... or ...`")
    e = body[1].value
    alts = e.values if isinstance(e, ast.BoolOp) and isinstance(e.op, ast.Or) else [e]
    names = []
    for a in alts:
        if not (isinstance(a, ast.Compare) and len(a.ops) == 1 and isinstance(a.ops[0], ast.Eq) and isinstance(a.left, ast.Name) and a.left.id == "t_str"
                and isinstance(a.comparators[0], ast.Constant) and isinstance(a.comparators[0].value, str)):
            raise Refusal(f"{path}: check_accumulator_type: unexpected alternative {ast.unparse(a)}")
        names.append(a.comparators[0].value)
    return names


def parse_all():
    p1 = REPO / TRANSLATOR_PY
    p2 = REPO / UTILS_PY
    try:
        t1 = ast.parse(p1.read_text())
        t2 = ast.parse(p2.read_text())
    except (OSError, SyntaxError) as e:
        raise Refusal(f"cannot read/parse source: {e}")
    return dict(
        compare=_ast_class_table(t1, "compare_operations", TRANSLATOR_PY),
        unary=_ast_class_table(t1, "_known_unary_operators", TRANSLATOR_PY),
        binary=_ast_class_table(t1, "_known_binary_operators", TRANSLATOR_PY),
        priority=_priority_table(t2, UTILS_PY),
        acc=_accumulator_types(t1, TRANSLATOR_PY),
    )


FALLBACK = """From FV Require Import Base.Prelude.
Definition compare_operations : list (string * string) := [].
Definition known_unary_operators : list (string * string) := [].
Definition known_binary_operators : list (string * string) := [].
Definition type_priority : list (string * Z) := [].
Definition accumulator_types : list string := [].
"""


def _pairs(rows):
    return clist([f"({cstr(a)}, {cstr(b)})" for a, b in rows], 6)


@translator("OpTables.v", FALLBACK)
def op_tables() -> str:
    t = parse_all()
    out = ["From FV Require Import Base.Prelude.", ""]
    out.append("(* ast_to_cpp_translator.py: compare_operations (ast class name -> C++ token) *)")
    out.append("Definition compare_operations : list (string * string) := " + _pairs(t["compare"]) + ".")
    out.append("(* ast_to_cpp_translator.py: _known_unary_operators *)")
    out.append("Definition known_unary_operators : list (string * string) := " + _pairs(t["unary"]) + ".")
    out.append("(* ast_to_cpp_translator.py: _known_binary_operators *)")
    out.append("Definition known_binary_operators : list (string * string) := " + _pairs(t["binary"]) + ".")
    out.append("(* utils.py: _type_priority *)")
    out.append("Definition type_priority : list (string * Z) := " + clist([f"({cstr(a)}, ({b})%Z)" for a, b in t["priority"]], 6) + ".")
    out.append("(* ast_to_cpp_translator.py: check_accumulator_type accepts exactly these type names *)")
    out.append("Definition accumulator_types : list string := " + clist([cstr(a) for a in t["acc"]]) + ".")
    return "\n".join(out) + "\n"
