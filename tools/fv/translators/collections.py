"""gen/Collections.v from the three */event_collections.py, common/meta_data.py (collection
declaration branches) and the three executors (fail-closed).

What is read, all with Python's ast module and literal shapes only:
  * container classes: base class (single object / collection), __init__ pointer-depth defaults,
    the f-string of __str__ and of token_type (holes: self.type);
  * the collection tables (EventCollectionSpecification(...) literals), class defaults resolved;
  * the coders: get_running_code's returned line templates (holes: container_type, token name),
    where the token name is allocated (class attribute / per call), the token initialiser template;
  * define_default_*_types: add_method_type_info literal calls;
  * meta_data.py: allowed keys, classes constructed, backend name given, whether link_libraries and
    element_pointer are used, for the three add_*_event_collection_info branches;
  * executors: the backend name build_collection_callback insists on, the table and coder they use.
Anything else in those places makes the translator refuse."""
import ast
import re
from typing import Any, Dict, List, Optional, Tuple

from ..core import REPO
from ..regen import Refusal, translator
from .coqtext import clist, cstr

BACKENDS = [
    # key, event_collections.py, executor.py, executor class
    ("atlas", "func_adl_xAOD/atlas/xaod/event_collections.py", "func_adl_xAOD/atlas/xaod/executor.py", "atlas_xaod_executor"),
    ("cms_aod", "func_adl_xAOD/cms/aod/event_collections.py", "func_adl_xAOD/cms/aod/executor.py", "cms_aod_executor"),
    ("cms_miniaod", "func_adl_xAOD/cms/miniaod/event_collections.py", "func_adl_xAOD/cms/miniaod/executor.py", "cms_miniaod_executor"),
]
MD_TYPES = {
    "add_atlas_event_collection_info": "atlas",
    "add_cms_aod_event_collection_info": "cms_aod",
    "add_cms_miniaod_event_collection_info": "cms_miniaod",
}
MISMATCH = (
    "if md['contains_collection'] and 'element_type' not in md or (not md['contains_collection'] and 'element_type' in md):\n"
    "    raise ValueError('In collection metadata, `element_type` must be specified if `contains_collection` is true and not if it is false')"
)


def _const_str(n: ast.AST, where: str) -> str:
    if isinstance(n, ast.Constant) and isinstance(n.value, str):
        return n.value
    raise Refusal(f"{where}: expected a string literal, found {ast.unparse(n)}")


def _const_strs(n: ast.AST, where: str) -> List[str]:
    if isinstance(n, ast.List):
        return [_const_str(e, where) for e in n.elts]
    raise Refusal(f"{where}: expected a list of string literals, found {ast.unparse(n)}")


def _const_nat(n: ast.AST, where: str) -> int:
    if isinstance(n, ast.Constant) and type(n.value) is int and n.value >= 0:
        return n.value
    raise Refusal(f"{where}: expected a small non-negative integer literal, found {ast.unparse(n)}")


Piece = Tuple[str, str]  # ("lit", text) | ("hole", cont|type|tok)


def _pattern(n: ast.AST, holes: Dict[str, str], where: str) -> List[Piece]:
    """A str constant or an f-string whose placeholders are plain {expr} with expr in `holes`."""
    if isinstance(n, ast.Constant) and isinstance(n.value, str):
        return [("lit", n.value)] if n.value else []
    if not isinstance(n, ast.JoinedStr):
        raise Refusal(f"{where}: expected a string or f-string, found {ast.unparse(n)}")
    out: List[Piece] = []
    for v in n.values:
        if isinstance(v, ast.Constant) and isinstance(v.value, str):
            if out and out[-1][0] == "lit":
                out[-1] = ("lit", out[-1][1] + v.value)
            else:
                out.append(("lit", v.value))
        elif isinstance(v, ast.FormattedValue) and v.conversion == -1 and v.format_spec is None:
            e = ast.unparse(v.value)
            if e not in holes:
                raise Refusal(f"{where}: f-string placeholder {{{e}}} is not one the model knows")
            out.append(("hole", holes[e]))
        else:
            raise Refusal(f"{where}: unsupported f-string part")
    return out


def _strip_doc(body: List[ast.stmt]) -> List[ast.stmt]:
    if body and isinstance(body[0], ast.Expr) and isinstance(body[0].value, ast.Constant) and isinstance(body[0].value.value, str):
        return body[1:]
    return body


def _single_return(fn: ast.FunctionDef, where: str) -> ast.AST:
    body = [s for s in _strip_doc(fn.body)]
    if len(body) != 1 or not isinstance(body[0], ast.Return) or body[0].value is None:
        raise Refusal(f"{where}: body is not a single return")
    return body[0].value


def _methods(c: ast.ClassDef) -> Dict[str, ast.FunctionDef]:
    return {f.name: f for f in c.body if isinstance(f, ast.FunctionDef)}


def _arg_defaults(fn: ast.FunctionDef) -> Dict[str, ast.AST]:
    a = fn.args
    if a.vararg or a.kwarg or a.kwonlyargs or a.posonlyargs:
        raise Refusal(f"{fn.name}: unsupported parameter kinds")
    names = [x.arg for x in a.args]
    return dict(zip(names[len(names) - len(a.defaults):], a.defaults))


def parse_container_class(c: ast.ClassDef, path: str) -> Dict[str, Any]:
    where = f"{path}: class {c.name}"
    bases = [ast.unparse(b) for b in c.bases]
    if bases == ["event_collection_container"]:
        kind, params = "single", ["self", "type_name", "p_depth"]
        sup = "super().__init__(type_name, p_depth=p_depth)"
    elif bases == ["event_collection_collection_container"]:
        kind, params = "coll", ["self", "type_name", "element_name", "p_depth_type", "p_depth_element"]
        sup = None
    else:
        raise Refusal(f"{where}: unexpected bases {bases}")
    m = _methods(c)
    extra = set(m) - {"__init__", "__str__", "token_type"}
    if extra or "__init__" not in m or "__str__" not in m:
        raise Refusal(f"{where}: unexpected method set {sorted(m)}")
    init = m["__init__"]
    if [a.arg for a in init.args.args] != params:
        raise Refusal(f"{where}: __init__ parameters are {[a.arg for a in init.args.args]}")
    body = _strip_doc(init.body)
    if len(body) != 1 or not isinstance(body[0], ast.Expr) or not isinstance(body[0].value, ast.Call):
        raise Refusal(f"{where}: __init__ is not a single super().__init__ call")
    call = body[0].value
    if ast.unparse(call.func) != "super().__init__":
        raise Refusal(f"{where}: __init__ is not a single super().__init__ call")
    if kind == "single":
        if ast.unparse(call) != sup:
            raise Refusal(f"{where}: __init__ does not pass (type_name, p_depth=p_depth) through")
    else:
        pos = [ast.unparse(a) for a in call.args]
        kws = {k.arg: ast.unparse(k.value) for k in call.keywords}
        if pos != ["type_name", "element_name"] or kws != {"p_depth_element": "p_depth_element", "p_depth_type": "p_depth_type"}:
            raise Refusal(f"{where}: __init__ does not pass its four arguments through")
    d = _arg_defaults(init)
    if kind == "single":
        if set(d) != {"p_depth"}:
            raise Refusal(f"{where}: __init__ defaults are {sorted(d)}")
        pd_type, pd_elem = _const_nat(d["p_depth"], where), 0
    else:
        if set(d) != {"p_depth_type", "p_depth_element"}:
            raise Refusal(f"{where}: __init__ defaults are {sorted(d)}")
        pd_type, pd_elem = _const_nat(d["p_depth_type"], where), _const_nat(d["p_depth_element"], where)
    holes = {"self.type": "type"}
    fmt = _pattern(_single_return(m["__str__"], where + ".__str__"), holes, where + ".__str__")
    tok = _pattern(_single_return(m["token_type"], where + ".token_type"), holes, where + ".token_type") if "token_type" in m else None
    return dict(name=c.name, kind=kind, fmt=fmt, tok=tok, pd_type=pd_type, pd_elem=pd_elem)


def parse_table(node: ast.Assign, classes: Dict[str, Dict[str, Any]], path: str) -> List[Dict[str, Any]]:
    if not isinstance(node.value, ast.List):
        raise Refusal(f"{path}: the collection table is not a list literal")
    rows = []
    for e in node.value.elts:
        where = f"{path} line {e.lineno}"
        if not (isinstance(e, ast.Call) and ast.unparse(e.func) == "EventCollectionSpecification" and len(e.args) == 5 and not e.keywords):
            raise Refusal(f"{where}: table entry is not EventCollectionSpecification with 5 positional arguments")
        backend, name = _const_str(e.args[0], where), _const_str(e.args[1], where)
        inc, libs = _const_strs(e.args[2], where), _const_strs(e.args[4], where)
        cc = e.args[3]
        if not (isinstance(cc, ast.Call) and isinstance(cc.func, ast.Name) and cc.func.id in classes):
            raise Refusal(f"{where}: container is not a call of a container class of this file")
        cls = classes[cc.func.id]
        kws = {k.arg: k.value for k in cc.keywords}
        if cls["kind"] == "single":
            if len(cc.args) != 1 or set(kws) - {"p_depth"}:
                raise Refusal(f"{where}: unexpected arguments of {cls['name']}")
            ty, elem = _const_str(cc.args[0], where), ""
            pd_type = _const_nat(kws["p_depth"], where) if "p_depth" in kws else cls["pd_type"]
            pd_elem = 0
        else:
            if len(cc.args) != 2 or set(kws) - {"p_depth_type", "p_depth_element"}:
                raise Refusal(f"{where}: unexpected arguments of {cls['name']}")
            ty, elem = _const_str(cc.args[0], where), _const_str(cc.args[1], where)
            pd_type = _const_nat(kws["p_depth_type"], where) if "p_depth_type" in kws else cls["pd_type"]
            pd_elem = _const_nat(kws["p_depth_element"], where) if "p_depth_element" in kws else cls["pd_elem"]
        rows.append(dict(backend=backend, name=name, inc=inc, libs=libs, cls=cls, ty=ty, elem=elem, pd_type=pd_type, pd_elem=pd_elem))
    return rows


def parse_default_types(fn: ast.FunctionDef, path: str) -> List[Tuple[str, str, str, int]]:
    out = []
    for s in _strip_doc(fn.body):
        where = f"{path} line {s.lineno}"
        if not (isinstance(s, ast.Expr) and isinstance(s.value, ast.Call) and ast.unparse(s.value.func) == "ctyp.add_method_type_info"):
            raise Refusal(f"{where}: statement of {fn.name} is not ctyp.add_method_type_info(...)")
        c = s.value
        if len(c.args) != 3 or c.keywords:
            raise Refusal(f"{where}: add_method_type_info is not called with 3 positional arguments")
        t = c.args[2]
        if not (isinstance(t, ast.Call) and ast.unparse(t.func) == "ctyp.terminal" and len(t.args) == 1 and {k.arg for k in t.keywords} <= {"p_depth"}):
            raise Refusal(f"{where}: return type is not ctyp.terminal('T'[, p_depth=n])")
        pd = _const_nat(t.keywords[0].value, where) if t.keywords else 0
        out.append((_const_str(c.args[0], where), _const_str(c.args[1], where), _const_str(t.args[0], where), pd))
    return out


UNFIXED_CPV = (
    "def get_running_code_CPPCodeValue(self, cpv: cpp_ast.CPPCodeValue, md: EventCollectionSpecification):\n"
    "    cpv.running_code = self.get_running_code(md.container_type)\n"
    "    token_variable = crep.cpp_variable(self.t_name, gc_scope_top_level, ctyp.terminal(md.container_type.token_type()))\n"
    "    token_init = {INIT}\n"
    "    cpv.fields.append((token_variable, token_init))"
)
PERCALL_CPV = (
    "def get_running_code_CPPCodeValue(self, cpv: cpp_ast.CPPCodeValue, md: EventCollectionSpecification):\n"
    "    t_name = unique_name('token')\n"
    "    cpv.running_code = self.get_running_code(md.container_type, t_name)\n"
    "    token_variable = crep.cpp_variable(t_name, top_level_scope(), ctyp.terminal(md.container_type.token_type()))\n"
    "    token_init = {INIT}\n"
    "    cpv.fields.append((token_variable, token_init))"
)


def parse_coder(c: ast.ClassDef, path: str) -> Dict[str, Any]:
    where = f"{path}: class {c.name}"
    if [ast.unparse(b) for b in c.bases] != ["event_collection_coder"]:
        raise Refusal(f"{where}: unexpected bases")
    m = _methods(c)
    class_assigns = [s for s in c.body if isinstance(s, ast.Assign)]
    other = [s for s in c.body if not isinstance(s, (ast.Assign, ast.FunctionDef)) and not (isinstance(s, ast.Expr) and isinstance(s.value, ast.Constant))]
    if other or set(m) - {"get_running_code", "get_running_code_CPPCodeValue"} or "get_running_code" not in m:
        raise Refusal(f"{where}: unexpected members")
    grc = m["get_running_code"]
    params = [a.arg for a in grc.args.args]
    ret = _single_return(grc, where + ".get_running_code")
    if not isinstance(ret, ast.List):
        raise Refusal(f"{where}.get_running_code does not return a list literal")
    alloc, init = "none", None
    holes = {"container_type": "cont"}
    if "get_running_code_CPPCodeValue" not in m:
        if class_assigns or params != ["self", "container_type"]:
            raise Refusal(f"{where}: unexpected class attributes or get_running_code parameters")
    else:
        f = m["get_running_code_CPPCodeValue"]
        body = _strip_doc(f.body)
        ti = [s for s in body if isinstance(s, ast.Assign) and ast.unparse(s.targets[0]) == "token_init"]
        if len(ti) != 1:
            raise Refusal(f"{where}.get_running_code_CPPCodeValue: token_init assignment not found once")
        init = _pattern(ti[0].value, {"md.container_type.type": "type"}, where + " token_init")
        f2 = ast.FunctionDef(name=f.name, args=f.args, body=body, decorator_list=[], returns=None, type_comment=None, type_params=[])
        text = ast.unparse(ast.fix_missing_locations(f2))
        init_text = ast.unparse(ti[0].value)
        if text == UNFIXED_CPV.replace("{INIT}", init_text):
            if len(class_assigns) != 1 or ast.unparse(class_assigns[0]) != "t_name = unique_name('token')" or params != ["self", "container_type"]:
                raise Refusal(f"{where}: class-level token name is not `t_name = unique_name('token')`")
            alloc = "per-class"
            holes["self.t_name"] = "tok"
        elif text == PERCALL_CPV.replace("{INIT}", init_text):
            if class_assigns or params != ["self", "container_type", "t_name"] or grc.args.defaults:
                raise Refusal(f"{where}: unexpected class attributes or get_running_code parameters")
            alloc = "per-call"
            holes["t_name"] = "tok"
        else:
            raise Refusal(f"{where}.get_running_code_CPPCodeValue has neither of the two modelled bodies")
    lines = [_pattern(e, holes, where + ".get_running_code") for e in ret.elts]
    return dict(name=c.name, lines=lines, alloc=alloc, init=init)


def parse_event_collections(key: str, rel: str) -> Dict[str, Any]:
    path = REPO / rel
    tree = ast.parse(path.read_text())
    classes: Dict[str, Dict[str, Any]] = {}
    table = None
    table_name = None
    coder = None
    defaults = None
    for node in tree.body:
        if isinstance(node, (ast.Import, ast.ImportFrom)):
            continue
        if isinstance(node, ast.Expr) and isinstance(node.value, ast.Constant):
            continue
        if isinstance(node, ast.ClassDef):
            bases = [ast.unparse(b) for b in node.bases]
            if bases == ["event_collection_coder"]:
                if coder is not None:
                    raise Refusal(f"{rel}: more than one coder class")
                coder = parse_coder(node, rel)
            else:
                classes[node.name] = parse_container_class(node, rel)
        elif isinstance(node, ast.Assign) and len(node.targets) == 1 and isinstance(node.targets[0], ast.Name) and node.targets[0].id.endswith("_collections"):
            if table is not None:
                raise Refusal(f"{rel}: more than one collection table")
            table_name = node.targets[0].id
            table = parse_table(node, classes, rel)
        elif isinstance(node, ast.FunctionDef) and node.name.startswith("define_default_"):
            if defaults is not None:
                raise Refusal(f"{rel}: more than one define_default_* function")
            defaults = (node.name, parse_default_types(node, rel))
        else:
            raise Refusal(f"{rel} line {node.lineno}: unexpected module-level statement {type(node).__name__}")
    if table is None or coder is None or defaults is None:
        raise Refusal(f"{rel}: table, coder or default types not found")
    return dict(key=key, classes=classes, table=table, table_name=table_name, coder=coder, defaults=defaults)


def parse_executor(rel: str, cls_name: str, ec: Dict[str, Any]) -> str:
    tree = ast.parse((REPO / rel).read_text())
    cs = [n for n in tree.body if isinstance(n, ast.ClassDef) and n.name == cls_name]
    if len(cs) != 1:
        raise Refusal(f"{rel}: class {cls_name} not found")
    m = _methods(cs[0])
    for need in ("__init__", "build_callback", "build_collection_callback"):
        if need not in m:
            raise Refusal(f"{rel}: {cls_name}.{need} not found")
    init_txt = ast.unparse(m["__init__"])
    if f"self._ecc = {ec['coder']['name']}()" not in init_txt:
        raise Refusal(f"{rel}: {cls_name} does not use the coder {ec['coder']['name']} of its event_collections.py")
    if not re.search(r"\{md\.name: self\.build_callback\(self\._ecc, md\) for md in " + re.escape(ec["table_name"]) + r"\}", init_txt):
        raise Refusal(f"{rel}: {cls_name} does not build its method table from {ec['table_name']}")
    if ast.unparse(_single_return(m["build_callback"], rel)) != "lambda cd: ecc.get_collection(md, cd)":
        raise Refusal(f"{rel}: build_callback is not `lambda cd: ecc.get_collection(md, cd)`")
    body = _strip_doc(m["build_collection_callback"].body)
    if len(body) != 2 or not isinstance(body[0], ast.If) or body[0].orelse or ast.unparse(body[1]) != "return lambda cd: self._ecc.get_collection(metadata, cd)":
        raise Refusal(f"{rel}: build_collection_callback does not have the modelled shape")
    t = body[0].test
    if not (isinstance(t, ast.Compare) and ast.unparse(t.left) == "metadata.backend_name" and len(t.ops) == 1 and isinstance(t.ops[0], ast.NotEq)):
        raise Refusal(f"{rel}: build_collection_callback's test is not `metadata.backend_name != <literal>`")
    if len(body[0].body) != 1 or not isinstance(body[0].body[0], ast.Raise) or not ast.unparse(body[0].body[0]).startswith("raise ValueError("):
        raise Refusal(f"{rel}: build_collection_callback does not raise ValueError")
    return _const_str(t.comparators[0], rel)


def parse_metadata(ecs: Dict[str, Dict[str, Any]]) -> List[Dict[str, Any]]:
    rel = "func_adl_xAOD/common/meta_data.py"
    tree = ast.parse((REPO / rel).read_text())
    fns = [n for n in tree.body if isinstance(n, ast.FunctionDef) and n.name == "process_metadata"]
    if len(fns) != 1:
        raise Refusal(f"{rel}: process_metadata not found")
    loops = [n for n in fns[0].body if isinstance(n, ast.For) and ast.unparse(n.target) == "md" and ast.unparse(n.iter) == "md_list"]
    if len(loops) != 1:
        raise Refusal(f"{rel}: `for md in md_list` not found")
    body = loops[0].body
    if len(body) != 3 or ast.unparse(body[0]) != "md_type = md.get('metadata_type')" or not isinstance(body[2], ast.If):
        raise Refusal(f"{rel}: the metadata loop no longer starts with md_type = md.get('metadata_type') / None check / if-chain")
    if not ast.unparse(body[1]).startswith("if md_type is None:\n    raise ValueError("):
        raise Refusal(f"{rel}: missing metadata_type is not refused with ValueError")
    node: Optional[ast.If] = body[2]
    found: Dict[str, Dict[str, Any]] = {}
    while node is not None:
        t = node.test
        if isinstance(t, ast.Compare) and ast.unparse(t.left) == "md_type" and len(t.ops) == 1 and isinstance(t.ops[0], ast.Eq) and isinstance(t.comparators[0], ast.Constant):
            name = t.comparators[0].value
            if name in MD_TYPES:
                if name in found:
                    raise Refusal(f"{rel}: two branches for {name}")
                found[name] = parse_md_branch(name, node.body, ecs[MD_TYPES[name]], rel)
            elif isinstance(name, str) and "event_collection" in name:
                raise Refusal(f"{rel}: unknown collection metadata type {name}")
        node = node.orelse[0] if len(node.orelse) == 1 and isinstance(node.orelse[0], ast.If) else None
    if set(found) != set(MD_TYPES):
        raise Refusal(f"{rel}: collection metadata branches found: {sorted(found)}")
    return [found[k] for k in MD_TYPES]


def parse_md_branch(md_type: str, body: List[ast.stmt], ec: Dict[str, Any], rel: str) -> Dict[str, Any]:
    where = f"{rel}: branch {md_type}"
    texts = [ast.unparse(s) for s in body]
    if len(texts) not in (6, 7):
        raise Refusal(f"{where}: {len(texts)} statements")
    m = re.fullmatch(r"for k in md\.keys\(\):\n    if k not in (\[.*\]):\n        raise ValueError\(.*\)", texts[0])
    if not m:
        raise Refusal(f"{where}: key check does not have the modelled shape")
    keys = ast.literal_eval(m.group(1))
    if not all(isinstance(k, str) for k in keys):
        raise Refusal(f"{where}: key list is not a list of strings")
    if texts[1] != MISMATCH:
        raise Refusal(f"{where}: element_type/contains_collection check does not have the modelled shape")
    if not isinstance(body[2], ast.ImportFrom):
        raise Refusal(f"{where}: third statement is not the import of the container classes")
    imported = [a.name for a in body[2].names]
    for c in imported:
        if c not in ec["classes"]:
            raise Refusal(f"{where}: imports {c}, which is not a container class of the backend's event_collections.py")
    ct = texts[3]
    A, E = "md['container_type']", "md['element_type']"
    single = None
    elem_ptr = False
    m1 = re.fullmatch(rf"container_type = (\w+)\({re.escape(A)}, {re.escape(E)}\) if md\['contains_collection'\] else (\w+)\({re.escape(A)}\)", ct)
    m2 = re.fullmatch(rf"container_type = (\w+)\({re.escape(A)}, {re.escape(E)}\)", ct)
    m3 = re.fullmatch(rf"container_type = (\w+)\({re.escape(A)}, {re.escape(E)}, p_depth_element=1 if md\.get\('element_pointer', False\) else 0\)", ct)
    if m1:
        coll, single = m1.group(1), m1.group(2)
    elif m2:
        coll = m2.group(1)
    elif m3:
        coll, elem_ptr = m3.group(1), True
    else:
        raise Refusal(f"{where}: construction of the container does not have a modelled shape: {ct}")
    for c in [coll] + ([single] if single else []):
        if c not in imported:
            raise Refusal(f"{where}: {c} is not imported in the branch")
    if ec["classes"][coll]["kind"] != "coll" or (single and ec["classes"][single]["kind"] != "single"):
        raise Refusal(f"{where}: container classes used with the wrong kind")
    rest = texts[4:]
    libs = False
    if len(rest) == 3:
        if rest[0] != "link_libraries = [] if 'link_libraries' not in md else md['link_libraries']":
            raise Refusal(f"{where}: unexpected statement {rest[0]}")
        libs = True
        rest = rest[1:]
    m4 = re.fullmatch(r"spec = EventCollectionSpecification\('(\w+)', md\['name'\], md\['include_files'\], container_type, (link_libraries|\[\])\)", rest[0])
    if not m4 or (m4.group(2) == "link_libraries") != libs or rest[1] != "cpp_funcs.append(spec)":
        raise Refusal(f"{where}: construction of the specification does not have the modelled shape")
    if "element_pointer" in keys and "element_pointer" not in ct:
        pass  # accepted but unused: recorded as mk_elem_ptr = false; the theorem about it then fails
    return dict(md_type=md_type, keys=keys, backend=m4.group(1), coll=ec["classes"][coll], single=ec["classes"][single] if single else None, libs=libs, elem_ptr=elem_ptr)


# ------------------------------------------------------------------------------------------------
# printing
# ------------------------------------------------------------------------------------------------
HOLE = {"cont": "HCont", "type": "HType", "tok": "HTok"}


def cpattern(p: Optional[List[Piece]]) -> str:
    return "[" + "; ".join(f"PLit {cstr(v)}" if k == "lit" else f"PHole {HOLE[v]}" for k, v in p) + "]"


def copt_pattern(p: Optional[List[Piece]]) -> str:
    return "None" if p is None else f"(Some {cpattern(p)})"


def cclass(c: Dict[str, Any]) -> str:
    kind = "KSingle" if c["kind"] == "single" else "KColl"
    return f"(mk_cclass {cstr(c['name'])} {kind} {cpattern(c['fmt'])} {copt_pattern(c['tok'])} {c['pd_type']} {c['pd_elem']})"


def cstrs(l: List[str]) -> str:
    return "[" + "; ".join(cstr(x) for x in l) + "]"


def cspec(r: Dict[str, Any]) -> str:
    c = r["cls"]
    kind = "KSingle" if c["kind"] == "single" else "KColl"
    return (f"mk_cspec {cstr(r['backend'])} {cstr(r['name'])}\n      {cstrs(r['inc'])}\n      {kind} {cstr(r['ty'])} {r['pd_type']} {cstr(r['elem'])} {r['pd_elem']}"
            f"\n      {cpattern(c['fmt'])} {copt_pattern(c['tok'])} {cstrs(r['libs'])}")


ALLOC = {"none": "TokNone", "per-class": "TokPerClass", "per-call": "TokPerCall"}

FALLBACK = """From FV Require Import Base.Prelude Model.Collections.
Definition no_coder : coder := mk_coder [] TokNone None.
Definition atlas_backend : backend := mk_backend "atlas" "" [] no_coder.
Definition cms_aod_backend : backend := mk_backend "cms_aod" "" [] no_coder.
Definition cms_miniaod_backend : backend := mk_backend "cms_miniaod" "" [] no_coder.
Definition md_kinds : list mdkind := [].
Definition default_types : list (string * list (string * string * string * nat)) := [].
Definition coll_env : cenv := {| c_backends := [atlas_backend; cms_aod_backend; cms_miniaod_backend]; c_kinds := md_kinds; c_default_types := default_types |}.
"""


def parse_all():
    ecs = {key: parse_event_collections(key, rel) for key, rel, _, _ in BACKENDS}
    accepts = {key: parse_executor(ex, cls, ecs[key]) for key, _, ex, cls in BACKENDS}
    kinds = parse_metadata(ecs)
    return ecs, accepts, kinds


@translator("Collections.v", FALLBACK)
def collections_v() -> str:
    ecs, accepts, kinds = parse_all()
    out = ["From FV Require Import Base.Prelude Model.Collections.", ""]
    for key, rel, ex, cls in BACKENDS:
        ec = ecs[key]
        out.append(f"(* {rel}: {ec['table_name']}, class {ec['coder']['name']}; {ex}: {cls}.build_collection_callback *)")
        out.append(f"Definition {key}_table : list cspec :=\n  [ " + ";\n    ".join(cspec(r) for r in ec["table"]) + " ].")
        cd = ec["coder"]
        out.append(f"Definition {key}_coder : coder :=\n  mk_coder [ " + ";\n             ".join(cpattern(l) for l in cd["lines"]) + f" ]\n           {ALLOC[cd['alloc']]} {copt_pattern(cd['init'])}.")
        out.append(f"Definition {key}_backend : backend := mk_backend {cstr(key)} {cstr(accepts[key])} {key}_table {key}_coder.")
        out.append("")
    out.append("(* common/meta_data.py: process_metadata, the three collection declaration branches *)")
    out.append("Definition md_kinds : list mdkind :=\n  [ " + ";\n    ".join(
        f"mk_mdkind {cstr(k['md_type'])} {cstrs(k['keys'])} {cstr(k['backend'])}\n      {cclass(k['coll'])}\n      {'None' if k['single'] is None else '(Some ' + cclass(k['single']) + ')'} {'true' if k['libs'] else 'false'} {'true' if k['elem_ptr'] else 'false'}"
        for k in kinds) + " ].")
    out.append("(* define_default_*_types: (class, method, return type, pointer depth) *)")
    out.append("Definition default_types : list (string * list (string * string * string * nat)) :=\n  [ " + ";\n    ".join(
        f"({cstr(key)}, {clist([f'({cstr(a)}, {cstr(b)}, {cstr(c)}, {d})' for a, b, c, d in ecs[key]['defaults'][1]], 2)})" for key, _, _, _ in BACKENDS) + " ].")
    out.append("Definition coll_env : cenv := {| c_backends := [atlas_backend; cms_aod_backend; cms_miniaod_backend]; c_kinds := md_kinds; c_default_types := default_types |}.")
    return "\n".join(out) + "\n"
