"""gen/Templates.v (fail-closed) from
  * func_adl_xAOD/template/{atlas/r21,cms/r5,cms/r7}/*  - mini-Jinja parser ({{ x }}, {% for x in y %}, {% endfor %},
    '-' whitespace control), every file an executor renders, as `list tnode`;
  * func_adl_xAOD/common/meta_data.py   - the InjectCodeBlock dataclass field list;
  * func_adl_xAOD/common/executor.py    - `_ib_fetch("<field>")` property bodies, the `info[...] = ...` wiring of
    write_cpp_files, the jinja2.Environment options;
  * the three backend executors          - file_names, template dir, keys added by add_to_replacement_dict.
Self-test: every parsed template is rendered by the parser's own renderer and by the real jinja2 (same options as
the executor) on a probe environment; any difference is a refusal."""
import ast
import re
from typing import Any, Dict, List, Tuple

from ..core import REPO
from ..regen import Refusal, translator
from .coqtext import clist

PKG = "func_adl_xAOD"
BACKENDS = [
    # (model name, executor module path, class name)
    ("atlas", "atlas/xaod/executor.py", "atlas_xaod_executor"),
    ("cms_aod", "cms/aod/executor.py", "cms_aod_executor"),
    ("cms_miniaod", "cms/miniaod/executor.py", "cms_miniaod_executor"),
]


# ---------------------------------------------------------------------------------------------
# Coq text
# ---------------------------------------------------------------------------------------------
def cstr_raw(s: str) -> str:
    """Coq string literal holding the UTF-8 bytes of s (Coq literals are byte strings; newlines, tabs and
    non-ASCII bytes may appear verbatim; only the double quote is doubled)."""
    if "\r" in s or "\x00" in s:
        raise Refusal("carriage return / NUL in a string that goes into a Coq literal")
    # "(*" is never written inside a literal: textual tools (the hygiene gate) would take it for a comment opener
    parts = s.split("(*")
    lits = ['"' + (("*" if i else "") + p + ("(" if i < len(parts) - 1 else "")).replace('"', '""') + '"' for i, p in enumerate(parts)]
    return lits[0] if len(lits) == 1 else "(" + " +++ ".join(lits) + ")"


# ---------------------------------------------------------------------------------------------
# mini-Jinja
# ---------------------------------------------------------------------------------------------
Node = Tuple  # ("text", s) | ("var", x) | ("for", x, y, [Node])
_IDENT = r"[A-Za-z_][A-Za-z0-9_]*"
_TAG = re.compile(r"\{\{|\{%|\{#")
_VAR = re.compile(r"\{\{(-?)\s*(" + _IDENT + r")\s*(-?)\}\}")
_FOR = re.compile(r"\{%(-?)\s*for\s+(" + _IDENT + r")\s+in\s+(" + _IDENT + r")\s*(-?)%\}")
_END = re.compile(r"\{%(-?)\s*endfor\s*(-?)%\}")


def parse_template(src: str, where: str) -> List[Node]:
    """jinja2 with default options (keep_trailing_newline=False, trim_blocks=False, lstrip_blocks=False,
    no line statements): one trailing newline of the source is dropped; `{%-`/`{{-` strip the whitespace
    before the tag, `-%}`/`-}}` the whitespace after it."""
    if "\r" in src:
        raise Refusal(f"{where}: carriage return in a template (newline normalisation is not modelled)")
    if src.endswith("\n"):
        src = src[:-1]
    pos = 0
    stack: List[Tuple[str, str, List[Node]]] = []  # (x, y, nodes of the enclosing level)
    cur: List[Node] = []
    strip_next = False

    def add_text(t: str):
        nonlocal strip_next
        if strip_next:
            t = t.lstrip()
            strip_next = False
        if t:
            cur.append(("text", t))

    while True:
        m = _TAG.search(src, pos)
        if m is None:
            add_text(src[pos:])
            break
        text = src[pos : m.start()]
        kind = m.group(0)
        line = src.count("\n", 0, m.start()) + 1
        if kind == "{#":
            raise Refusal(f"{where}:{line}: template comment {{# ... #}} is outside the modelled grammar")
        if kind == "{{":
            mv = _VAR.match(src, m.start())
            if mv is None:
                raise Refusal(f"{where}:{line}: expression other than a plain name: {src[m.start():m.start()+40]!r}")
            add_text(text.rstrip() if mv.group(1) else text)
            cur.append(("var", mv.group(2)))
            strip_next = bool(mv.group(3))
            pos = mv.end()
            continue
        mf = _FOR.match(src, m.start())
        me = _END.match(src, m.start())
        if mf is not None:
            add_text(text.rstrip() if mf.group(1) else text)
            stack.append((mf.group(2), mf.group(3), cur))
            cur = []
            strip_next = bool(mf.group(4))
            pos = mf.end()
        elif me is not None:
            add_text(text.rstrip() if me.group(1) else text)
            if not stack:
                raise Refusal(f"{where}:{line}: endfor without for")
            x, y, outer = stack.pop()
            outer.append(("for", x, y, cur))
            cur = outer
            strip_next = bool(me.group(2))
            pos = me.end()
        else:
            raise Refusal(f"{where}:{line}: statement outside the modelled grammar: {src[m.start():m.start()+40]!r}")
    if stack:
        raise Refusal(f"{where}: for without endfor")
    if "loop" in _names(cur):
        raise Refusal(f"{where}: the special variable `loop` is not modelled")
    return cur


def _names(nodes: List[Node]) -> List[str]:
    out: List[str] = []
    for n in nodes:
        if n[0] == "var":
            out.append(n[1])
        elif n[0] == "for":
            out += [n[1], n[2]] + _names(n[3])
    return out


def list_vars(nodes: List[Node]) -> List[str]:
    out: List[str] = []
    for n in nodes:
        if n[0] == "for":
            out.append(n[2])
            out += list_vars(n[3])
    return out


def render(nodes: List[Node], genv: Dict[str, List[str]], lenv: Dict[str, str]) -> str:
    out = []
    for n in nodes:
        if n[0] == "text":
            out.append(n[1])
        elif n[0] == "var":
            out.append(lenv.get(n[1], ""))
        else:
            for v in genv.get(n[2], []):
                out.append(render(n[3], genv, {**lenv, n[1]: v}))
    return "".join(out)


def check_scoping(nodes: List[Node], bound: List[str], where: str):
    """Every {{x}} names an enclosing loop variable; every loop iterates over a top-level name."""
    for n in nodes:
        if n[0] == "var" and n[1] not in bound:
            raise Refusal(f"{where}: {{{{{n[1]}}}}} outside a loop binding it (top-level substitution is not modelled)")
        if n[0] == "for":
            if n[2] in bound or n[1] in bound:
                raise Refusal(f"{where}: nested loop over / rebinding of a loop variable is not modelled")
            check_scoping(n[3], bound + [n[1]], where)


def self_test(src: str, nodes: List[Node], where: str, env_kwargs: Dict[str, Any]):
    import jinja2

    probe = {y: [f"<{y}:1 {{{{q}}}} {{% x %}} \\ \" & é>", "", f"<{y}:2>"] for y in set(list_vars(nodes))}
    real = jinja2.Environment(**env_kwargs).from_string(src).render(probe)
    mine = render(nodes, probe, {})
    if real != mine:
        raise Refusal(f"{where}: self-test failed, the mini-Jinja parse renders differently from jinja2")
    if jinja2.Environment(**env_kwargs).from_string(src).render({}) != render(nodes, {}, {}):
        raise Refusal(f"{where}: self-test failed on the empty environment")


def coq_nodes(nodes: List[Node]) -> str:
    parts = []
    for n in nodes:
        if n[0] == "text":
            parts.append("TText " + cstr_raw(n[1]))
        elif n[0] == "var":
            parts.append("TVar " + cstr_raw(n[1]))
        else:
            parts.append(f"TFor {cstr_raw(n[1])} {cstr_raw(n[2])} {coq_nodes(n[3])}")
    return "[" + ";\n ".join(parts) + "]"


# ---------------------------------------------------------------------------------------------
# meta_data.py: the dataclass
# ---------------------------------------------------------------------------------------------
def inject_fields() -> List[str]:
    path = REPO / PKG / "common/meta_data.py"
    tree = ast.parse(path.read_text())
    cls = [n for n in tree.body if isinstance(n, ast.ClassDef) and n.name == "InjectCodeBlock"]
    if len(cls) != 1:
        raise Refusal("meta_data.py: class InjectCodeBlock not found exactly once")
    c = cls[0]
    if [ast.unparse(d) for d in c.decorator_list] != ["dataclass"] or c.bases or c.keywords:
        raise Refusal("meta_data.py: InjectCodeBlock is not a plain @dataclass (equality/constructor are modelled for that)")
    fields: List[str] = []
    seen_name = False
    for st in c.body:
        if isinstance(st, ast.Expr) and isinstance(st.value, ast.Constant) and isinstance(st.value.value, str):
            continue
        if not (isinstance(st, ast.AnnAssign) and isinstance(st.target, ast.Name)):
            raise Refusal(f"meta_data.py:{st.lineno}: InjectCodeBlock member that is not an annotated field")
        nm, ann = st.target.id, ast.unparse(st.annotation)
        if nm == "name":
            if ann != "str" or st.value is not None or fields:
                raise Refusal("meta_data.py: InjectCodeBlock.name is not the first, required `str` field")
            seen_name = True
            continue
        if ann != "List[str]" or st.value is None or ast.unparse(st.value) != "field(default_factory=list)":
            raise Refusal(f"meta_data.py:{st.lineno}: field {nm} is not `List[str] = field(default_factory=list)`")
        fields.append(nm)
    if not seen_name or not fields or len(set(fields)) != len(fields):
        raise Refusal("meta_data.py: InjectCodeBlock field list could not be read")
    return fields


# ---------------------------------------------------------------------------------------------
# common/executor.py
# ---------------------------------------------------------------------------------------------
EXPECTED_IB_FETCH = "return list(itertools.chain(*[getattr(md, name) for md in self._inject_blocks]))"
EXPECTED_SAVE = "self._inject_blocks = [md for md in cpp_functions if isinstance(md, InjectCodeBlock)]"
EXPECTED_PROCESS = "cpp_functions = process_metadata(meta_data, self._extended_md)"
EXPECTED_COPY = "j2_env.get_template(template_file).stream(info).dump(str(final_dir / template_file))"
EXPECTED_LOOP = "for file_name in self._file_names:\n    self._copy_template_file(j2_env, info, file_name, output_path)"


def _body_no_doc(fn: ast.FunctionDef) -> List[ast.stmt]:
    b = list(fn.body)
    if b and isinstance(b[0], ast.Expr) and isinstance(b[0].value, ast.Constant) and isinstance(b[0].value.value, str):
        b = b[1:]
    return b


def _reads_injection(e: ast.AST, prop_names) -> bool:
    """Does the expression read the saved blocks, _ib_fetch or one of its properties (of any object)?"""
    return any(isinstance(n, ast.Attribute) and ((n.attr in prop_names and isinstance(n.value, ast.Name) and n.value.id == "self") or n.attr in ("_inject_blocks", "_ib_fetch", "__dict__")) for n in ast.walk(e)) or any(
        isinstance(n, ast.Name) and n.id in ("getattr", "vars") for n in ast.walk(e))


def _mentions_self(e: ast.AST) -> bool:
    return any(isinstance(n, ast.Name) and n.id == "self" for n in ast.walk(e))


def common_executor():
    path = REPO / PKG / "common/executor.py"
    tree = ast.parse(path.read_text())
    cls = [n for n in tree.body if isinstance(n, ast.ClassDef) and n.name == "executor"]
    if len(cls) != 1:
        raise Refusal("common/executor.py: class executor not found exactly once")
    methods = {m.name: m for m in cls[0].body if isinstance(m, ast.FunctionDef)}
    # --- _ib_fetch and the properties using it
    if "_ib_fetch" not in methods or [ast.unparse(s) for s in _body_no_doc(methods["_ib_fetch"])] != [EXPECTED_IB_FETCH]:
        raise Refusal("common/executor.py: _ib_fetch no longer has the modelled body (concatenation in block order)")
    if [a.arg for a in methods["_ib_fetch"].args.args] != ["self", "name"]:
        raise Refusal("common/executor.py: _ib_fetch signature changed")
    props: List[Tuple[str, str]] = []
    for m in cls[0].body:
        if not isinstance(m, ast.FunctionDef):
            continue
        body = _body_no_doc(m)
        uses = [n for n in ast.walk(m) if isinstance(n, ast.Attribute) and n.attr == "_ib_fetch"]
        if m.name == "_ib_fetch" or not uses:
            continue
        ok = (
            [ast.unparse(d) for d in m.decorator_list] == ["property"]
            and len(body) == 1
            and isinstance(body[0], ast.Return)
            and isinstance(body[0].value, ast.Call)
            and ast.unparse(body[0].value.func) == "self._ib_fetch"
            and len(body[0].value.args) == 1
            and not body[0].value.keywords
            and isinstance(body[0].value.args[0], ast.Constant)
            and isinstance(body[0].value.args[0].value, str)
        )
        if not ok:
            raise Refusal(f"common/executor.py:{m.lineno}: {m.name} uses _ib_fetch in an unmodelled way")
        props.append((m.name, body[0].value.args[0].value))
    if len({p for p, _ in props}) != len(props):
        raise Refusal("common/executor.py: a property is defined twice")
    # --- where the blocks come from
    app = methods.get("apply_ast_transformations")
    if app is None:
        raise Refusal("common/executor.py: apply_ast_transformations not found")
    stmts = [ast.unparse(s) for s in _body_no_doc(app)]
    if EXPECTED_SAVE not in stmts or EXPECTED_PROCESS not in stmts:
        raise Refusal("common/executor.py: apply_ast_transformations no longer saves the InjectCodeBlock items of process_metadata in order")
    for mname, m in methods.items():
        for n in ast.walk(m):
            if isinstance(n, (ast.Assign, ast.AugAssign, ast.AnnAssign)):
                tg = n.targets if isinstance(n, ast.Assign) else [n.target]
                for t in tg:
                    if ast.unparse(t) == "self._inject_blocks":
                        src = ast.unparse(n)
                        allowed = {
                            "__init__": "self._inject_blocks: List[InjectCodeBlock] = []",
                            "reset": "self._inject_blocks = []",
                            "apply_ast_transformations": EXPECTED_SAVE,
                        }
                        if allowed.get(mname) != src:
                            raise Refusal(f"common/executor.py:{n.lineno}: unmodelled assignment to _inject_blocks in {mname}")
    # --- rendering
    cp = methods.get("_copy_template_file")
    if cp is None or [ast.unparse(s) for s in _body_no_doc(cp)] != [EXPECTED_COPY]:
        raise Refusal("common/executor.py: _copy_template_file no longer streams the template with `info` into the file of the same name")
    w = methods.get("write_cpp_files")
    if w is None:
        raise Refusal("common/executor.py: write_cpp_files not found")
    local: Dict[str, ast.expr] = {}
    wiring: List[Tuple[str, List[Tuple[str, str]]]] = []
    env_kwargs = None
    seen_info = seen_update = seen_loop = False
    prop_names = {p for p, _ in props}

    multi: set = set()

    def tainted(e: ast.AST, depth: int = 0) -> bool:
        """Does the expression (through local definitions) read anything of self?"""
        if depth > 6 or _reads_injection(e, prop_names):
            return True
        return any(isinstance(n, ast.Name) and n.id in local and tainted(local[n.id], depth + 1) for n in ast.walk(e))

    def sources(e: ast.expr, key: str, depth: int = 0) -> List[Tuple[str, str]]:
        if depth > 4:
            raise Refusal("common/executor.py: write_cpp_files: local definitions nest too deeply")
        if isinstance(e, ast.Name) and e.id in local:
            if e.id in multi:
                raise Refusal(f"common/executor.py: local {e.id} used for info[{key!r}] is assigned more than once")
            return sources(local[e.id], key, depth + 1)
        if isinstance(e, ast.Attribute) and isinstance(e.value, ast.Name) and e.value.id == "self":
            if e.attr in prop_names:
                return [("prop", e.attr)]
            raise Refusal(f"common/executor.py: info[{key!r}] reads self.{e.attr}, which is not an _ib_fetch property")
        if isinstance(e, ast.BinOp) and isinstance(e.op, ast.Add):
            return sources(e.left, key, depth + 1) + sources(e.right, key, depth + 1)
        if tainted(e):
            raise Refusal(f"common/executor.py: info[{key!r}] uses self in an unmodelled expression: {ast.unparse(e)}")
        # a value that comes from the query (visitor / emitters): opaque input, named by its expression
        return [("qv", ast.unparse(e))]

    for st in _body_no_doc(w):
        s = ast.unparse(st)
        if s == EXPECTED_LOOP:
            seen_loop = True
            continue
        if isinstance(st, ast.Assign) and len(st.targets) == 1:
            t = st.targets[0]
            if isinstance(t, ast.Name):
                if t.id == "info":
                    if not (isinstance(st.value, ast.Dict) and not st.value.keys) or seen_info:
                        raise Refusal("common/executor.py: write_cpp_files: info is not initialised once to {}")
                    seen_info = True
                    continue
                if t.id == "j2_env":
                    v = st.value
                    if not (isinstance(v, ast.Call) and ast.unparse(v.func) == "jinja2.Environment" and not v.args):
                        raise Refusal("common/executor.py: j2_env is not jinja2.Environment(...)")
                    kws = {k.arg: ast.unparse(k.value) for k in v.keywords}
                    if set(kws) != {"loader"} or kws["loader"] != "jinja2.FileSystemLoader(template_dir)":
                        raise Refusal(f"common/executor.py: jinja2.Environment options other than the defaults: {kws}")
                    env_kwargs = {}
                    continue
                if t.id in local:
                    multi.add(t.id)
                local[t.id] = st.value
                continue
            if isinstance(t, ast.Subscript) and isinstance(t.value, ast.Name) and t.value.id == "info":
                if not (isinstance(t.slice, ast.Constant) and isinstance(t.slice.value, str)) or not seen_info or seen_update or seen_loop:
                    raise Refusal(f"common/executor.py:{st.lineno}: unmodelled assignment into info")
                key = t.slice.value
                if key in [k for k, _ in wiring]:
                    raise Refusal(f"common/executor.py:{st.lineno}: info[{key!r}] assigned twice")
                wiring.append((key, sources(st.value, key)))
                continue
        if s == "info.update(self.add_to_replacement_dict())":
            if seen_update or seen_loop:
                raise Refusal("common/executor.py: info.update(...) is not the single last step before rendering")
            seen_update = True
            continue
        if any(isinstance(n, ast.Name) and n.id == "info" for n in ast.walk(st)):
            raise Refusal(f"common/executor.py:{st.lineno}: unmodelled use of info: {s[:80]}")
    if not (seen_info and seen_update and seen_loop and env_kwargs is not None):
        raise Refusal("common/executor.py: write_cpp_files no longer has the modelled shape (info = {}, assignments, update, render loop)")
    base_add = methods.get("add_to_replacement_dict")
    if base_add is None or [ast.unparse(s) for s in _body_no_doc(base_add)] != ["return {}"]:
        raise Refusal("common/executor.py: the base add_to_replacement_dict does not return {}")
    return props, wiring, env_kwargs


# ---------------------------------------------------------------------------------------------
# backend executors
# ---------------------------------------------------------------------------------------------
ALLOWED_METHODS = {"__init__", "build_callback", "reset", "get_visitor_obj", "add_to_replacement_dict", "build_collection_callback"}


def backend_info(rel: str, cname: str, prop_names):
    path = REPO / PKG / rel
    tree = ast.parse(path.read_text())
    cls = [n for n in tree.body if isinstance(n, ast.ClassDef) and n.name == cname]
    if len(cls) != 1:
        raise Refusal(f"{rel}: class {cname} not found exactly once")
    c = cls[0]
    if [ast.unparse(b) for b in c.bases] != ["executor"]:
        raise Refusal(f"{rel}: {cname} does not derive directly from executor")
    file_names = tdir = None
    extra: List[str] = []
    for m in c.body:
        if isinstance(m, ast.Expr) and isinstance(m.value, ast.Constant):
            continue
        if not isinstance(m, ast.FunctionDef):
            raise Refusal(f"{rel}:{m.lineno}: class-level statement in {cname} is not modelled")
        if m.name not in ALLOWED_METHODS:
            raise Refusal(f"{rel}: {cname} overrides {m.name}; only {sorted(ALLOWED_METHODS)} are modelled")
        if _reads_injection(m, prop_names):
            raise Refusal(f"{rel}: {cname}.{m.name} touches the injected blocks; only common/executor.py is modelled doing so")
        if m.name == "__init__":
            consts: Dict[str, Any] = {}
            args = m.args
            for a, d in zip(args.args[len(args.args) - len(args.defaults):], args.defaults):
                if isinstance(d, ast.Constant):
                    consts[a.arg] = d.value
            sup = None
            for st in m.body:
                if isinstance(st, ast.Assign) and len(st.targets) == 1 and isinstance(st.targets[0], ast.Name):
                    try:
                        consts[st.targets[0].id] = ast.literal_eval(st.value)
                    except Exception:  # noqa: BLE001
                        consts.pop(st.targets[0].id, None)
                if isinstance(st, ast.Expr) and isinstance(st.value, ast.Call) and ast.unparse(st.value.func) == "super().__init__":
                    sup = st.value
            if sup is None or sup.keywords or len(sup.args) != 4:
                raise Refusal(f"{rel}: super().__init__(file_names, runner_name, template_dir_name, method_names) not found")
            a0, _, a2, _ = sup.args
            if not (isinstance(a0, ast.Name) and isinstance(a2, ast.Name) and a0.id in consts and a2.id in consts):
                raise Refusal(f"{rel}: file_names / template_dir_name are not literal")
            file_names, tdir = consts[a0.id], consts[a2.id]
        if m.name == "add_to_replacement_dict":
            for st in _body_no_doc(m):
                s = ast.unparse(st)
                if isinstance(st, ast.Assign) and len(st.targets) == 1 and isinstance(st.targets[0], ast.Name):
                    v = st.value
                    if ast.unparse(v) == "super().add_to_replacement_dict()":
                        continue
                    if isinstance(v, ast.Dict) and all(isinstance(k, ast.Constant) and isinstance(k.value, str) for k in v.keys):
                        extra += [k.value for k in v.keys]  # type: ignore[union-attr]
                        continue
                elif re.fullmatch(r"[a-z0-9_]+\.update\([a-z0-9_]+\)", s) or re.fullmatch(r"return [a-z0-9_]+", s):
                    continue
                raise Refusal(f"{rel}:{st.lineno}: add_to_replacement_dict statement outside the modelled shape: {s[:80]}")
    if not (isinstance(file_names, list) and file_names and all(isinstance(f, str) for f in file_names) and isinstance(tdir, str)):
        raise Refusal(f"{rel}: file_names / template_dir_name could not be read")
    if len(set(file_names)) != len(file_names):
        raise Refusal(f"{rel}: a file is rendered twice")
    if not tdir.startswith(PKG + "/"):
        raise Refusal(f"{rel}: template directory {tdir} is outside the package")
    return file_names, tdir, extra


def read_all():
    fields = inject_fields()
    props, wiring, env_kwargs = common_executor()
    backends = []
    for name, rel, cname in BACKENDS:
        file_names, tdir, extra = backend_info(rel, cname, {p for p, _ in props})
        temps = []
        for fn in file_names:
            p = REPO / tdir / fn
            if not p.is_file():
                raise Refusal(f"{tdir}/{fn}: template file missing")
            try:
                src = p.read_bytes().decode("utf-8")
            except UnicodeDecodeError:
                raise Refusal(f"{tdir}/{fn}: not UTF-8")
            where = f"{tdir}/{fn}"
            nodes = parse_template(src, where)
            check_scoping(nodes, [], where)
            self_test(src, nodes, where, env_kwargs)
            temps.append((fn, nodes))
        backends.append((name, tdir, extra, temps))
    return fields, props, wiring, backends


FALLBACK = """From FV Require Import Base.Prelude Model.Inject.
Definition inject_fields : list string := [].
Definition ib_props : list (string * string) := [].
Definition info_wiring : list (string * list source) := [].
Definition backends : list backend := [].
Definition inject_cfg : config := {| c_fields := inject_fields; c_props := ib_props; c_wiring := info_wiring; c_backends := backends |}.
"""


@translator("Templates.v", FALLBACK)
def templates() -> str:
    fields, props, wiring, backends = read_all()
    out = ["From FV Require Import Base.Prelude Model.Inject.", ""]
    out.append("(* meta_data.py: list fields of the InjectCodeBlock dataclass, in declaration order (`name: str` comes first) *)")
    out.append("Definition inject_fields : list string := " + clist([cstr_raw(f) for f in fields], 4) + ".")
    out.append("(* common/executor.py: @property P: return self._ib_fetch(F)  as (P, F) *)")
    out.append("Definition ib_props : list (string * string) :=\n  " + clist([f"({cstr_raw(p)}, {cstr_raw(f)})" for p, f in props], 2) + ".")
    out.append("(* common/executor.py write_cpp_files: info[K] = concatenation of sources, in assignment order *)")
    rows = []
    for k, srcs in wiring:
        ss = "; ".join(("SrcProp " if kind == "prop" else "SrcQv ") + cstr_raw(v) for kind, v in srcs)
        rows.append(f"({cstr_raw(k)}, [{ss}])")
    out.append("Definition info_wiring : list (string * list source) :=\n  " + clist(rows, 1) + ".")
    names = []
    for name, tdir, extra, temps in backends:
        tnames = []
        for i, (fn, nodes) in enumerate(temps):
            ident = f"t_{name}_{i}"
            out.append(f"(* {tdir}/{fn} *)")
            out.append(f"Definition {ident} : list tnode :=\n {coq_nodes(nodes)}.")
            tnames.append(f"({cstr_raw(fn)}, {ident})")
        out.append(f"Definition backend_{name} : backend :=\n  {{| be_name := {cstr_raw(name)}; be_extra_keys := {clist([cstr_raw(k) for k in extra])};\n     be_templates := {clist(tnames, 2)} |}}.")
        names.append(f"backend_{name}")
    out.append("Definition backends : list backend := " + clist(names) + ".")
    out.append("Definition inject_cfg : config := {| c_fields := inject_fields; c_props := ib_props; c_wiring := info_wiring; c_backends := backends |}.")
    return "\n".join(out) + "\n"
