"""gen/MathTable.v from func_adl_xAOD/common/cpp_functions.py and README.md (fail-closed)."""
import ast
import re
import subprocess

from ..core import PY, REPO
from ..regen import Refusal, translator
from .coqtext import clist, cstr

# Normal forms of the two pieces of code whose *meaning* the hand model MathFuncs.v fixes.  If either
# changes shape the translator refuses; the check then decides by running real queries.
EXPECTED_ADD = (
    "def add_function_mapping(python_name, cpp_name, include_files, return_type):\n"
    "    global functions_to_replace\n"
    "    functions_to_replace[python_name] = cpp_function(cpp_name, include_files if type(include_files) is list else [include_files], return_type)"
)
EXPECTED_VISIT = (
    "def visit_Call(self, node):\n"
    "    self.generic_visit(node)\n"
    "    if type(node.func) is not ast.Name:\n"
    "        return node\n"
    "    try:\n"
    "        fnc = eval(node.func.id)\n"
    "        fnc_name = f'{fnc.__module__}.{node.func.id}'\n"
    "    except NameError:\n"
    "        fnc_name = node.func.id\n"
    "    if fnc_name not in functions_to_replace:\n"
    "        return node\n"
    "    info = functions_to_replace[fnc_name]\n"
    "    node.func = FunctionAST(info.cpp_name, info.include_files, info.cpp_return_type)\n"
    "    return node"
)


def _strip_doc(fn: ast.FunctionDef) -> str:
    body = list(fn.body)
    if body and isinstance(body[0], ast.Expr) and isinstance(body[0].value, ast.Constant) and isinstance(body[0].value.value, str):
        body = body[1:]
    fn2 = ast.FunctionDef(name=fn.name, args=fn.args, body=body, decorator_list=fn.decorator_list, returns=None, type_comment=None, type_params=[])
    return ast.unparse(ast.fix_missing_locations(fn2))


def parse_table():
    path = REPO / "func_adl_xAOD/common/cpp_functions.py"
    tree = ast.parse(path.read_text())
    rows = []
    bound = []
    seen_add = seen_visit = False
    for node in tree.body:
        if isinstance(node, (ast.Import, ast.ImportFrom)):
            for a in node.names:
                bound.append((a.asname or a.name).split(".")[0])
        elif isinstance(node, ast.FunctionDef):
            bound.append(node.name)
            if node.name == "add_function_mapping":
                if _strip_doc(node) != EXPECTED_ADD:
                    raise Refusal("cpp_functions.add_function_mapping no longer has the modelled body")
                seen_add = True
        elif isinstance(node, ast.ClassDef):
            bound.append(node.name)
            if node.name == "find_known_functions":
                fns = [f for f in node.body if isinstance(f, ast.FunctionDef)]
                if [f.name for f in fns] != ["visit_Call"] or _strip_doc(fns[0]) != EXPECTED_VISIT:
                    raise Refusal("cpp_functions.find_known_functions.visit_Call no longer has the modelled body")
                seen_visit = True
        elif isinstance(node, ast.Assign):
            for t in node.targets:
                if not isinstance(t, ast.Name):
                    raise Refusal(f"cpp_functions.py line {node.lineno}: assignment to a non-name at module level")
                bound.append(t.id)
                if t.id == "functions_to_replace":
                    if not (isinstance(node.value, ast.Dict) and not node.value.keys):
                        raise Refusal("functions_to_replace is not initialised to an empty dict")
                    rows = []
        elif isinstance(node, ast.Expr) and isinstance(node.value, ast.Constant):
            continue
        elif isinstance(node, ast.Expr) and isinstance(node.value, ast.Call) and isinstance(node.value.func, ast.Name) and node.value.func.id == "add_function_mapping":
            c = node.value
            if len(c.args) != 4 or c.keywords:
                raise Refusal(f"cpp_functions.py line {node.lineno}: add_function_mapping call is not 4 positional arguments")
            vals = []
            for i, a in enumerate(c.args):
                if isinstance(a, ast.Constant) and isinstance(a.value, str):
                    vals.append(a.value)
                elif i == 2 and isinstance(a, ast.List) and all(isinstance(e, ast.Constant) and isinstance(e.value, str) for e in a.elts):
                    vals.append([e.value for e in a.elts])
                else:
                    raise Refusal(f"cpp_functions.py line {node.lineno}: non-literal argument {i}")
            inc = vals[2] if isinstance(vals[2], list) else [vals[2]]
            rows.append((vals[0], vals[1], inc, vals[3]))
        else:
            raise Refusal(f"cpp_functions.py line {node.lineno}: unexpected module-level statement {type(node).__name__}")
    if not (seen_add and seen_visit):
        raise Refusal("add_function_mapping / find_known_functions not found")
    # the model reads the table as a constant built at import time: nothing else may write (or delete from) it
    for node in tree.body:
        if isinstance(node, (ast.FunctionDef, ast.ClassDef)) and node.name not in ("add_function_mapping", "find_known_functions"):
            for sub in ast.walk(node):
                if (isinstance(sub, ast.Name) and sub.id in ("functions_to_replace", "add_function_mapping")) or \
                        (isinstance(sub, ast.Global) and "functions_to_replace" in sub.names):
                    raise Refusal(f"cpp_functions.{node.name} (line {sub.lineno}) reads or changes the table of math functions: the model takes "
                                  "the table as the constant built at import time")
    for other in sorted((REPO / "func_adl_xAOD").rglob("*.py")):
        if other == path:
            continue
        try:
            otree = ast.parse(other.read_text())
        except SyntaxError:
            continue
        for sub in ast.walk(otree):
            nm = sub.id if isinstance(sub, ast.Name) else sub.attr if isinstance(sub, ast.Attribute) else \
                [a.name for a in sub.names] if isinstance(sub, ast.ImportFrom) else None
            names = nm if isinstance(nm, list) else [nm]
            if "functions_to_replace" in names or "add_function_mapping" in names:
                raise Refusal(f"{other.relative_to(REPO)} line {sub.lineno} uses the table of math functions (functions_to_replace / "
                              "add_function_mapping): the model takes the table as the constant built at import time")
    return rows, bound


def parse_readme():
    txt = (REPO / "README.md").read_text()
    lines = [ln for ln in txt.splitlines() if ln.startswith("- Math functions are pulled from")]
    if len(lines) != 1:
        raise Refusal("README.md: the math function list line was not found exactly once")
    _, _, tail = lines[0].partition("):")
    names = re.findall(r"`([A-Za-z_][A-Za-z0-9_]*)`", tail)
    if len(names) < 5:
        raise Refusal("README.md: math function list could not be read")
    return names


def builtins_with_module():
    code = "import builtins\nfor n in sorted(dir(builtins)):\n    m = getattr(getattr(builtins, n), '__module__', None)\n    print(n, m if isinstance(m, str) else '-')\n"
    out = subprocess.run([PY, "-c", code], text=True, capture_output=True, timeout=60, check=True).stdout
    res = []
    for ln in out.splitlines():
        n, m = ln.split()
        res.append((n, m))
    return res


FALLBACK = """From FV Require Import Base.Prelude Model.MathFuncs.
Definition math_rows : list mrow := [].
Definition module_names : list string := [].
Definition builtin_names : list (string * string) := [].
Definition documented : list string := [].
Definition math_env : menv := {| e_rows := math_rows; e_module := module_names; e_builtins := builtin_names |}.
"""


@translator("MathTable.v", FALLBACK)
def math_table() -> str:
    rows, bound = parse_table()
    doc = parse_readme()
    blt = builtins_with_module()
    out = ["From FV Require Import Base.Prelude Model.MathFuncs.", ""]
    out.append("(* add_function_mapping calls of cpp_functions.py, in source order *)")
    out.append("Definition math_rows : list mrow :=\n  " + clist([f"mk_mrow {cstr(a)} {cstr(b)} [{'; '.join(cstr(i) for i in c)}] {cstr(d)}" for a, b, c, d in rows], 1) + ".")
    out.append("(* names bound at module level in cpp_functions.py (eval() in find_known_functions sees them) *)")
    out.append("Definition module_names : list string := " + clist([cstr(b) for b in bound]) + ".")
    out.append("(* Python builtins: name, __module__ ('-' when the object has no string __module__) *)")
    out.append("Definition builtin_names : list (string * string) :=\n  " + clist([f"({cstr(n)}, {cstr(m)})" for n, m in blt], 4) + ".")
    out.append("(* README.md: documented math functions *)")
    out.append("Definition documented : list string := " + clist([cstr(n) for n in doc]) + ".")
    out.append("Definition math_env : menv := {| e_rows := math_rows; e_module := module_names; e_builtins := builtin_names |}.")
    return "\n".join(out) + "\n"
